(** Behaviour preservation of the rewrite kernels under their guards (tree level: [eval] ignores parenthesisation;
    the parse-back half is Proofs/MiniPyFacts.v). *)
From CM Require Import Model.MiniPy Model.PySem Model.Rewrites Spec.RewritesSpec Proofs.PySemFacts.

Lemma str_eqb_true_eq a b : str_eqb a b = true -> a = b.
Proof. apply str_eqb_eq. Qed.

(** * fix-hasattr-call *)
Lemma hasattr_step_gen cfg p elt x it : exists p', hasattr_step cfg (EGen p elt x it) = EGen p' elt x it.
Proof. exists p. reflexivity. Qed.
Lemma hasattr_step_not_gen cfg n : is_gen n = false -> is_gen (hasattr_step cfg n) = false.
Proof.
  destruct n; try reflexivity; try discriminate. cbn. destruct f; try reflexivity.
  destruct args as [|a rest]; [reflexivity|]. destruct (hasattr_fires cfg a rest); reflexivity.
Qed.
Lemma hasattr_callable_eq v :
  inst_only_call v = false -> py_hasattr v call_attr = Val (VBool (py_callable v)).
Proof.
  intros H. unfold py_hasattr. rewrite str_eqb_refl. destruct v; try reflexivity.
  unfold inst_only_call in H. unfold py_callable.
  destruct (mem_str call_attr cls_attrs); cbn [orb]; [reflexivity|].
  cbn [negb] in H. rewrite andb_true_r in H. rewrite H. reflexivity.
Qed.
Lemma hasattr_step_sound cfg rho n : hasattr_node_ok cfg rho n = true -> eval rho (hasattr_step cfg n) = eval rho n.
Proof.
  destruct n; try reflexivity. destruct f; try reflexivity. destruct args as [|a rest]; [reflexivity|].
  cbn [hasattr_node_ok hasattr_step]. destruct (hasattr_fires cfg a rest) eqn:F; [|reflexivity].
  destruct rest as [|l [|? ?]]; try discriminate.
  unfold hasattr_fires in F. apply andb_true_iff in F as [L _].
  (* the last argument is the literal "__call__" *)
  unfold last_is_call_lit in L. cbn in L. destruct l; try discriminate. destruct c; try discriminate.
  apply str_eqb_true_eq in L. subst s.
  intros G. apply andb_true_iff in G as [NG G]. apply negb_true_iff in NG.
  rewrite (eval_call rho BHasattr) by (destruct a; reflexivity). cbn [evals].
  assert (SG : sole_gen [a] = false) by (destruct a; try reflexivity; discriminate).
  - rewrite (eval_call rho BCallable) by exact SG. cbn [evals].
    destruct (eval rho a) as [v|]; [|reflexivity]. cbn [eval eval_const apply_builtin].
    fold call_attr. rewrite hasattr_callable_eq; [reflexivity|].
    destruct (inst_only_call v); [discriminate|reflexivity].
Qed.
Theorem hasattr_preserves cfg rho e : hasattr_guard cfg rho e = true -> eval rho (rw_hasattr cfg e) = eval rho e.
Proof.
  apply (bu_sound (hasattr_step cfg) (hasattr_node_ok cfg)).
  - apply hasattr_step_sound.
  - apply hasattr_step_gen.
  - intros _ n _. apply hasattr_step_not_gen.
Qed.

(** * invert-boolean-check *)
Lemma cneg_invol c : cneg (cneg c) = c.
Proof. destruct c; cbn; [rewrite negb_involutive|]; reflexivity. Qed.

Definition ordered_pair (v w : value) : bool := negb (is_set v && is_set w) && negb (is_nan v) && negb (is_nan w).
Lemma py_lt_flip v w : ordered_pair v w = true -> py_lt false w v = cneg (py_lt true v w).
Proof.
  unfold ordered_pair.
  destruct v as [[]| | | | | | | | |], w as [[]| | | | | | | | |]; cbn; try discriminate; intros _; try reflexivity;
    try (rewrite Z.leb_antisym; reflexivity); try (rewrite negb_involutive; reflexivity).
Qed.
Lemma ordered_pair_sym v w : ordered_pair v w = ordered_pair w v.
Proof. unfold ordered_pair. destruct v, w; reflexivity. Qed.
Lemma py_lt_forms v w : ordered_pair v w = true ->
  py_lt false w v = cneg (py_lt true v w) /\ py_lt true v w = cneg (py_lt false w v) /\
  py_lt false v w = cneg (py_lt true w v) /\ py_lt true w v = cneg (py_lt false v w).
Proof.
  intros H. pose proof H as H'. rewrite ordered_pair_sym in H'.
  pose proof (py_lt_flip v w H) as A. pose proof (py_lt_flip w v H') as B.
  repeat split; try assumption.
  - rewrite A, cneg_invol. reflexivity.
  - rewrite B, cneg_invol. reflexivity.
Qed.
Lemma cmp_op_negates o o' v w :
  negates o o' = true -> (is_ordering o = false \/ ordered_pair v w = true) ->
  cmp_op o' v w = cneg (cmp_op o v w).
Proof.
  destruct o, o'; try discriminate; intros _ [H|H]; try discriminate; cbn [cmp_op cneg];
    try rewrite negb_involutive; try reflexivity; try (symmetry; apply cneg_invol);
    destruct (py_lt_forms v w H) as (A & B & C & D); assumption.
Qed.

Lemma builtin_ordered v w : (is_num v && is_num w) || (is_strv v && is_strv w) = true -> ordered_pair v w = true.
Proof. destruct v as [[]| | | | | | | | |], w as [[]| | | | | | | | |]; cbn; intros H; try discriminate H; reflexivity. Qed.
Lemma invert_step_gen cfg p elt x it : exists p', invert_step cfg (EGen p elt x it) = EGen p' elt x it.
Proof. exists p. reflexivity. Qed.

Lemma assoc_targets_single cfg o c o' :
  is_juxt c = false -> assoc_op o (iv_table cfg) = Some o' -> invert_targets cfg [(o, c)] = Some [(o', c)].
Proof. intros J H. cbn. rewrite J, H. reflexivity. Qed.

(** the single-comparison inversion *)
Lemma invert_single_sound cfg rho p a pc l o c o' pn :
  a = ECmp pc l [(o, c)] ->
  assoc_op o (iv_table cfg) = Some o' -> negates o o' = true ->
  (is_ordering o = false \/ totally_ordered_operands rho l c = true) ->
  eval rho (ECmp pn l [(o', c)]) = eval rho (ENot p a).
Proof.
  intros -> _ Hn Ho. rewrite eval_not, !eval_cmp. destruct (eval rho l) as [v|] eqn:El; [|reflexivity].
  cbn [chain]. destruct (eval rho c) as [w|] eqn:Ec; [|reflexivity].
  rewrite (cmp_op_negates o o' v w Hn).
  - destruct (cmp_op o v w); reflexivity.
  - destruct Ho as [Ho|Ho]; [left; exact Ho|right]. unfold totally_ordered_operands in Ho. rewrite El, Ec in Ho. apply builtin_ordered, Ho.
Qed.

Lemma py_is_bool_true b : py_is (VBool b) (VBool true) = CB b.
Proof. destruct b; reflexivity. Qed.
Lemma py_is_bool_false b : py_is (VBool b) (VBool false) = CB (negb b).
Proof. destruct b; reflexivity. Qed.

Lemma invert_step_sound cfg rho n : invert_node_ok cfg rho n = true -> eval rho (invert_step cfg n) = eval rho n.
Proof.
  destruct n as [| | | | | | | | |p a| | | | |]; try reflexivity.
  destruct a as [| | | | | | | | | |pc l rest| | | |]; try reflexivity.
  unfold invert_node_ok, invert_step. cbn [invert_action_of invert_node].
  (* the general path, shared by several cases *)
  assert (General : forall (G : match (if negb (iv_chains cfg) && negb (Nat.eqb (List.length rest) 1) then IA_none
                                         else match invert_targets cfg rest with Some _ => IA_general l rest | None => IA_none end) with
                                  | IA_none | IA_raises => true
                                  | IA_is_literal l0 => bool_or_raises rho l0 && negb (is_gen l0)
                                  | IA_general l0 rest0 =>
                                      match rest0 with
                                      | [(o, c)] => match assoc_op o (iv_table cfg) with
                                                    | Some o' => negb (is_juxt c) && negates o o' && (negb (is_ordering o) || totally_ordered_operands rho l0 c)
                                                    | None => false
                                                    end
                                      | _ => false
                                      end
                                  end = true),
             eval rho (invert_general cfg p (ECmp pc l rest) pc l rest) = eval rho (ENot p (ECmp pc l rest))).
  { unfold invert_general. destruct (negb (iv_chains cfg) && negb (Nat.eqb (List.length rest) 1)); [reflexivity|].
    destruct (invert_targets cfg rest) as [rest'|] eqn:IT; [|reflexivity].
    intros G. destruct rest as [|[o c] [|? ?]]; try discriminate.
    destruct (assoc_op o (iv_table cfg)) as [o'|] eqn:A; [|discriminate].
    apply andb_true_iff in G as [G Ho]. apply andb_true_iff in G as [J Hn]. apply negb_true_iff in J.
    rewrite (assoc_targets_single cfg o c o' J A) in IT. injection IT as <-.
    eapply invert_single_sound; [reflexivity | exact A | exact Hn |].
    apply orb_true_iff in Ho as [Ho|Ho]; [left; apply negb_true_iff, Ho | right; exact Ho]. }
  destruct rest as [|[o c] rest]; [exact General|].
  destruct rest as [|cb rest]; [|destruct o; exact General].
  destruct o; try exact General.
  destruct (is_juxt c) eqn:J; [exact General|].
  destruct (has_value_attr c) eqn:HV; [|reflexivity].
  destruct c as [|k| | | | | | | | | | | | |]; try exact General.
  destruct k as [[]| | | |]; try exact General.
  - (* not l is True  ->  not l *)
    intros G. apply andb_true_iff in G as [G _]. unfold bool_or_raises in G.
    rewrite !eval_not, eval_cmp. destruct (eval rho l) as [v|]; [|reflexivity].
    destruct v as [b| | | | | | | | |]; try discriminate. cbn. destruct b; reflexivity.
  - (* not l is False ->  l *)
    intros G. apply andb_true_iff in G as [G _]. unfold bool_or_raises in G.
    rewrite eval_not, eval_cmp. destruct (eval rho l) as [v|]; [|reflexivity].
    destruct v as [b| | | | | | | | |]; try discriminate. cbn. destruct b; reflexivity.
Qed.

Lemma invert_step_not_gen cfg rho n :
  invert_node_ok cfg rho n = true -> is_gen n = false -> is_gen (invert_step cfg n) = false.
Proof.
  destruct n as [| | | | | | | | |p a| | | | |]; try (intros; assumption); try reflexivity.
  intros G _. destruct a as [| | | | | | | | | |pc l rest| | | |]; try reflexivity.
  unfold invert_node_ok in G. unfold invert_step. cbn [invert_action_of invert_node] in *.
  assert (General : is_gen (invert_general cfg p (ECmp pc l rest) pc l rest) = false).
  { unfold invert_general. destruct (negb (iv_chains cfg) && negb (Nat.eqb (List.length rest) 1)); [reflexivity|].
    destruct (invert_targets cfg rest); reflexivity. }
  destruct rest as [|[o c] rest]; [exact General|].
  destruct rest as [|cb rest]; [|destruct o; exact General].
  destruct o; try exact General.
  destruct (is_juxt c) eqn:J; [exact General|].
  destruct (has_value_attr c) eqn:HV; [|reflexivity].
  destruct c as [|k| | | | | | | | | | | | |]; try exact General.
  destruct k as [[]| | | |]; try exact General; try reflexivity.
  apply andb_true_iff in G as [_ G]. apply negb_true_iff in G. exact G.
Qed.

Theorem invert_preserves cfg rho e : invert_guard cfg rho e = true -> eval rho (rw_invert cfg e) = eval rho e.
Proof.
  apply (bu_sound (invert_step cfg) (invert_node_ok cfg)).
  - apply invert_step_sound.
  - apply invert_step_gen.
  - apply invert_step_not_gen.
Qed.
Theorem invert_file_preserves cfg rho e : invert_guard cfg rho e = true -> eval rho (invert_file cfg e) = eval rho e.
Proof.
  intros G. unfold invert_file. destruct (bu_any (invert_step cfg) (invert_raises cfg) e); [reflexivity|].
  apply invert_preserves, G.
Qed.

(** * combine-startswith-endswith / combine-isinstance-issubclass *)
(** lazy "any" with errors: the common shape of str.startswith(tuple), isinstance(x, tuple), issubclass(c, tuple) *)
Fixpoint lany (f : value -> cres) (vs : list value) : cres :=
  match vs with
  | [] => CB false
  | v :: t => match f v with CB true => CB true | CB false => lany f t | CX x => CX x end
  end.
Definition cor (a b : cres) : cres := match a with CB true => CB true | CB false => b | CX x => CX x end.
Lemma lany_app f xs ys : lany f (xs ++ ys) = cor (lany f xs) (lany f ys).
Proof. induction xs as [|v t IH]; cbn; [reflexivity|]. destruct (f v) as [[]|]; cbn; [reflexivity|exact IH|reflexivity]. Qed.
Lemma lany_single f v : lany f [v] = f v.
Proof. cbn. destruct (f v) as [[]|]; reflexivity. Qed.

Definition sw_elem (m : meth) (s : str) (v : value) : cres :=
  match v with VStr p => CB (tailmatch m p s) | _ => CX TypeError end.
Lemma sw_tuple_lany m s vs : sw_tuple m s vs = of_cres (lany (sw_elem m s) vs).
Proof.
  induction vs as [|v t IH]; cbn; [reflexivity|]. destruct v; cbn; try reflexivity.
  destruct (tailmatch m s0 s); cbn; [reflexivity|exact IH].
Qed.
Lemma class_match_tuple t items : class_match t (VTuple items) = lany (class_match t) items.
Proof.
  cbn [class_match]. induction items as [|a r IH]; [reflexivity|]. cbn [lany].
  destruct (class_match t a) as [[]|]; [reflexivity|exact IH|reflexivity].
Qed.
Lemma subclass_match_tuple d items : subclass_match d (VTuple items) = lany (subclass_match d) items.
Proof.
  cbn [subclass_match]. induction items as [|a r IH]; [reflexivity|]. cbn [lany].
  destruct (subclass_match d a) as [[]|]; [reflexivity|exact IH|reflexivity].
Qed.

(** values of effect-free operands *)
Definition sval (rho : env) (e : expr) : value := match eval rho e with Val v => v | Raise _ => VNone end.
Lemma simple_eval rho e : simple rho e = true -> eval rho e = Val (sval rho e).
Proof.
  unfold sval. destruct e; try discriminate; cbn; try reflexivity.
  destruct (lookup rho x); [reflexivity|discriminate].
Qed.
Lemma evals_simple rho es : forallb (simple rho) es = true -> evals rho es = inr (map (sval rho) es).
Proof.
  induction es as [|a t IH]; cbn; [reflexivity|]. intros H. apply andb_true_iff in H as [Ha Ht].
  rewrite (simple_eval rho a Ha), (IH Ht). reflexivity.
Qed.

Lemma atom_eqb_eq a b : atom_eqb a b = true -> a = b.
Proof.
  destruct a, b; try discriminate; cbn.
  - intros H. apply N.eqb_eq in H. congruence.
  - destruct c, c0; try discriminate; cbn; intros H; try reflexivity.
    + apply Bool.eqb_prop in H. congruence.
    + apply Z.eqb_eq in H. congruence.
    + apply str_eqb_eq in H. congruence.
  - destruct t, t0; try discriminate; cbn; intros H; try reflexivity. apply N.eqb_eq in H. congruence.
Qed.

(** de-duplication does not change a lazy "any": a dropped element repeats one that already answered "no" *)
Lemma dedup_lany k rho f es : forallb (simple rho) es = true ->
  forall seen, (forall a, List.In a seen -> f (sval rho a) = CB false) ->
  lany f (map (sval rho) (dedup k seen es)) = lany f (map (sval rho) es).
Proof.
  induction es as [|a t IH]; intros Hs seen Inv; [reflexivity|].
  cbn [forallb] in Hs. apply andb_true_iff in Hs as [Ha Ht]. cbn [dedup].
  destruct (dedup_key k a).
  - destruct (existsb (atom_eqb a) seen) eqn:E.
    + apply existsb_exists in E as [a' [Hin Heq]]. apply atom_eqb_eq in Heq. subst a'.
      cbn [map lany]. rewrite (Inv a Hin). apply IH; assumption.
    + cbn [map lany]. destruct (f (sval rho a)) as [[]|] eqn:F; try reflexivity.
      apply IH; [assumption|]. intros a' [<-|Hin]; [exact F|apply Inv, Hin].
  - cbn [map lany]. destruct (f (sval rho a)) as [[]|]; try reflexivity. apply IH; assumption.
Qed.
Lemma dedup_simple k rho es : forallb (simple rho) es = true -> forall seen, forallb (simple rho) (dedup k seen es) = true.
Proof.
  induction es as [|a t IH]; intros Hs seen; [reflexivity|].
  cbn [forallb] in Hs. apply andb_true_iff in Hs as [Ha Ht]. cbn [dedup].
  destruct (dedup_key k a); [destruct (existsb (atom_eqb a) seen)|]; cbn [forallb]; rewrite ?Ha; cbn [andb]; apply IH; assumption.
Qed.

(** what a combinable call means, as a function of the values of the elements of its combinable argument *)
Definition call_sem (c : cfunc) (rho : env) (inst : expr) (vals : list value) : result :=
  match c with
  | FMeth m =>
      match eval rho inst with
      | Raise x => Raise x
      | Val (VStr s) => of_cres (lany (sw_elem m s) vals)
      | Val (VType _) => Raise OutOfModel
      | Val _ => Raise AttributeError
      end
  | FBuiltin BIsinstance =>
      match eval rho inst with Raise x => Raise x | Val vx => of_cres (lany (class_match (type_of vx)) vals) end
  | FBuiltin _ =>
      match eval rho inst with Raise x => Raise x | Val vx => of_cres (lany (subclass_match vx) vals) end
  end.
Definition arg_vals (rho : env) (a : expr) : list value := map (sval rho) (arg_elements a).

Lemma good_arg_elements k rho a : good_arg k rho a = true -> forallb (simple rho) (arg_elements a) = true.
Proof.
  unfold good_arg. destruct a; cbn [arg_elements forallb]; intros H; try exact H;
    apply andb_true_iff in H as [H _]; rewrite H; reflexivity.
Qed.

Lemma call_sem_or c rho inst xs ys :
  call_sem c rho inst (xs ++ ys) =
  match call_sem c rho inst xs with
  | Raise x => Raise x
  | Val v => if truthy v then Val v else call_sem c rho inst ys
  end.
Proof.
  unfold call_sem. destruct c as [m|f].
  - destruct (eval rho inst) as [[]|]; try reflexivity. rewrite lany_app.
    destruct (lany (sw_elem m s) xs) as [[]|]; reflexivity.
  - destruct f; (destruct (eval rho inst) as [vx|]; [|reflexivity]); rewrite lany_app;
      match goal with |- context [cor ?a _] => destruct a as [[]|] end; reflexivity.
Qed.

Lemma lookup_name rho r : eval rho (EName r) = match lookup rho r with Some v => Val v | None => Raise NameError end.
Proof. reflexivity. Qed.

Definition combinable_for (k : combine_kind) (c : cfunc) : bool :=
  match k, c with
  | KStartsEnds, FMeth _ => true
  | KInstSub, FBuiltin BIsinstance | KInstSub, FBuiltin BIssubclass => true
  | _, _ => false
  end.
Lemma combinable_in k c : List.In c (combinable_funcs k) -> combinable_for k c = true.
Proof. destruct k; cbn; intros [<-|[<-|[]]]; reflexivity. Qed.

(** a matching call with a good argument means [call_sem] of the values of its argument's elements *)
Lemma call_sem_eq k c rho e inst a :
  combinable_for k c = true -> match_call c e = Some (inst, a) -> good_arg k rho a = true ->
  eval rho e = call_sem c rho inst (arg_vals rho a).
Proof.
  intros Hc Hm Hg. pose proof (good_arg_elements k rho a Hg) as Hel.
  destruct c as [m|f]; destruct e; try discriminate; cbn [match_call] in Hm.
  - (* method call *)
    destruct args as [|a0 [|? ?]]; try discriminate.
    destruct (meth_eqb m m0 && (is_tuple a0 || is_strlit a0 || name_like a0)) eqn:E; [|discriminate].
    injection Hm as <- <-. apply andb_true_iff in E as [Em _].
    assert (m0 = m) by (destruct m, m0; try discriminate; reflexivity). subst m0.
    destruct k; try discriminate.
    rewrite eval_meth. unfold call_sem. rewrite lookup_name.
    destruct (lookup rho recv) as [[]|]; try reflexivity.
    cbn [evals]. unfold arg_vals.
    destruct (is_tuple a0) eqn:T.
    + destruct a0; try discriminate. cbn [arg_elements] in *. rewrite eval_tuple, (evals_simple rho es Hel).
      cbn [sw]. apply sw_tuple_lany.
    + assert (Hae : arg_elements a0 = [a0]) by (destruct a0; try reflexivity; discriminate).
      rewrite Hae in *. cbn [forallb] in Hel. rewrite andb_true_r in Hel.
      rewrite (simple_eval rho a0 Hel). cbn [map]. rewrite lany_single.
      (* not tuple-valued *)
      unfold good_arg in Hg. assert (NT : tuple_valued rho a0 = false).
      { destruct a0; try discriminate; apply andb_true_iff in Hg as [_ Hg]; apply negb_true_iff in Hg; exact Hg. }
      unfold tuple_valued in NT. rewrite (simple_eval rho a0 Hel) in NT.
      destruct (sval rho a0); try reflexivity. discriminate.
  - (* isinstance / issubclass *)
    destruct args as [|x [|a0 [|? ?]]]; try discriminate.
    destruct (builtin_eqb f f0 && name_like x && (name_like a0 || is_tuple a0)) eqn:E; [|discriminate].
    injection Hm as -> ->. apply andb_true_iff in E as [E _]. apply andb_true_iff in E as [Ef Hx].
    assert (f0 = f) by (destruct f, f0; try discriminate; reflexivity). subst f0.
    destruct k; try discriminate.
    rewrite eval_call by (destruct inst; try reflexivity; discriminate).
    cbn [evals]. unfold call_sem, arg_vals.
    assert (Ea : eval rho a = Val (match a with ETuple _ => VTuple (map (sval rho) (arg_elements a)) | _ => sval rho a end)).
    { destruct (is_tuple a) eqn:T.
      - destruct a; try discriminate. cbn [arg_elements] in *. rewrite eval_tuple, (evals_simple rho es Hel). reflexivity.
      - assert (Hae : arg_elements a = [a]) by (destruct a; try reflexivity; discriminate).
        rewrite Hae in Hel. cbn [forallb] in Hel. rewrite andb_true_r in Hel.
        rewrite (simple_eval rho a Hel). destruct a; try reflexivity; discriminate. }
    destruct f; try discriminate; (destruct (eval rho inst) as [vx|]; [|reflexivity]); rewrite Ea; cbn [apply_builtin];
      (destruct (is_tuple a) eqn:T;
       [destruct a; try discriminate; cbn [arg_elements]; rewrite ?class_match_tuple, ?subclass_match_tuple; reflexivity
       |assert (Hae : arg_elements a = [a]) by (destruct a; try reflexivity; discriminate);
        rewrite Hae; cbn [map]; rewrite lany_single; destruct a; try reflexivity; discriminate]).
Qed.

(** the combined call means [call_sem] of the values of the merged tuple *)
Lemma call_sem_with_arg k c rho e inst a es :
  combinable_for k c = true -> match_call c e = Some (inst, a) -> forallb (simple rho) es = true ->
  eval rho (with_arg e (ETuple es)) = call_sem c rho inst (map (sval rho) es).
Proof.
  intros Hc Hm Hs.
  destruct c as [m|f]; destruct e; try discriminate; cbn [match_call] in Hm.
  - destruct args as [|a0 [|? ?]]; try discriminate.
    destruct (meth_eqb m m0 && (is_tuple a0 || is_strlit a0 || name_like a0)) eqn:E; [|discriminate].
    injection Hm as <- <-. apply andb_true_iff in E as [Em _].
    assert (m0 = m) by (destruct m, m0; try discriminate; reflexivity). subst m0.
    cbn [with_arg]. rewrite eval_meth. unfold call_sem. rewrite lookup_name.
    destruct (lookup rho recv) as [[]|]; try reflexivity.
    cbn [evals]. rewrite eval_tuple, (evals_simple rho es Hs). cbn [sw]. apply sw_tuple_lany.
  - destruct args as [|x [|a0 [|? ?]]]; try discriminate.
    destruct (builtin_eqb f f0 && name_like x && (name_like a0 || is_tuple a0)) eqn:E; [|discriminate].
    injection Hm as -> ->. apply andb_true_iff in E as [E _]. apply andb_true_iff in E as [Ef Hx].
    assert (f0 = f) by (destruct f, f0; try discriminate; reflexivity). subst f0.
    cbn [with_arg]. rewrite eval_call by (destruct inst; try reflexivity; discriminate).
    cbn [evals]. unfold call_sem. rewrite eval_tuple, (evals_simple rho es Hs).
    destruct k; try discriminate.
    destruct f; try discriminate; (destruct (eval rho inst) as [vx|]; [|reflexivity]); cbn [apply_builtin];
      rewrite ?class_match_tuple, ?subclass_match_tuple; reflexivity.
Qed.

(** call-or-call: the heart of the codemod *)
Lemma combine_two_sound k c rho p l r il al ir ar :
  combinable_for k c = true ->
  match_call c l = Some (il, al) -> match_call c r = Some (ir, ar) -> atom_eqb il ir = true ->
  good_arg k rho al = true -> good_arg k rho ar = true ->
  eval rho (combine_two k l al ar) = eval rho (EBool p BOr l r).
Proof.
  intros Hc Hl Hr Hi Gl Gr. apply atom_eqb_eq in Hi. subst ir.
  pose proof (good_arg_elements k rho al Gl) as El. pose proof (good_arg_elements k rho ar Gr) as Er.
  assert (Eall : forallb (simple rho) (arg_elements al ++ arg_elements ar) = true) by (rewrite forallb_app, El, Er; reflexivity).
  unfold combine_two.
  rewrite (call_sem_with_arg k c rho l il al _ Hc Hl (dedup_simple k rho _ Eall [])).
  rewrite eval_bool, (call_sem_eq k c rho l il al Hc Hl Gl), (call_sem_eq k c rho r il ar Hc Hr Gr).
  rewrite <- call_sem_or. unfold arg_vals. rewrite <- map_app.
  (* de-duplication *)
  unfold call_sem.
  destruct c as [m|f].
  - destruct (eval rho il) as [[]|]; try reflexivity. f_equal. apply dedup_lany; [exact Eall|]. intros a [].
  - destruct f; (destruct (eval rho il) as [vx|]; [|reflexivity]); f_equal; (apply dedup_lany; [exact Eall|]; intros a []).
Qed.

Lemma eval_or_assoc rho p1 p2 p3 p4 a b c :
  eval rho (EBool p1 BOr a (EBool p2 BOr b c)) = eval rho (EBool p3 BOr (EBool p4 BOr a b) c).
Proof.
  rewrite !eval_bool. destruct (eval rho a) as [va|]; [|reflexivity].
  destruct (truthy va) eqn:Ta; rewrite ?Ta; [reflexivity|].
  destruct (eval rho b) as [vb|]; [|reflexivity]. destruct (truthy vb) eqn:Tb; rewrite ?Tb; reflexivity.
Qed.
Lemma eval_or_congr_l rho p q a a' b : eval rho a = eval rho a' -> eval rho (EBool p BOr a b) = eval rho (EBool q BOr a' b).
Proof. intros H. rewrite !eval_bool, H. reflexivity. Qed.
Lemma eval_or_congr_r rho p q a b b' : eval rho b = eval rho b' -> eval rho (EBool p BOr a b) = eval rho (EBool q BOr a b').
Proof. intros H. rewrite !eval_bool, H. reflexivity. Qed.

Lemma bop_eqb_or o : bop_eqb o BOr = true -> o = BOr.
Proof. destruct o; [reflexivity|discriminate]. Qed.

Lemma fold_with_sound cfg k c rho p l r e' :
  combinable_for k c = true ->
  fold_with cfg k c p l r = Some e' ->
  match firing cfg c l r with
  | Some (o, a1, a2) => bop_eqb o BOr && good_arg k rho a1 && good_arg k rho a2
  | None => true
  end = true ->
  eval rho e' = eval rho (EBool p BOr l r).
Proof.
  intros Hc. unfold fold_with, firing.
  destruct (match_call c l) as [[il al]|] eqn:Ml.
  - destruct (match_call c r) as [[ir ar]|] eqn:Mr.
    + destruct (atom_eqb il ir) eqn:Ei; [|discriminate]. intros H G. injection H as <-.
      apply andb_true_iff in G as [G G2]. apply andb_true_iff in G as [_ G1].
      eapply combine_two_sound; eassumption.
    + destruct r as [| | | | | | | |pr o rl rr| | | | | |]; try discriminate.
      destruct (match_call c rl) as [[irl arl]|] eqn:Mrl; [|discriminate].
      destruct (atom_eqb il irl && (negb (cc_inner_or cfg) || bop_eqb o BOr)) eqn:E; [|discriminate].
      intros H G. injection H as <-. apply andb_true_iff in E as [Ei _].
      apply andb_true_iff in G as [G G2]. apply andb_true_iff in G as [Go G1]. apply bop_eqb_or in Go. subst o.
      rewrite (eval_or_assoc rho p pr p true l rl rr). apply eval_or_congr_l.
      eapply combine_two_sound; eassumption.
  - destruct l as [| | | | | | | |pl o ll lr| | | | | |]; try discriminate.
    destruct (match_call c r) as [[ir ar]|] eqn:Mr; [|discriminate].
    destruct (match_call c lr) as [[ilr alr]|] eqn:Mlr; [|discriminate].
    destruct (atom_eqb ilr ir && (negb (cc_inner_or cfg) || bop_eqb o BOr)) eqn:E; [|discriminate].
    intros H G. injection H as <-. apply andb_true_iff in E as [Ei _].
    apply andb_true_iff in G as [G G2]. apply andb_true_iff in G as [Go G1]. apply bop_eqb_or in Go. subst o.
    rewrite <- (eval_or_assoc rho (cc_parens cfg && p) true p pl ll lr r). apply eval_or_congr_r.
    eapply combine_two_sound; eassumption.
Qed.

Lemma combine_step_sound cfg k rho n : combine_node_ok cfg k rho n = true -> eval rho (combine_step cfg k n) = eval rho n.
Proof.
  destruct n as [| | | | | | | |p o l r| | | | | |]; try reflexivity. destruct o; [|reflexivity].
  cbn [combine_node_ok combine_step]. unfold fold_node. intros G. rewrite forallb_forall in G.
  assert (Hall : forall cs, (forall c, List.In c cs -> List.In c (combinable_funcs k)) ->
                 match first_some (map (fun c => fold_with cfg k c p l r) cs) with
                 | Some e => eval rho e = eval rho (EBool p BOr l r)
                 | None => True
                 end).
  { induction cs as [|c cs IH]; intros Hin; cbn; [exact I|].
    destruct (fold_with cfg k c p l r) as [e'|] eqn:F.
    - eapply fold_with_sound; [apply combinable_in, Hin; left; reflexivity | exact F | apply G, Hin; left; reflexivity].
    - apply IH. intros c' Hc'. apply Hin. right. exact Hc'. }
  specialize (Hall (combinable_funcs k) (fun c H => H)).
  destruct (first_some (map (fun c => fold_with cfg k c p l r) (combinable_funcs k))); [exact Hall|reflexivity].
Qed.
Lemma combine_step_gen cfg k p elt x it : exists p', combine_step cfg k (EGen p elt x it) = EGen p' elt x it.
Proof. exists p. reflexivity. Qed.
Lemma fold_with_not_gen cfg k c p l r e' : fold_with cfg k c p l r = Some e' -> is_gen e' = false.
Proof.
  unfold fold_with, combine_two.
  destruct (match_call c l) as [[il al]|] eqn:Ml.
  - destruct (match_call c r) as [[ir ar]|].
    + destruct (atom_eqb il ir); [|discriminate]. intros H. injection H as <-.
      destruct c, l; try discriminate; cbn [with_arg]; try reflexivity.
      cbn in Ml. destruct args as [|? [|? [|? ?]]]; try discriminate; reflexivity.
    + destruct r; try discriminate. destruct (match_call c r1) as [[? ?]|]; [|discriminate].
      destruct (_ && _); [|discriminate]. intros H. injection H as <-. reflexivity.
  - destruct l; try discriminate. destruct (match_call c r) as [[? ?]|]; [|discriminate].
    destruct (match_call c l2) as [[? ?]|]; [|discriminate].
    destruct (_ && _); [|discriminate]. intros H. injection H as <-. reflexivity.
Qed.
Lemma combine_step_not_gen cfg k n : is_gen n = false -> is_gen (combine_step cfg k n) = false.
Proof.
  destruct n as [| | | | | | | |p o l r| | | | | |]; try (intros; assumption); try reflexivity.
  intros _. destruct o; [|reflexivity]. cbn [combine_step]. unfold fold_node.
  generalize (combinable_funcs k). induction l0 as [|c cs IH]; cbn; [reflexivity|].
  destruct (fold_with cfg k c p l r) eqn:F; [eapply fold_with_not_gen, F | exact IH].
Qed.
Theorem combine_preserves cfg k rho e : combine_guard cfg k rho e = true -> eval rho (rw_combine cfg k e) = eval rho e.
Proof.
  apply (bu_sound (combine_step cfg k) (combine_node_ok cfg k)).
  - apply combine_step_sound.
  - apply combine_step_gen.
  - intros _ n _. apply combine_step_not_gen.
Qed.

(** * use-set-literal: unconditional *)
Lemma rw_set_hit es :
  rw_set_literal (ECall BSet [EList es]) = match es with [] => ECall BSet [] | _ :: _ => ESet es end.
Proof. reflexivity. Qed.
Definition set_hit (f : builtin) (args : list expr) : bool :=
  match f, args with BSet, [EList _] => true | _, _ => false end.
Lemma rw_set_miss f args : set_hit f args = false ->
  rw_set_literal (ECall f args) = ECall f (map rw_set_literal args).
Proof.
  destruct f; try reflexivity. destruct args as [|a [|b t]]; try reflexivity; destruct a; try reflexivity; discriminate.
Qed.
Lemma rw_set_is_gen e : is_gen (rw_set_literal e) = is_gen e.
Proof.
  destruct e; try reflexivity. destruct (set_hit f args) eqn:H.
  - destruct f; try discriminate. destruct args as [|a [|b t]]; try discriminate; destruct a; try discriminate.
    rewrite rw_set_hit. destruct es; reflexivity.
  - rewrite rw_set_miss by exact H. reflexivity.
Qed.
Lemma sole_gen_map_set args : sole_gen (map rw_set_literal args) = sole_gen args.
Proof.
  destruct args as [|a [|b t]]; try reflexivity.
  - cbn [map sole_gen]. pose proof (rw_set_is_gen a) as H. destruct (rw_set_literal a), a; cbn in H; try discriminate; reflexivity.
  - cbn [map sole_gen]. pose proof (rw_set_is_gen a) as H. destruct (rw_set_literal a), a; cbn in H; try discriminate; reflexivity.
Qed.
Definition set_gen_parts (rho : env) (e : expr) : Prop :=
  match e with
  | EGen _ elt x it =>
      eval rho (rw_set_literal it) = eval rho it /\
      (forall v, eval (bind x v rho) (rw_set_literal elt) = eval (bind x v rho) elt)
  | _ => True
  end.
Lemma set_literal_strong : forall e rho, eval rho (rw_set_literal e) = eval rho e /\ set_gen_parts rho e.
Proof.
  induction e using expr_ind'; intros rho; (split; [|try exact I]).
  - reflexivity.
  - reflexivity.
  - reflexivity.
  - cbn [rw_set_literal]. rewrite !eval_tuple, (evals_map_ext rho rw_set_literal es); [reflexivity|].
    eapply Forall_impl; [|exact H]. intros a Ha. apply Ha.
  - cbn [rw_set_literal]. rewrite !eval_list, (evals_map_ext rho rw_set_literal es); [reflexivity|].
    eapply Forall_impl; [|exact H]. intros a Ha. apply Ha.
  - cbn [rw_set_literal]. rewrite !eval_set, (evals_map_ext rho rw_set_literal es); [reflexivity|].
    eapply Forall_impl; [|exact H]. intros a Ha. apply Ha.
  - cbn [rw_set_literal]. rewrite !eval_meth, (evals_map_ext rho rw_set_literal args); [reflexivity|].
    eapply Forall_impl; [|exact H]. intros a Ha. apply Ha.
  - (* ECall *)
    destruct (set_hit f args) eqn:SH.
    + destruct f; try discriminate. destruct args as [|a [|b t]]; try discriminate; destruct a; try discriminate.
      rewrite rw_set_hit. rewrite (eval_call rho BSet [EList es]) by reflexivity. cbn [evals]. rewrite eval_list.
      destruct es as [|e0 es'].
      * reflexivity.
      * rewrite eval_set. destruct (evals rho (e0 :: es')) as [r|vs] eqn:E; [|reflexivity].
        destruct (evals_inl _ _ _ E) as [x ->]. reflexivity.
    + rewrite rw_set_miss by exact SH.
      destruct (sole_gen args) eqn:SG.
      * destruct args as [|a [|b t]]; try discriminate; [|destruct a; discriminate]. destruct a; try discriminate.
        inversion H as [|? ? Ha _]; subst. destruct (Ha rho) as [_ [Hit Helt]].
        cbn [map rw_set_literal]. rewrite !eval_call_gen, Hit.
        destruct (eval rho a2) as [vi|]; [|reflexivity]. unfold with_seq.
        destruct (to_seq vi) as [r|vals]; [reflexivity|]. apply consume_ext. intros v _. apply Helt.
      * rewrite !eval_call by (try rewrite sole_gen_map_set; exact SG).
        rewrite (evals_map_ext rho rw_set_literal args); [reflexivity|].
        eapply Forall_impl; [|exact H]. intros a Ha. apply Ha.
  - cbn [rw_set_literal]. rewrite !eval_bool, (proj1 (IHe1 rho)), (proj1 (IHe2 rho)). reflexivity.
  - cbn [rw_set_literal]. rewrite !eval_not, (proj1 (IHe rho)). reflexivity.
  - cbn [rw_set_literal]. rewrite !eval_cmp, (proj1 (IHe rho)). destruct (eval rho e) as [v|]; [|reflexivity].
    apply chain_map_ext. eapply Forall_impl; [|exact H]. intros cb Hcb. apply Hcb.
  - cbn [rw_set_literal]. rewrite !eval_listcomp, (proj1 (IHe2 rho)). destruct (eval rho e2) as [vi|]; [|reflexivity].
    unfold with_seq. destruct (to_seq vi) as [r|vals]; [reflexivity|].
    rewrite (map_res_ext (fun v => eval (bind x v rho) (rw_set_literal e1)) (fun v => eval (bind x v rho) e1) vals); [reflexivity|].
    intros v _. apply IHe1.
  - reflexivity.
  - cbn [set_gen_parts]. split; [apply IHe2|]. intros v. apply IHe1.
  - cbn [rw_set_literal]. rewrite !eval_floordiv, (proj1 (IHe1 rho)), (proj1 (IHe2 rho)). reflexivity.
  - reflexivity.
Qed.
Theorem set_literal_preserves rho e : eval rho (rw_set_literal e) = eval rho e.
Proof. apply set_literal_strong. Qed.

(** * use-generator *)
Lemma map_res_total (step : value -> result) vals :
  forallb (fun v => is_val (step v)) vals = true -> exists ws, map_res step vals = inr ws.
Proof.
  induction vals as [|v t IH]; cbn; [exists []; reflexivity|]. intros H. apply andb_true_iff in H as [Hv Ht].
  destruct (step v) as [w|]; [|discriminate]. destruct (IH Ht) as [ws ->]. exists (w :: ws). reflexivity.
Qed.
Lemma lazy_any_of_map_res step vals ws : map_res step vals = inr ws -> lazy_any step vals = Val (VBool (any_of ws)).
Proof.
  revert ws. induction vals as [|v t IH]; cbn; intros ws H.
  - injection H as <-. reflexivity.
  - destruct (step v) as [w|]; [|discriminate]. destruct (map_res step t) as [|ws']; [discriminate|].
    injection H as <-. cbn. destruct (truthy w); [reflexivity|]. apply IH. reflexivity.
Qed.
Lemma lazy_all_of_map_res step vals ws : map_res step vals = inr ws -> lazy_all step vals = Val (VBool (all_of ws)).
Proof.
  revert ws. induction vals as [|v t IH]; cbn; intros ws H.
  - injection H as <-. reflexivity.
  - destruct (step v) as [w|]; [|discriminate]. destruct (map_res step t) as [|ws']; [discriminate|].
    injection H as <-. cbn. destruct (truthy w); [|reflexivity]. apply IH. reflexivity.
Qed.
(** the rewritten call site *)
Lemma generator_site_sound rho f elt x it :
  gen_func f = true -> (lazy_func f = false \/ elements_total rho elt x it = true) ->
  eval rho (ECall f [EGen false elt x it]) = eval rho (ECall f [EListComp elt x it]).
Proof.
  intros Hf Hl. rewrite eval_call_gen, (eval_call rho f [EListComp elt x it]) by reflexivity.
  cbn [evals]. rewrite eval_listcomp. unfold elements_total in Hl.
  destruct (eval rho it) as [vi|]; [|reflexivity]. unfold with_seq.
  destruct (to_seq vi) as [r|vals] eqn:Es; [destruct (to_seq_inl _ _ Es) as [x0 ->]; reflexivity|].
  destruct (map_res (fun v => eval (bind x v rho) elt) vals) as [r|ws] eqn:M.
  - (* some element raises *)
    destruct (map_res_inl _ _ _ M) as [x0 ->].
    destruct Hl as [Hl|Hl].
    + destruct f; try discriminate; cbn [consume]; rewrite M; reflexivity.
    + destruct (map_res_total _ vals Hl) as [ws E]. rewrite E in M. discriminate.
  - destruct f; try discriminate; cbn [consume]; rewrite ?M; try reflexivity.
    + rewrite (lazy_any_of_map_res _ vals ws M). reflexivity.
    + rewrite (lazy_all_of_map_res _ vals ws M). reflexivity.
Qed.

Lemma gen_sites_list_fix cfg rho es :
  (fix gs (es : list expr) := match es with [] => [] | a :: t => gen_sites cfg rho a ++ gs t end) es
  = flat_map (gen_sites cfg rho) es.
Proof. induction es as [|a t IH]; cbn; [reflexivity|]. rewrite IH. reflexivity. Qed.
Lemma gen_sites_cmp_fix cfg rho rest :
  (fix go (rs : list (cmpop * expr)) := match rs with [] => [] | (_, b) :: t => gen_sites cfg rho b ++ go t end) rest
  = flat_map (fun cb => gen_sites cfg rho (snd cb)) rest.
Proof. induction rest as [|[o b] t IH]; cbn; [reflexivity|]. rewrite IH. reflexivity. Qed.

Lemma gen_call_hit cfg f elt x it rest :
  gen_hit cfg f (EListComp elt x it :: rest) = true -> gen_call cfg f (EListComp elt x it :: rest) = ECall f [EGen false elt x it].
Proof. unfold gen_hit, gen_call. intros ->. reflexivity. Qed.
Lemma gen_call_not_gen cfg f args : is_gen (gen_call cfg f args) = false.
Proof.
  unfold gen_call. destruct args as [|a r]; [reflexivity|]. destruct a; try reflexivity.
  destruct (gen_func f && (negb (ug_single_arg cfg) || match r with [] => true | _ :: _ => false end)); reflexivity.
Qed.
Lemma rw_generator_is_gen cfg e : is_gen (rw_generator cfg e) = is_gen e.
Proof.
  destruct e; try reflexivity; cbn [rw_generator].
  - destruct (ug_nested cfg); reflexivity.
  - destruct (gen_hit cfg f args); [destruct (ug_updated_parts cfg); apply gen_call_not_gen|destruct (ug_nested cfg); reflexivity].
Qed.
Lemma sole_gen_map_generator cfg args : sole_gen (map (rw_generator cfg) args) = sole_gen args.
Proof.
  destruct args as [|a [|b t]]; try reflexivity; cbn [map sole_gen]; pose proof (rw_generator_is_gen cfg a) as H;
    destruct (rw_generator cfg a), a; cbn in H; try discriminate; reflexivity.
Qed.

Definition generator_parts (cfg : generator_cfg) (rho : env) (e : expr) : Prop :=
  match e with
  | EGen _ elt x it | EListComp elt x it =>
      eval rho (rw_generator cfg it) = eval rho it /\
      (forall vi vals, eval rho it = Val vi -> to_seq vi = inr vals ->
                       forall v, List.In v vals -> eval (bind x v rho) (rw_generator cfg elt) = eval (bind x v rho) elt)
  | _ => True
  end.

Lemma generator_strong cfg : forall e rho,
  forallb generator_site_ok (gen_sites cfg rho e) = true ->
  eval rho (rw_generator cfg e) = eval rho e /\ generator_parts cfg rho e.
Proof.
  induction e as [x|c|t|es H|es H|es H|r m args H|f args H|par op e1 e2 IHe1 IHe2|par e IHe|par e rest IHe H|e1 x e2 IHe1 IHe2|par e1 x e2 IHe1 IHe2|e1 e2 IHe1 IHe2|n e IHe]
    using expr_ind'; intros rho G; cbn [rw_generator gen_sites generator_parts] in *;
    rewrite ?gen_sites_list_fix, ?gen_sites_cmp_fix in G; (split; [|try exact I]); try reflexivity.
  - rewrite forallb_flat_map in G. rewrite forallb_forall in G.
    rewrite !eval_tuple, (evals_map_ext rho (rw_generator cfg) es); [reflexivity|].
    apply Forall_forall. intros a Ha. rewrite Forall_forall in H. apply H; [exact Ha|apply G, Ha].
  - rewrite forallb_flat_map in G. rewrite forallb_forall in G.
    rewrite !eval_list, (evals_map_ext rho (rw_generator cfg) es); [reflexivity|].
    apply Forall_forall. intros a Ha. rewrite Forall_forall in H. apply H; [exact Ha|apply G, Ha].
  - rewrite forallb_flat_map in G. rewrite forallb_forall in G.
    rewrite !eval_set, (evals_map_ext rho (rw_generator cfg) es); [reflexivity|].
    apply Forall_forall. intros a Ha. rewrite Forall_forall in H. apply H; [exact Ha|apply G, Ha].
  - (* EMeth *)
    destruct (ug_nested cfg); [|reflexivity]. rewrite ?gen_sites_list_fix in G.
    rewrite forallb_flat_map in G. rewrite forallb_forall in G.
    rewrite !eval_meth, (evals_map_ext rho (rw_generator cfg) args); [reflexivity|].
    apply Forall_forall. intros a Ha. rewrite Forall_forall in H. apply H; [exact Ha|apply G, Ha].
  - (* ECall *)
    destruct (gen_hit cfg f args) eqn:Hit.
    + (* the call itself is rewritten *)
      destruct args as [|a rest]; [discriminate|]. destruct a as [| | | | | | | | | | |elt x it| | |]; try discriminate.
      cbn [forallb] in G. apply andb_true_iff in G as [Gs Gp].
      cbn [generator_site_ok] in Gs. apply andb_true_iff in Gs as [Gr Gl].
      destruct rest; [|discriminate].
      assert (Hf : gen_func f = true) by (unfold gen_hit in Hit; apply andb_true_iff in Hit; apply Hit).
      assert (Site : eval rho (ECall f [EGen false elt x it]) = eval rho (ECall f [EListComp elt x it])).
      { apply generator_site_sound; [exact Hf|]. apply orb_true_iff in Gl as [Gl|Gl]; [left; apply negb_true_iff, Gl|right; exact Gl]. }
      destruct (ug_updated_parts cfg).
      * cbn [map rw_generator]. rewrite gen_call_hit by exact Hit. rewrite <- Site.
        inversion H as [|? ? Ha _]; subst. destruct (Ha rho Gp) as [_ [Hi He]].
        rewrite !eval_call_gen, Hi. destruct (eval rho it) as [vi|]; [|reflexivity]. unfold with_seq.
        destruct (to_seq vi) as [r|vals] eqn:Es; [reflexivity|]. apply consume_ext. intros v Hv. apply (He vi vals eq_refl Es v Hv).
      * rewrite gen_call_hit by exact Hit. exact Site.
    + destruct (ug_nested cfg); [|reflexivity]. rewrite ?gen_sites_list_fix in G.
      rewrite forallb_flat_map in G. rewrite forallb_forall in G.
      destruct (sole_gen args) eqn:SG.
      * destruct args as [|a [|b t]]; try discriminate; [|destruct a; discriminate]. destruct a; try discriminate.
        inversion H as [|? ? Ha _]; subst. destruct (Ha rho (G _ (or_introl eq_refl))) as [_ [Hi He]].
        cbn [map rw_generator]. rewrite !eval_call_gen, Hi.
        destruct (eval rho a2) as [vi|]; [|reflexivity]. unfold with_seq.
        destruct (to_seq vi) as [r|vals] eqn:Es; [reflexivity|]. apply consume_ext. intros v Hv. apply (He vi vals eq_refl Es v Hv).
      * rewrite !eval_call by (try rewrite sole_gen_map_generator; exact SG).
        rewrite (evals_map_ext rho (rw_generator cfg) args); [reflexivity|].
        apply Forall_forall. intros a Ha. rewrite Forall_forall in H. apply H; [exact Ha|apply G, Ha].
  - rewrite forallb_app in G. apply andb_true_iff in G as [G1 G2].
    rewrite !eval_bool, (proj1 (IHe1 rho G1)), (proj1 (IHe2 rho G2)). reflexivity.
  - rewrite !eval_not, (proj1 (IHe rho G)). reflexivity.
  - rewrite forallb_app in G. apply andb_true_iff in G as [G1 G2].
    rewrite !eval_cmp, (proj1 (IHe rho G1)). destruct (eval rho e) as [v|]; [|reflexivity].
    apply chain_map_ext. rewrite forallb_flat_map in G2. rewrite forallb_forall in G2.
    apply Forall_forall. intros cb Hcb. rewrite Forall_forall in H. apply (H cb Hcb rho). apply G2, Hcb.
  - (* EListComp: value *)
    rewrite forallb_app in G. apply andb_true_iff in G as [G1 G2].
    rewrite !eval_listcomp, (proj1 (IHe2 rho G1)). destruct (eval rho e2) as [vi|] eqn:Ei; [|reflexivity].
    unfold with_seq. destruct (to_seq vi) as [r|vals] eqn:Es; [reflexivity|].
    rewrite (map_res_ext (fun v => eval (bind x v rho) (rw_generator cfg e1)) (fun v => eval (bind x v rho) e1) vals); [reflexivity|].
    intros v Hv. apply IHe1. exact (under_binder_forall _ rho x e2 _ vi vals Ei Es G2 v Hv).
  - (* EListComp: parts *)
    rewrite forallb_app in G. apply andb_true_iff in G as [G1 G2]. split; [apply IHe2, G1|].
    intros vi vals Ei Es v Hv. apply IHe1. exact (under_binder_forall _ rho x e2 _ vi vals Ei Es G2 v Hv).
  - (* EGen: parts *)
    rewrite forallb_app in G. apply andb_true_iff in G as [G1 G2]. split; [apply IHe2, G1|].
    intros vi vals Ei Es v Hv. apply IHe1. exact (under_binder_forall _ rho x e2 _ vi vals Ei Es G2 v Hv).
  - rewrite forallb_app in G. apply andb_true_iff in G as [G1 G2].
    rewrite !eval_floordiv, (proj1 (IHe1 rho G1)), (proj1 (IHe2 rho G2)). reflexivity.
Qed.
Theorem generator_preserves cfg : forall e rho,
  generator_guard cfg rho e = true -> eval rho (rw_generator cfg e) = eval rho e.
Proof. intros e rho G. apply generator_strong, G. Qed.
Theorem generator_file_preserves cfg rho e :
  generator_guard cfg rho e = true -> eval rho (generator_file cfg e) = eval rho e.
Proof. intros G. unfold generator_file. destruct (generator_crashes cfg e); [reflexivity|]. apply generator_preserves, G. Qed.
