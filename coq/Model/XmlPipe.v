(** Model of codemodder/codemods/xml_transformer.py: XMLTransformer(XMLGenerator, LexicalHandler),
    ElementAttributeXMLTransformer, NewElementXMLTransformer, XMLTransformerPipeline.apply.  Definitions only.

    The input is the SAX event stream expat delivers (an oracle: [parse : option (list pevent)], [None] = the
    parser or a handler raised), each event with the locator position at the time of the callback.
    The serializer is xml.sax.saxutils.XMLGenerator (Python 3.12) as instantiated by the pipeline:
    encoding "utf-8", short_empty_elements False, writing to a text-mode temporary file, plus the hand-written
    lexical handlers of XMLTransformer exactly as written.  Namespace processing is off (make_parser default),
    so names are raw qnames and xmlns declarations are ordinary attributes. *)
From CM Require Export Base.Str Base.Dict Base.Types_RegexPipe.
From Coq Require Import String Ascii.

Definition lit (s : string) : str := map N_of_ascii (list_ascii_of_string s).

Inductive event :=
| StartDocument
| EndDocument
| StartElement (name : str) (attrs : dict str str)
| EndElement (name : str)
| Characters (content : str)
| IgnorableWhitespace (content : str)
| ProcessingInstruction (target data : str)
| SkippedEntity (name : str)
| Comment (content : str)
| StartCDATA
| EndCDATA
| StartDTD (name : str) (public_id system_id : option str)
| EndDTD.

(** an event with the locator's (line, column) when its callback runs *)
Record pevent := { pe_line : N; pe_col : Z; pe_ev : event }.

(** ** xml.sax.saxutils.escape / quoteattr.  The successive str.replace calls act character by character
       (no replacement text contains a later pattern), so they are written as one pass. *)
Definition esc_char (c : N) : str :=
  if (c =? 38)%N then [38; 97; 109; 112; 59]%N          (* &amp; *)
  else if (c =? 62)%N then [38; 103; 116; 59]%N         (* &gt; *)
  else if (c =? 60)%N then [38; 108; 116; 59]%N         (* &lt; *)
  else [c].
Definition escape (s : str) : str := flat_map esc_char s.

Definition qesc_char (c : N) : str :=
  if (c =? 10)%N then [38; 35; 49; 48; 59]%N            (* &#10; *)
  else if (c =? 13)%N then [38; 35; 49; 51; 59]%N       (* &#13; *)
  else if (c =? 9)%N then [38; 35; 57; 59]%N            (* &#9; *)
  else esc_char c.
Definition quot_char (c : N) : str := if (c =? 34)%N then [38; 113; 117; 111; 116; 59]%N else [c].   (* &quot; *)
Definition has_char (c : N) (s : str) : bool := existsb (N.eqb c) s.
Definition quoteattr (v : str) : str :=
  let data := flat_map qesc_char v in
  if has_char 34 data then
    if has_char 39 data then 34%N :: flat_map quot_char data ++ [34%N]
    else 39%N :: data ++ [39%N]
  else 34%N :: data ++ [34%N].

(** f'{x}' of an Optional[str] *)
Definition fmt_opt (o : option str) : str := match o with Some s => s | None => lit "None" end.

(** ** what each callback writes *)
Definition emit_attr (kv : str * str) : str := 32%N :: fst kv ++ 61%N :: quoteattr (snd kv).
Definition emit (e : event) : str :=
  match e with
  | StartDocument => lit "<?xml version=""1.0"" encoding=""utf-8""?>" ++ [10%N]
  | EndDocument => []
  | StartElement name attrs => 60%N :: name ++ flat_map emit_attr attrs ++ [62%N]
  | EndElement name => 60%N :: 47%N :: name ++ [62%N]
  | Characters content => escape content
  | IgnorableWhitespace content => content
  | ProcessingInstruction target data => 60%N :: 63%N :: target ++ 32%N :: data ++ [63%N; 62%N]
  | SkippedEntity _ => []
  | Comment content => lit "<!--" ++ content ++ lit "-->" ++ [10%N]
  | StartCDATA => lit "<![CDATA["
  | EndCDATA => lit "]]>"
  | StartDTD name p s => lit "<!DOCTYPE " ++ name ++ lit " PUBLIC """ ++ fmt_opt p ++ lit """ """ ++ fmt_opt s ++ lit """>" ++ [10%N]
  | EndDTD => []
  end.
Definition emit_all (evs : list event) : str := flat_map emit evs.

(** TemporaryFile("w+"): text mode, newline=None.  Writing keeps "\n" (os.linesep on Linux); reading back
    translates "\r\n" and "\r" to "\n". *)
Fixpoint universal_newlines (s : str) : str :=
  match s with
  | [] => []
  | c :: r =>
      if (c =? 13)%N then
        match r with
        | c2 :: r2 => if (c2 =? 10)%N then 10%N :: universal_newlines r2 else 10%N :: universal_newlines r
        | [] => [10%N]
        end
      else c :: universal_newlines r
  end.

(** ** results, findings, changes *)
Record xresult := { x_locs : list (N * Z * N); (* start.line, start.column, end.line *) x_finding : option N }.
Record xchange := { xc_line : N; xc_findings : list N }.

Definition xloc_contains (n : N) (l : N * Z * N) : bool := (fst (fst l) <=? n)%N && (n <=? snd l)%N.
Definition xfindings_for_location (rs : list xresult) (n : N) : list N :=
  flat_map (fun r => if existsb (xloc_contains n) (x_locs r) then match x_finding r with Some f => [f] | None => [] end else []) rs.
Definition xall_findings (rs : list xresult) : list N :=
  flat_map (fun r => match x_finding r with Some f => [f] | None => [] end) rs.

(** XMLTransformer.match_result *)
Definition match_result (results : option (list xresult)) (line_only : bool) (line : N) (column : Z) : bool :=
  match results with
  | None => true
  | Some rs =>
      existsb (fun r => existsb (fun l =>
        let '(sl, sc, _) := l in
        (line_only && (sl =? line)%N) || ((sl =? line)%N && (sc - 1 =? column)%Z)) (x_locs r)) rs
  end.

Section Transformers.
  Variable fc_results : list xresult.       (* file_context.results *)

  Definition add_change (line : N) : xchange :=
    {| xc_line := line; xc_findings := xfindings_for_location fc_results line |}.

  (** ElementAttributeXMLTransformer.startElement *)
  Definition attr_step (amap : dict str (dict str str)) (results : option (list xresult)) (line_only : bool)
             (pe : pevent) : list event * list xchange :=
    match pe_ev pe with
    | StartElement name attrs =>
        match (if match_result results line_only (pe_line pe) (pe_col pe) then dget str_eqb name amap else None) with
        | Some new => ([StartElement name (dupdate str_eqb attrs new)], [add_change (pe_line pe)])
        | None => ([pe_ev pe], [])
        end
    | e => ([e], [])
    end.

  (** NewElement / NewElementXMLTransformer.add_new_element, endElement (results are not consulted) *)
  Inductive new_element := NE (name parent_name : str) (content : ne_content) (attributes : dict str str)
  with ne_content := NEText (s : str) | NENested (e : new_element).

  Fixpoint add_new_element (ne : new_element) : list event :=
    match ne with
    | NE name _ content attrs =>
        StartElement name attrs ::
        (match content with NEText s => [Characters s] | NENested e => add_new_element e end) ++ [EndElement name]
    end.
  Definition ne_parent (ne : new_element) : str := match ne with NE _ p _ _ => p end.

  Definition new_step (news : list new_element) (pe : pevent) : list event * list xchange :=
    match pe_ev pe with
    | EndElement name =>
        let hits := List.filter (fun ne => str_eqb (ne_parent ne) name) news in
        (flat_map add_new_element hits ++ [EndElement name], map (fun _ => add_change (pe_line pe)) hits)
    | e => ([e], [])
    end.

  Definition run_steps (step : pevent -> list event * list xchange) (evs : list pevent) : list event * list xchange :=
    (flat_map (fun pe => fst (step pe)) evs, flat_map (fun pe => snd (step pe)) evs).

  (** ** XMLTransformerPipeline.apply *)
  Section Apply.
    Context {D : Type} (mkdiff : str -> str -> D).      (* create_diff(original.splitlines(True), output.readlines()) *)
    Context (dempty : D -> bool).                       (* `not diff` *)
    Definition guard_hits (g : xml_diff_guard) (d : D) : bool :=
      match g with NoDiffGuard => false | DiffGuard | DiffGuardRereadTry => dempty d end.
    Record xchangeset := { xcs_diff : D; xcs_changes : list xchange }.
    Record xapply_out := { xo_ret : option xchangeset; xo_file : str; xo_failed : bool; xo_unfixed : list (N * N) }.

    Definition xml_apply (g : xml_diff_guard) (step : pevent -> list event * list xchange) (dry_run : bool)
               (original : str) (parse : option (list pevent)) : xapply_out :=
      match parse with
      | None => {| xo_ret := None; xo_file := original; xo_failed := true;
                   xo_unfixed := map (fun f => (f, 0%N)) (xall_findings fc_results) |}
      | Some evs =>
          let '(out, changes) := run_steps step evs in
          match changes with
          | [] => {| xo_ret := None; xo_file := original; xo_failed := false; xo_unfixed := [] |}
          | _ =>
              let new_text := universal_newlines (emit_all out) in
              if guard_hits g (mkdiff original new_text)
              then {| xo_ret := None; xo_file := original; xo_failed := false; xo_unfixed := [] |}
              else
              {| xo_ret := Some {| xcs_diff := mkdiff original new_text; xcs_changes := changes |};
                 xo_file := if dry_run then original else new_text;
                 xo_failed := false; xo_unfixed := [] |}
          end
      end.

    (** the whole of apply() including the UTF-8 re-read of the original, which comes after `if not changes` and before
        the diff.  [reread_ok = false]: read_bytes().decode("utf-8") raises (a well-formed document in another encoding;
        [original] is then just a code for the bytes).  [None] = the exception escapes apply(). *)
    Definition xml_apply_file (g : xml_diff_guard) (step : pevent -> list event * list xchange) (dry_run : bool)
               (original : str) (parse : option (list pevent)) (reread_ok : bool) : option xapply_out :=
      if reread_ok then Some (xml_apply g step dry_run original parse)
      else match parse with
           | None => Some (xml_apply g step dry_run original parse)
           | Some evs =>
               match snd (run_steps step evs) with
               | [] => Some (xml_apply g step dry_run original parse)
               | _ => match g with
                      | DiffGuardRereadTry =>
                          Some {| xo_ret := None; xo_file := original; xo_failed := true;
                                  xo_unfixed := map (fun f => (f, 0%N)) (xall_findings fc_results) |}
                      | NoDiffGuard | DiffGuard => None
                      end
               end
           end.
  End Apply.
End Transformers.
Arguments xcs_diff {D}. Arguments xcs_changes {D}. Arguments xo_ret {D}. Arguments xo_file {D}.
Arguments xo_failed {D}. Arguments xo_unfixed {D}.
