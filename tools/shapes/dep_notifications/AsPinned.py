def build_dependency_notification(filename: str, dependency: Dependency) -> str:
    return DEPENDENCY_NOTIFICATION.format(
        filename=filename,
        description=dependency.description,
    )

def build_failed_dependency_notification(dependency: Dependency) -> str:
    return FAILED_DEPENDENCY_NOTIFICATION.format(
        description=dependency.description,
        requirement=dependency.requirement,
    )
