import configparser
import re
from typing import Optional

from codemodder.codetf import ChangeSet
from codemodder.dependency import Dependency
from codemodder.dependency_management.base_dependency_writer import DependencyWriter
from codemodder.diff import create_diff_and_linenums
from codemodder.logging import logger


def find_leading_whitespace(s):
    if match := re.match(r"(\s+)", s):
        return match.group(1)
    return ""  # pragma: no cover


def added_line_nums_strategy(lines, i):
    return lines[i]


class SetupCfgWriter(DependencyWriter):
    def add_to_file(
        self, dependencies: list[Dependency], dry_run: bool = False
    ) -> Optional[ChangeSet]:
        config = configparser.ConfigParser()

        try:
            config.read(self.path)
        except configparser.ParsingError:
            logger.debug("Unable to parse setup.cfg file.")
            return None

        if "options" not in config or not (
            defined_dependencies := config["options"].get("install_requires", "")
        ):
            logger.debug("Unable to add dependencies to setup.cfg file.")
            return None

        with open(self.path, "r", encoding="utf-8") as f:
            original_lines = f.readlines()
        if original_lines and not original_lines[-1].endswith("\n"):
            # like RequirementsTxtWriter: terminate the last line, else the first added
            # requirement is glued to it on disk while the diff shows it on a line of its own
            original_lines[-1] += "\n"

        if not (
            new_lines := self.build_new_lines(
                original_lines, defined_dependencies, dependencies
            )
        ):
            logger.debug("Unable to add dependencies to setup.cfg file.")
            return None

        if not dry_run:
            try:
                with open(self.path, "w", encoding="utf-8") as f:
                    f.writelines(new_lines)
            except Exception:
                logger.debug("Unable to add dependencies to setup.cfg file.")
                return None

        diff, added_line_nums = create_diff_and_linenums(original_lines, new_lines)

        changes = self.build_changes(
            dependencies, added_line_nums_strategy, added_line_nums
        )
        return ChangeSet(
            path=str(self.path.relative_to(self.parent_directory)),
            diff=diff,
            changes=changes,
        )

    def build_new_lines(
        self,
        original_lines: list[str],
        defined_dependencies: str,
        dependencies_to_add: list[Dependency],
    ) -> Optional[list[str]]:
        """
        configparser does not retain formatting or comment lines, so we have to build
        the output newline manually.
        """
        clean_lines = [s.strip() for s in original_lines]

        if newline_separated := len(defined_dependencies.split("\n")) > 1:
            last_dep_line = defined_dependencies.split("\n")[-1]
            dep_sep = "\n"
        else:
            # deps are in same line as install_requires key separated by commas
            last_dep_line = [
                line for line in clean_lines if line.endswith(defined_dependencies)
            ][-1]
            dep_sep = ","

        try:
            last_dep_idx = clean_lines.index(last_dep_line)
        except ValueError:
            # we were unable to find the last req line due to some formatting issue
            logger.debug("Unable to add dependencies to setup.cfg file.")
            return None

        if newline_separated:
            formatting = find_leading_whitespace(original_lines[last_dep_idx])
            new_deps = [
                f"{formatting}{dep.requirement}{dep_sep}" for dep in dependencies_to_add
            ]
            new_lines = (
                original_lines[: last_dep_idx + 1]
                + new_deps
                + original_lines[last_dep_idx + 1 :]
            )
        else:
            # new_deps added to existing deps line
            new_dep = ",".join(
                [f"{dep.requirement}{dep_sep}" for dep in dependencies_to_add]
            )
            new_dep_line = f"{original_lines[last_dep_idx].rstrip()}, {new_dep}\n"
            new_lines = (
                original_lines[:last_dep_idx]
                + [new_dep_line]
                + original_lines[last_dep_idx + 1 :]
            )

        return new_lines
