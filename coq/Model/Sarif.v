(** SemgrepResultSet.from_sarif / CodeQLResultSet.from_sarif up to the findings they file. [None] = exception. *)
From CM Require Export Model.Readers Base.Types_Location.

Definition s_runs := [114;117;110;115]%N.
Definition s_ruleId := [114;117;108;101;73;100]%N.
Definition s_physicalLocation := [112;104;121;115;105;99;97;108;76;111;99;97;116;105;111;110]%N.
Definition s_artifactLocation := [97;114;116;105;102;97;99;116;76;111;99;97;116;105;111;110]%N.
Definition s_uri := [117;114;105]%N.
Definition s_region := [114;101;103;105;111;110]%N.
Definition s_startColumn := [115;116;97;114;116;67;111;108;117;109;110]%N.
Definition s_endColumn := [101;110;100;67;111;108;117;109;110]%N.
Definition s_tool := [116;111;111;108]%N.
Definition s_driver := [100;114;105;118;101;114]%N.
Definition s_name := [110;97;109;101]%N.
Definition s_toolComponent := [116;111;111;108;67;111;109;112;111;110;101;110;116]%N.
Definition s_index := [105;110;100;101;120]%N.
Definition s_extensions := [101;120;116;101;110;115;105;111;110;115]%N.
Definition s_rules := [114;117;108;101;115]%N.
Definition s_CodeQL := [67;111;100;101;81;76]%N.

Definition bind {A B} (x : option A) (f : A -> option B) : option B := match x with Some a => f a | None => None end.
Notation "x <- e ;; k" := (bind e (fun x => k)) (at level 61, e at next level, right associativity).

(** list indexing with a Python int (negative indices not modelled: None) *)
Definition jnth (j : json) (i : json) : option json :=
  match j, i with
  | JArr l, JNum z => if Z.ltb z 0 then None else nth_error l (Z.to_nat z)
  | _, _ => None
  end.

(** SarifResult.extract_rule_id (truncate_rule_id = False) *)
Definition extract_rule_id (result run : json) : option str :=
  match result with
  | JObj _ =>
      let rid := jget_or_null s_ruleId result in
      if jtruthy rid then jstr rid
      else match jget s_rule result with
           | Some rule =>
               tc <- jget s_toolComponent rule ;; ti <- jget s_index tc ;; ri <- jget s_index rule ;;
               tool <- jget s_tool run ;; exts <- jget s_extensions tool ;; ext <- jnth exts ti ;;
               rules <- jget s_rules ext ;; r <- jnth rules ri ;; i <- jget s_id r ;; jstr i
           | None => None
           end
  | _ => None
  end.

Definition semgrep_location (rule : str) (loc : json) : option finding :=
  pl <- jget s_physicalLocation loc ;; al <- jget s_artifactLocation pl ;; uri <- jget s_uri al ;; u <- jstr uri ;;
  rg <- jget s_region pl ;;
  match rg with
  | JObj _ =>
      sl <- jget s_startLine rg ;; sc <- jget s_startColumn rg ;; el <- jget s_endLine rg ;; ec <- jget s_endColumn rg ;;
      Some {| f_rule := rule; f_id := JStr rule; f_file := u; f_sl := sl; f_sc := sc; f_el := el; f_ec := ec |}
  | _ => None
  end.

Definition semgrep_result (run result : json) : option (list finding) :=
  rule <- extract_rule_id result run ;;
  locs <- jget s_locations result ;; ls <- jarr locs ;; mapM (semgrep_location rule) ls.

Definition semgrep_run (run : json) : option (list finding) :=
  rs <- jget s_results run ;; l <- jarr rs ;; fs <- mapM (semgrep_result run) l ;; Some (concat fs).

Definition semgrep_reader (doc : json) : option (list finding) :=
  runs <- jget s_runs doc ;; l <- jarr runs ;; fs <- mapM semgrep_run l ;; Some (concat fs).

(** CodeQL: only runs whose driver name contains "CodeQL"; region optional *)
Fixpoint is_prefix (p s : str) : bool :=
  match p, s with [], _ => true | a :: p', b :: s' => N.eqb a b && is_prefix p' s' | _, [] => false end.
Fixpoint is_infix (p s : str) : bool :=
  is_prefix p s || match s with [] => false | _ :: s' => is_infix p s' end.

Definition codeql_detect (run : json) : option bool :=
  match jget s_tool run with
  | None => Some false
  | Some tool => d <- jget s_driver tool ;; n <- jget s_name d ;; nm <- jstr n ;; Some (is_infix s_CodeQL nm)
  end.

Definition codeql_location (scd : sc_default) (rule : str) (loc : json) : option finding :=
  pl <- jget s_physicalLocation loc ;; al <- jget s_artifactLocation pl ;; uri <- jget s_uri al ;; u <- jstr uri ;;
  match pl with
  | JObj _ =>
      match jget s_region pl with
      | None => Some {| f_rule := rule; f_id := JStr rule; f_file := u; f_sl := JNum 0; f_sc := JNum (-1); f_el := JNum 0; f_ec := JNum (-1) |}
      | Some (JObj r) =>
          let rg := JObj r in
          sl <- jget s_startLine rg ;;
          let sc := match jget s_startColumn rg with
                    | Some v => v
                    | None => match scd with ScNone => JNull | ScOne => JNum 1 end   (* region.get("startColumn"[, 1]) *)
                    end in
          Some {| f_rule := rule; f_id := JStr rule; f_file := u; f_sl := sl; f_sc := sc;
                  f_el := match jget s_endLine rg with Some v => v | None => sl end;
                  f_ec := match jget s_endColumn rg with Some v => v | None => sc end |}
      | Some _ => None
      end
  | _ => None
  end.

Definition codeql_result (scd : sc_default) (run result : json) : option (list finding) :=
  rule <- extract_rule_id result run ;;
  locs <- jget s_locations result ;; ls <- jarr locs ;; mapM (codeql_location scd rule) ls.

Definition codeql_run (scd : sc_default) (run : json) : option (list finding) :=
  d <- codeql_detect run ;;
  if d then rs <- jget s_results run ;; l <- jarr rs ;; fs <- mapM (codeql_result scd run) l ;; Some (concat fs)
  else Some [].

Definition codeql_reader (scd : sc_default) (doc : json) : option (list finding) :=
  runs <- jget s_runs doc ;; l <- jarr runs ;; fs <- mapM (codeql_run scd) l ;; Some (concat fs).
