"""C05 — exactly the files selected by the include/exclude patterns are touched.

Implementation side: `fnmatch.fnmatch` (CPython), `codemodder.code_directory.match_files`, `pathlib.Path.suffix`, and the real
CLI on generated directory trees (find-and-fix mode with pixee:python/use-set-literal, SAST mode with
sonar:python/numpy-nan-equality and a generated issues file).
Model/spec side: coq/Model/Glob.v, coq/Spec/GlobSpec.v evaluated by vm_compute (coq/Harness/C05_run.v)."""
from __future__ import annotations

import concurrent.futures
import fnmatch as py_fnmatch
import json
import os
import warnings
from pathlib import Path

from harness import core
from harness.core import cN, clist, copt, cpair, cstr

META = {
    "rule": "pure: random glob patterns over an alphabet with `* ? [ ] ! - ^ \\ / .` (bracket sets, negation, ranges, reversed "
            "ranges, unterminated `[`, `**`, empty strings) x names derived from the pattern or random; match_files on random "
            "relative-path lists x pattern lists (with `:line`, None sentinel). end-to-end: generated trees (nested dirs, "
            "tests/ build/ venv/ .git/ site-packages, non-Python files, symlinked files and dirs, an outside tree reachable "
            "only through links), every regular file carrying a trigger, pattern lists via --path-include/--path-exclude; "
            "non-trivial = at least one file selected and one rejected, or a link / default-excluded dir present; distinct by "
            "(tree, patterns)",
    "trusted": ["CPython 3.12 fnmatch/re (differentially tested against Model/Glob.v, not proved)",
                "pathlib rglob/is_file/is_symlink (contract of Model.Glob.files_for_directory, tested end to end)",
                "libcst transformer of use-set-literal / numpy-nan-equality rewrites any file it is given that has the trigger"],
    "assumptions": ["Path.rglob('*') lists exactly the entries reachable without traversing a symbolic link; "
                    "is_file() and not is_symlink() holds exactly for regular files (tested on every generated tree)",
                    "patterns contain no comma (the CLI splits --path-include/--path-exclude at commas)",
                    "the transformer pipeline writes only the file it was given (observed: outside tree hash, target snapshot)",
                    "which of several writable manifests is updated depends on directory iteration order: the model only demands "
                    "that at most one candidate is written, and exactly one when a source was rewritten and all candidates are regular files"],
}

IMPORTS = "From CM Require Import Harness.RunBase Harness.C05_run Model.Glob.\n"
HERE = Path(__file__).resolve().parent
CORPUS = HERE.parent / "corpus" / "C05"

FF_CODEMOD = "pixee:python/use-set-literal"
FF_TRIGGER = "x = set([1, 2])\ny = 0\nz = set([3])\n"
FF_FIXED = "x = {1, 2}\ny = 0\nz = {3}\n"
SAST_CODEMOD = "sonar:python/numpy-nan-equality"
SAST_TRIGGER = "import numpy as np\na = 1\nb = a == np.nan\n"

PINNED_INCLUDED = ["**.py", "**/*.py"]
PINNED_EXCLUDED = ["test/**", "tests/**", "**/__test__/**", "**/__tests__/**", "conftest.py", "build/**", "dist/**", "venv/**",
                   "**/site-packages/**", ".venv/**", ".tox/**", ".nox/**", ".eggs/**", ".git/**", ".mypy_cache/**",
                   ".pytest_cache/**", ".hypothesis/**", ".coverage*"]


# ------------------------------------------------------------------------------------------------
# generators
# ------------------------------------------------------------------------------------------------
PAT_ALPHABET = "ab-!]^[*?/.\\&~|c"
NAME_ALPHABET = "ab-!]^[/.\\&~|cd"


def gen_bracket(rng):
    body = "".join(rng.choice("ab-!]^c\\dz") for _ in range(rng.randint(0, 6)))
    style = rng.random()
    if style < 0.2:
        body = "!" + body
    elif style < 0.3:
        body = "]" + body
    elif style < 0.4:
        body = "!]" + body
    elif style < 0.55:
        a, b = rng.choice("abcdz"), rng.choice("abcdz")
        body = body[:2] + a + "-" + b + body[2:]
    return "[" + body + ("]" if rng.random() < 0.85 else "")


def gen_pattern(rng):
    parts = []
    for _ in range(rng.randint(0, 5)):
        r = rng.random()
        if r < 0.25:
            parts.append(gen_bracket(rng))
        elif r < 0.4:
            parts.append(rng.choice(["*", "**", "?", "*?", "**/"]))
        else:
            parts.append("".join(rng.choice(PAT_ALPHABET) for _ in range(rng.randint(1, 3))))
    return "".join(parts)


def instantiate(rng, pat):
    """A name that is likely (not surely) matched by pat."""
    out, i = [], 0
    while i < len(pat):
        c = pat[i]
        i += 1
        if c == "*":
            out.append("".join(rng.choice(NAME_ALPHABET) for _ in range(rng.randint(0, 3))))
        elif c == "?":
            out.append(rng.choice(NAME_ALPHABET))
        elif c == "[":
            j = pat.find("]", i + 1 if pat[i:i + 1] not in ("!",) else i + 2)
            if j < 0:
                out.append("[")
            else:
                body = pat[i:j]
                out.append(rng.choice(body.lstrip("!") or "a") if rng.random() < 0.7 else rng.choice(NAME_ALPHABET))
                i = j + 1
        else:
            out.append(c)
    s = "".join(out)
    if rng.random() < 0.15 and s:
        k = rng.randrange(len(s))
        s = s[:k] + rng.choice(NAME_ALPHABET) + s[k + 1:]
    return s


DIR_POOL = ["sub", "sub/deep", "tests", "test", "build", "dist", "venv", ".git", "lib/site-packages", "pkg/__tests__", "src",
            "src/tests", ".venv", "a[1]", "pkg/__test__", ".tox", ".nox", ".eggs", ".mypy_cache", ".pytest_cache", ".hypothesis"]
NAME_POOL = ["a.py", "b.py", "conftest.py", "m.txt", "x[1].py", ".coveragerc", "n.pyi", "c.PY", "d.py", ".py", "e.py.bak", "f",
             ".coverage_x.py"]
DEP_CODEMOD = "pixee:python/use-defusedxml"           # adds the dependency defusedxml to the project's manifest
DEP_TRIGGER = 'from xml.etree.ElementTree import parse\npad = 0\nx = parse("f.xml")\n'   # line 2 carries no trigger (cf. `a.py:2`)
MANIFEST_NAMES = ["pyproject.toml", "setup.py", "requirements.txt", "setup.cfg"]


def witness_paths(pattern):
    """Paths (ending in .py, so that the default includes select them) that the given default-list pattern matches."""
    base = pattern.split(":")[0]
    out = []
    for fill in ("w", "w/v"):
        p = base.replace("**", fill).replace("*", "w").replace("?", "w")
        for cand in (p, p + ".py", p + "/w.py"):
            if cand.endswith(".py") and impl_fnmatch(cand, base) and "//" not in cand and not cand.startswith("/"):
                out.append(cand)
    return sorted(set(out))[:3]
PATH_PATTERNS = ["*.py", "**/*.py", "**.py", "sub/*", "sub/**", "tests/**", "a.py", "*/b.py", "sub/[!b]*", "*.txt", "**",
                 "*/x[[]1].py", "?.py", "[a-c].py", "src/**/d.py", "*", "sub/deep/*", "**/site-packages/**", "a[1]/*",
                 "a[[]1]/*", "*.p[!y]*", "[!.]*", ".*", "*/", "", "build/**", "*conftest*"]
LINE_PATTERNS = ["a.py:2", "sub/b.py:2", "*.py:2", "**/*.py:2", "tests/**:2", "a.py:x:2"]


def parents_of(rel):
    parts = rel.split("/")
    return ["/".join(parts[:i]) for i in range(1, len(parts))]


def gen_rels(rng):
    rels = set()
    for d in [""] + rng.sample(DIR_POOL, rng.randint(0, 6)):
        for n in rng.sample(NAME_POOL, rng.randint(1, 4)):
            rels.add(f"{d}/{n}" if d else n)
    rels = sorted(rels)
    rng.shuffle(rels)
    return rels


def gen_patlist(rng, with_lines=True, maxlen=3):
    n = rng.randint(0, maxlen)
    out = []
    for _ in range(n):
        if with_lines and rng.random() < 0.25:
            out.append(rng.choice(LINE_PATTERNS))
        else:
            out.append(rng.choice(PATH_PATTERNS))
    return list(dict.fromkeys(out))


# ------------------------------------------------------------------------------------------------
# implementation drivers
# ------------------------------------------------------------------------------------------------
def impl_fnmatch(name, pat):
    with warnings.catch_warnings():
        warnings.simplefilter("ignore")
        return py_fnmatch.fnmatch(name, pat)


def impl_match_files(rels, exc, inc):
    from codemodder.code_directory import match_files
    parent = Path("/t/proj")
    with warnings.catch_warnings():
        warnings.simplefilter("ignore")
        out = match_files(parent, [parent / r for r in rels], exc, inc)
    return [str(p.relative_to(parent)) for p in out]


def file_level(pats):
    return [p for p in pats if ":" not in p]


def py_selected(inc, exc, f):
    """Python mirror of Spec.GlobSpec.selectedb — used for messages and replay only; Coq is the judge."""
    return any(impl_fnmatch(f, p.split(":")[0]) for p in inc) and not any(impl_fnmatch(f, p) for p in exc if ":" not in p)


# ------------------------------------------------------------------------------------------------
# pure correspondence
# ------------------------------------------------------------------------------------------------
def c_fn(case):
    name, pat, obs = case
    return cpair(cstr(name), cstr(pat), core.cbool(obs))


def c_strs(l):
    return clist([cstr(x) for x in l], "str")


def c_mf(case):
    rels, exc, inc, obs = case
    return cpair(c_strs(rels), copt(None if exc is None else c_strs(exc), "list str"),
                 copt(None if inc is None else c_strs(inc), "list str"), c_strs(obs))


def load_corpus(name):
    f = CORPUS / name
    return json.loads(f.read_text()) if f.exists() else []


def run_pure(ctx):
    rng = ctx.rng
    quick = ctx.quick()
    n_fn = 1200 if quick else 6000
    n_mf = 250 if quick else 1500
    if getattr(ctx, "deep", False):
        n_fn, n_mf = n_fn * 3, n_mf * 3

    # --- fnmatch
    fn_cases = []
    for name, pat in load_corpus("fnmatch.json"):
        fn_cases.append((name, pat))
    for pat in PINNED_EXCLUDED + PINNED_INCLUDED + PATH_PATTERNS:
        for _ in range(2):
            d = rng.choice([""] + DIR_POOL)
            n = rng.choice(NAME_POOL)
            fn_cases.append((f"{d}/{n}" if d else n, pat))
        fn_cases.append((instantiate(rng, pat), pat))
    for _ in range(n_fn):
        pat = gen_pattern(rng)
        fn_cases.append((instantiate(rng, pat), pat))
        fn_cases.append((instantiate(rng, pat), pat))
        fn_cases.append(("".join(rng.choice(NAME_ALPHABET) for _ in range(rng.randint(0, 5))), pat))
    evaluated = []
    for name, pat in fn_cases:
        try:
            obs = impl_fnmatch(name, pat)
        except Exception as e:  # re.error would be a CPython bug; it is outside the model
            ctx.notes.append(f"fnmatch raised {type(e).__name__} on {(name, pat)!r}")
            ctx.count("fnmatch:raised")
            continue
        evaluated.append((name, pat, obs))
        ctx.count("fnmatch:" + ("match" if obs else "nomatch"))
        feat = tuple(k for k, t in (("set", "["), ("neg", "[!"), ("range", "-"), ("star", "*"), ("q", "?")) if t in pat)
        ctx.count("fnmatch_pattern_features:" + ("+".join(feat) or "literal"))
        ctx.case({"fnmatch": [name, pat, obs]}, nontrivial_key=("fn", name, pat) if ("[" in pat or "*" in pat or "?" in pat) else None,
                 sample=obs and "[" in pat and "-" in pat)
    bad = core.eval_bad_indices(ctx, "c05_fn", IMPORTS, "fn_case", [c_fn(c) for c in evaluated], ["fn_model_ok"], chunk=1500)
    for i in bad["fn_model_ok"]:
        name, pat, obs = evaluated[i]
        ctx.mismatch("fnmatch.fnmatch vs Model.Glob.fnmatch", f"fnmatch({name!r}, {pat!r}) = {obs} but the model says {not obs}",
                     {"kind": "fnmatch", "name": name, "pattern": pat, "observed": obs})

    # --- Path.suffix
    suf = []
    for n in NAME_POOL + ["a.b.py", "a.", "..", "...", ".a.py", "x/.py", "x.d/y", "x.d/y.py", "a..py", ".a.", "a.py/"]:
        for d in ["", "sub", "s.d"]:
            p = f"{d}/{n}" if d else n
            suf.append((str(Path(p)), Path(p).suffix))
    bad = core.eval_bad_indices(ctx, "c05_suffix", IMPORTS, "suffix_case", [cpair(cstr(a), cstr(b)) for a, b in suf], ["suffix_model_ok"])
    for i in bad["suffix_model_ok"]:
        ctx.mismatch("Path.suffix vs Model.Glob.suffix_of", f"Path({suf[i][0]!r}).suffix = {suf[i][1]!r}", {"kind": "suffix", "path": suf[i][0]})
    ctx.count("suffix_cases", len(suf))

    # --- match_files
    mf_inputs = [(c["rels"], c["exclude"], c["include"]) for c in load_corpus("match_files.json")]
    cur_inc = (ctx.tables or {}).get("default_included_paths") or PINNED_INCLUDED
    cur_exc = (ctx.tables or {}).get("default_excluded_paths") or PINNED_EXCLUDED
    wit = []
    for pat in dict.fromkeys(PINNED_EXCLUDED + list(cur_exc) + PINNED_INCLUDED + list(cur_inc)):
        w = witness_paths(pat)
        ctx.count("default_pattern_witnesses:" + ("some" if w else "none"))
        wit.extend(w)
    wit = sorted(set(wit)) + ["src/plain.py", "plain.txt"]
    mf_inputs.append((wit, None, None))
    mf_inputs.append((wit, [], None))
    mf_inputs.append((wit, None, ["*"]))
    for _ in range(n_mf):
        rels = gen_rels(rng)
        exc = None if rng.random() < 0.2 else gen_patlist(rng)
        inc = None if rng.random() < 0.25 else gen_patlist(rng)
        if rng.random() < 0.1:
            rels = rels + rels[:2]                      # repeated input paths
        mf_inputs.append((rels, exc, inc))
    if not quick:
        # exhaustive small scope: all include lists of length <= 2 over a 12-pattern alphabet x exclude lists of length <= 1
        # (and the transpose) on one fixed path list
        alpha = ["*.py", "**/*.py", "sub/*", "sub/**", "tests/**", "a.py", "*/b.py", "sub/[!b]*", "*.txt", "a.py:2", "*.py:2", "**"]
        fixed = ["a.py", "b.py", "sub/b.py", "sub/c.py", "sub/deep/a.py", "tests/a.py", "m.txt", "sub/m.txt", "build/a.py"]
        lists2 = [[]] + [[x] for x in alpha] + [[x, y] for x in alpha for y in alpha if x != y]
        lists1 = [[]] + [[x] for x in alpha]
        for a in lists2:
            for b in lists1:
                mf_inputs.append((fixed, b, a))
                mf_inputs.append((fixed, a, b))
        ctx.count("match_files:exhaustive_lists", 2 * len(lists2) * len(lists1))
    mf_cases = []
    for rels, exc, inc in mf_inputs:
        obs = impl_match_files(rels, exc, inc)
        mf_cases.append((rels, exc, inc, obs))
        ctx.count("match_files:exclude=" + ("None" if exc is None else str(min(len(exc), 3))))
        ctx.count("match_files:include=" + ("None" if inc is None else str(min(len(inc), 3))))
        if any(":" in p for p in (exc or []) + (inc or [])):
            ctx.count("match_files:with_line_pattern")
        nontrivial = 0 < len(obs) < len(set(rels))
        ctx.case({"match_files": {"rels": rels, "exclude": exc, "include": inc, "observed": obs}},
                 nontrivial_key=("mf", tuple(rels), repr(exc), repr(inc)) if nontrivial else None,
                 sample=nontrivial and exc is not None and any(":" in p for p in exc))
    bad = core.eval_bad_indices(ctx, "c05_mf", IMPORTS, "mf_case", [c_mf(c) for c in mf_cases], ["mf_model_ok", "mf_spec_ok"], chunk=300)
    for i in bad["mf_model_ok"]:
        rels, exc, inc, obs = mf_cases[i]
        ctx.mismatch("code_directory.match_files vs Model.Glob.match_files",
                     f"match_files(rels={rels}, exclude={exc}, include={inc}) = {obs} differs from the model",
                     {"kind": "match_files", "rels": rels, "exclude": exc, "include": inc, "observed": obs})
    for i in bad["mf_spec_ok"]:
        rels, exc, inc, obs = mf_cases[i]
        inc2 = inc if inc is not None else PINNED_INCLUDED
        exc2 = exc if exc is not None else PINNED_EXCLUDED
        exp = sorted({f for f in rels if py_selected(inc2, exc2, f)})
        ctx.violation("kf_c05_match_files_selection",
                      f"match_files(rels={rels}, exclude={exc}, include={inc}) returned {obs}; the patterns select {exp}",
                      {"kind": "match_files", "rels": rels, "exclude": exc, "include": inc, "observed": obs, "expected": exp})


# ------------------------------------------------------------------------------------------------
# end to end
# ------------------------------------------------------------------------------------------------
FILE, DIR, LINKFILE, LINKDIR = 0, 1, 2, 3


def gen_tree(rng, small=False):
    """entries: rel -> (kind, link target or None); every regular file gets the trigger text."""
    entries = {}

    def add_dir(d):
        for p in parents_of(d) + [d]:
            entries.setdefault(p, (DIR, None))

    dirs = rng.sample(DIR_POOL, rng.randint(1, 2 if small else 5))
    for d in dirs:
        add_dir(d)
    for d in [""] + dirs:
        for n in rng.sample(NAME_POOL, rng.randint(1, 2 if small else 3)):
            entries[f"{d}/{n}" if d else n] = (FILE, None)
    # links: to the outside tree and to entries of the tree itself
    opts = [("lnk.py", (LINKFILE, "../outside/o.py")), ("lnkdir", (LINKDIR, "../outside")),
            ("alias.py", (LINKFILE, "a.py")), ("inner", (LINKDIR, "sub")), ("abs.py", (LINKFILE, "@OUT@/sub/p.py"))]
    for name, v in rng.sample(opts, rng.randint(0, 2 if small else 4)):
        d = rng.choice([""] + dirs)
        rel = f"{d}/{name}" if d else name
        if rel in entries:
            continue
        kind, target = v
        if d and not target.startswith("@"):
            target = "../" * (d.count("/") + 1) + target if target.startswith("../") else target
        entries[rel] = (kind, target)
    if "a.py" not in entries:
        entries["a.py"] = (FILE, None)
    if any(t == "sub" for _, t in entries.values()):
        add_dir("sub")
        entries.setdefault("sub/b.py", (FILE, None))
    return entries


def materialise(case_dir: Path, entries, content):
    proj, outside = case_dir / "proj", case_dir / "outside"
    files = {}
    for rel, (kind, target) in entries.items():
        if kind == FILE:
            files[rel] = "flask\n" if rel.split("/")[-1] in MANIFEST_NAMES else content
        elif kind in (LINKFILE, LINKDIR):
            files[rel] = ("link", target.replace("@OUT@", str(outside)))
    for rel, (kind, _) in entries.items():
        if kind == DIR:
            (proj / rel).mkdir(parents=True, exist_ok=True)
    proj.mkdir(parents=True, exist_ok=True)
    core.write_tree(proj, files)
    core.write_tree(outside, {"o.py": content, "sub/p.py": content, "sub/q.txt": content, "requirements.txt": "requests==2.0\n"})
    return proj, outside


def c_tree(entries):
    return clist([cpair(cstr(rel), cN(kind)) for rel, (kind, _) in sorted(entries.items())], "str * N")


def run_one_cli(job):
    """job: dict(case_dir, entries, content, exc, inc, extra_args, relative). Returns observation dict."""
    case_dir = Path(job["case_dir"])
    proj, outside = materialise(case_dir, job["entries"], job["content"])
    before = core.read_tree(proj)
    snap_proj = {k: v[:1] + (v[1:] if v[0] != "f" else ()) for k, v in core.snapshot(proj).items()}
    snap_out = core.snapshot(outside)
    rep = case_dir / "report.json"
    target = "proj" if job.get("relative") else str(proj)
    args = [target, "--output", str(rep)] + job["extra_args"]
    if job["inc"]:
        args.append("--path-include=" + ",".join(job["inc"]))
    if job["exc"]:
        args.append("--path-exclude=" + ",".join(job["exc"]))
    r = core.run_cli(args, cwd=str(case_dir), timeout=300)
    after = core.read_tree(proj)
    snap_proj2 = {k: v[:1] + (v[1:] if v[0] != "f" else ()) for k, v in core.snapshot(proj).items()}
    changed = sorted(k for k in set(before) | set(after) if before.get(k) != after.get(k))
    reported = None
    if rep.exists():
        try:
            data = json.loads(rep.read_text())
            reported = sorted({cs["path"] for res in data.get("results", []) for cs in res.get("changeset", [])})
        except Exception:
            reported = None
    snap_out2 = core.snapshot(outside)
    return {"rc": r["rc"], "stderr": r["stderr"][-600:], "changed": changed, "reported": reported, "args": args,
            "outside_changed": snap_out2 != snap_out, "structure_changed": snap_proj != snap_proj2,
            "outside_changed_files": sorted(k for k in set(snap_out) | set(snap_out2) if snap_out.get(k) != snap_out2.get(k)),
            "after": {k: after[k].decode(errors="replace") for k in changed if k in after}}


MANIFEST_PLACES = [("requirements.txt", FILE, None),                       # regular, at the root
                   ("requirements.txt", LINKFILE, "../outside/requirements.txt"),   # symlink to a manifest outside the target
                   ("venv/requirements.txt", FILE, None),                  # under a default-excluded directory
                   ("sub/requirements.txt", FILE, None),
                   ("lib/site-packages/pkg/requirements.txt", FILE, None),
                   ("deps/requirements.txt", "LINKDIR", "../outside")]      # reachable only through a symlinked directory
MANIFEST_EXCLUDES = [[], [], ["requirements.txt"], ["*.txt"], ["sub/**"], ["venv/**", "*.txt"], ["requirements.txt:1"], ["a.py:2"],
                     ["**/requirements.txt", "requirements.txt"]]


def gen_dep_job(rng):
    entries = gen_tree(rng, small=True)
    entries = {k: v for k, v in entries.items() if not (v[0] == FILE and not k.endswith(".py"))}    # sources only
    for rel, kind, target in rng.sample(MANIFEST_PLACES, rng.randint(0, 2)):
        if kind == "LINKDIR":
            entries["deps"] = (LINKDIR, target)
            continue
        for p in parents_of(rel):
            entries.setdefault(p, (DIR, None))
        entries[rel] = (kind, target)
    exc = list(rng.choice(MANIFEST_EXCLUDES))
    inc = [] if rng.random() < 0.7 else rng.choice([["*.py"], ["a.py"], ["**"], ["*.py", "requirements.txt"]])
    return {"mode": "dep", "entries": entries, "exc": exc, "inc": inc, "res": [], "relative": rng.random() < 0.2}


def e2e_jobs(ctx, n_ff, n_sast, n_dep=0):
    rng = ctx.rng
    jobs = []
    corpus = load_corpus("e2e.json")
    for c in corpus:
        jobs.append({"mode": c.get("mode", "ff"), "entries": {k: tuple(v) for k, v in c["entries"].items()},
                     "exc": c["exclude"], "inc": c["include"], "res": c.get("results", []), "relative": c.get("relative", False)})
    for i in range(n_ff):
        entries = gen_tree(rng, small=(i % 3 == 0))
        exc = [p for p in gen_patlist(rng, maxlen=2) if p != ""]
        inc = [p.replace(":2", ":1") for p in gen_patlist(rng, maxlen=2) if p != ""]
        if rng.random() < 0.25:
            exc, inc = [], []
        elif rng.random() < 0.2:
            inc = []
        jobs.append({"mode": "ff", "entries": entries, "exc": exc, "inc": inc, "res": [], "relative": rng.random() < 0.2})
    for i in range(n_sast):
        entries = gen_tree(rng, small=True)
        regular = [k for k, (kind, _) in entries.items() if kind == FILE]
        others = [k for k, (kind, _) in entries.items() if kind == LINKFILE]
        res = rng.sample(regular, min(len(regular), rng.randint(1, 4))) + (rng.sample(others, 1) if others and rng.random() < 0.5 else [])
        exc = [p for p in gen_patlist(rng, with_lines=False, maxlen=1) if p]
        inc = [p for p in gen_patlist(rng, with_lines=False, maxlen=1) if p] if rng.random() < 0.5 else []
        jobs.append({"mode": "sast", "entries": entries, "exc": exc, "inc": inc, "res": sorted(set(res)), "relative": False})
    for i in range(n_dep):
        jobs.append(gen_dep_job(rng))
    return jobs


def prepare(ctx, jobs):
    for i, j in enumerate(jobs):
        d = ctx.scratch / f"e2e{i}"
        d.mkdir(parents=True, exist_ok=True)
        j["case_dir"] = str(d)
        if j["mode"] == "ff":
            j["content"] = FF_TRIGGER
            j["extra_args"] = ["--codemod-include", FF_CODEMOD]
        elif j["mode"] == "dep":
            j["content"] = DEP_TRIGGER
            j["extra_args"] = ["--codemod-include", DEP_CODEMOD]
        else:
            j["content"] = SAST_TRIGGER
            issues = {"issues": [{"rule": "python:S6725", "status": "OPEN", "component": f"proj:{rel}", "key": f"k{n}", "message": "m",
                                  "textRange": {"startLine": 3, "endLine": 3, "startOffset": 4, "endOffset": 15}}
                                 for n, rel in enumerate(j["res"])]}
            (d / "issues.json").write_text(json.dumps(issues))
            j["extra_args"] = ["--codemod-include", SAST_CODEMOD, "--sonar-issues-json", str(d / "issues.json")]


def expected_sources(j):
    """python mirror of the spec (messages only): the selected regular .py files; defaults unless a FILE-level exclude is given"""
    inc2, exc2 = (j["inc"] or PINNED_INCLUDED), (file_level(j["exc"]) or PINNED_EXCLUDED)
    return sorted(f for f, (k, _) in j["entries"].items() if k == FILE and Path(f).suffix == ".py" and py_selected(inc2, exc2, f)
                  and f.split("/")[-1] not in MANIFEST_NAMES)


def registry_default_includes():
    from codemodder.registry import load_registered_codemods
    return sorted(load_registered_codemods().default_include_paths)


def judge_e2e(ctx, jobs, observations):
    regdef = registry_default_includes() if any(j["mode"] == "sast" for j in jobs) else []
    ff, sast, dep = [], [], []
    for j, o in zip(jobs, observations):
        ctx.cli_runs += 1
        entries = j["entries"]
        kinds = {k for k, _ in entries.values()}
        ctx.count(f"e2e:{j['mode']}")
        ctx.count("e2e_tree_entries:%d" % (len(entries) // 5 * 5))
        for k, nm in ((LINKFILE, "linkfile"), (LINKDIR, "linkdir")):
            if k in kinds:
                ctx.count(f"e2e_tree_has:{nm}")
        if any(p.split("/")[0] in ("tests", "test", "build", "venv", ".git", "dist", ".venv") for p in entries):
            ctx.count("e2e_tree_has:default_excluded_dir")
        if any(":" in p for p in j["exc"] + j["inc"]):
            ctx.count("e2e:with_line_pattern")
        replay = {"kind": "e2e", "mode": j["mode"], "entries": {k: list(v) for k, v in entries.items()}, "exclude": j["exc"],
                  "include": j["inc"], "results": j["res"], "relative": j["relative"], "observed_changed": o["changed"],
                  "observed_reported": o["reported"], "argv": [a.replace(j["case_dir"], "<case>") for a in o["args"]]}
        if o["rc"] == -9:
            # a run that did not finish says nothing about which files the patterns select: the observation is missing
            ctx.mismatch("CLI run on a generated tree", "the run timed out; no observation", replay)
            continue
        if o["rc"] != 0:
            ctx.violation("kf_c05_cli_failed", f"CLI exited {o['rc']} on a generated tree: {o['stderr'][-300:]}", replay)
            continue
        link_manifests = [k for k, (kind, _) in entries.items() if kind == LINKFILE and k.split("/")[-1] in MANIFEST_NAMES]
        through_link = bool(link_manifests) and o["outside_changed_files"] and \
            all(f.split("/")[-1] in MANIFEST_NAMES for f in o["outside_changed_files"])
        if o["outside_changed"]:
            replay["outside_changed_files"] = o["outside_changed_files"]
            if through_link:
                ctx.violation("kf_c05_manifest_written_through_symlink",
                              f"the dependency manifest {o['outside_changed_files']} OUTSIDE the target directory was rewritten through the "
                              f"symlink {link_manifests} inside it", replay)
            else:
                ctx.violation("kf_c05_outside_written", f"files outside the target directory were modified: {o['outside_changed_files']}", replay)
        if o["structure_changed"]:
            ctx.violation("kf_c05_structure_changed", "the run created/removed entries or replaced a link in the target tree", replay)
        if o["reported"] is not None and o["reported"] != o["changed"] and \
                not (through_link and set(o["reported"]) ^ set(o["changed"]) <= set(link_manifests)):
            ctx.violation("kf_c05_report_vs_disk", f"changeset paths {o['reported']} differ from the files changed on disk {o['changed']}", replay)
        regular = [k for k, (kind, _) in entries.items() if kind == FILE]
        nontrivial = (0 < len(o["changed"]) < len(regular)) or (kinds & {LINKFILE, LINKDIR})
        ctx.case({"e2e": replay}, nontrivial_key=("e2e", j["mode"], repr(sorted(entries.items())), repr(j["exc"]), repr(j["inc"]), repr(j["res"]))
                 if nontrivial else None, sample=bool(nontrivial) and len(ctx.samples) < 4)
        if j["mode"] == "ff":
            ff.append((j, o, replay, cpair(c_tree(entries), c_strs(j["exc"]), c_strs(j["inc"]), c_strs(o["changed"]))))
        elif j["mode"] == "dep":
            man = [f for f in o["changed"] if f.split("/")[-1] in MANIFEST_NAMES]
            src = [f for f in o["changed"] if f not in man]
            for m in [k for k, (kind, _) in entries.items() if k.split("/")[-1] in MANIFEST_NAMES]:
                ctx.count("dep_manifest:" + ("symlink" if entries[m][0] == LINKFILE else "excluded" if not py_selected(["*"], file_level(j["exc"]) or PINNED_EXCLUDED, m) else "regular"))
            if not any(k.split("/")[-1] in MANIFEST_NAMES for k in entries):
                ctx.count("dep_manifest:none")
            dep.append((j, o, replay, cpair(c_tree(entries), c_strs(j["exc"]), c_strs(j["inc"]), c_strs(src), c_strs(man)), src, man))
        else:
            sast.append((j, o, replay, cpair(c_tree(entries), c_strs(j["res"]), c_strs(regdef), c_strs(j["exc"]), c_strs(j["inc"]),
                                             c_strs(o["changed"]))))
    defs_inc, defs_exc = PINNED_INCLUDED, PINNED_EXCLUDED      # the spec oracle uses the defaults the property names
    if ff:
        bad = core.eval_bad_indices(ctx, "c05_e2e", IMPORTS, "e2e_case", [x[3] for x in ff], ["e2e_model_ok", "e2e_spec_ok"], chunk=100)
        bad_raw = set(core.eval_bad_indices(ctx, "c05_e2e_raw", IMPORTS, "e2e_case", [x[3] for x in ff], ["e2e_raw_sentinel_ok"], chunk=100)
                      ["e2e_raw_sentinel_ok"]) if bad["e2e_spec_ok"] else set()
        for i in sorted(set(bad["e2e_spec_ok"])):
            j, o, replay, _ = ff[i]
            exp = expected_sources(j)
            replay["expected_changed"] = exp
            if j["exc"] and not file_level(j["exc"]) and i not in bad_raw:
                ctx.violation("kf_c05_line_only_exclude_drops_defaults",
                              f"--path-exclude {j['exc']} holds only `path:line` patterns, which never act at file level, yet the default "
                              f"excludes were switched off: changed {o['changed']}; the patterns select {exp}", replay)
            else:
                ctx.violation("kf_c05_wrong_files_changed",
                              f"find-and-fix run with include={j['inc']} exclude={j['exc']} changed {o['changed']}; the patterns select {exp}", replay)
        for i in sorted(set(bad["e2e_model_ok"]) - set(bad["e2e_spec_ok"])):
            j, o, replay, _ = ff[i]
            ctx.mismatch("CLI find-and-fix selection vs Model.Glob.ff_files_to_analyze", f"changed {o['changed']} differs from the model", replay)
    if dep:
        bad = core.eval_bad_indices(ctx, "c05_dep", IMPORTS, "dep_case", [x[3] for x in dep], ["dep_model_ok", "dep_spec_ok"], chunk=100)
        for i in sorted(set(bad["dep_spec_ok"])):
            j, o, replay, _, src, man = dep[i]
            exp = expected_sources(j)
            replay["expected_changed"] = exp
            for m in man:
                if not py_selected(["*"], file_level(j["exc"]) or PINNED_EXCLUDED, m):
                    ctx.violation("kf_c05_manifest_excluded_but_written",
                                  f"the dependency manifest {m} matches a file-level exclude pattern in force "
                                  f"({file_level(j['exc']) or 'the default excludes'}) and was rewritten all the same", replay)
                else:
                    ctx.violation("kf_c05_manifest_written_not_included",
                                  f"the dependency manifest {m} was updated although it matches no include pattern in force "
                                  f"({j['inc'] or 'the default: Python files'})", replay)
            if src != exp:
                cls = "kf_c05_line_only_exclude_drops_defaults" if (j["exc"] and not file_level(j["exc"])) else "kf_c05_wrong_files_changed"
                ctx.violation(cls, f"dependency-adding run with include={j['inc']} exclude={j['exc']} changed the sources {src}; "
                              f"the patterns select {exp}", replay)
        for i in sorted(set(bad["dep_model_ok"])):
            j, o, replay, _, src, man = dep[i]
            ctx.mismatch("CLI dependency-adding run vs Model.Glob (sources + manifest_candidates)",
                         f"exclude={j['exc']} include={j['inc']} tree={sorted(j['entries'])}: changed sources {src}, manifests {man}; "
                         f"outside: {o['outside_changed_files']}", replay)
    if sast:
        bad = core.eval_bad_indices(ctx, "c05_sast", IMPORTS, "sast_case", [x[3] for x in sast], ["sast_model_ok", "sast_spec_ok"], chunk=100)
        for i in sorted(set(bad["sast_spec_ok"])):
            j, o, replay, _ = sast[i]
            inc2 = j["inc"] or regdef
            exp = sorted(f for f, (k, _) in j["entries"].items() if k == FILE and Path(f).suffix == ".py" and f in j["res"]
                         and py_selected(inc2, j["exc"], f))
            replay["expected_changed"] = exp
            ctx.violation("kf_c05_sast_wrong_files_changed",
                          f"SAST run (findings in {j['res']}) with include={j['inc']} exclude={j['exc']} changed {o['changed']}; expected {exp}", replay)
        for i in sorted(set(bad["sast_model_ok"]) - set(bad["sast_spec_ok"])):
            j, o, replay, _ = sast[i]
            ctx.mismatch("CLI SAST selection vs Model.Glob.sast_files_to_analyze", f"changed {o['changed']} differs from the model", replay)


def run_e2e(ctx):
    quick = ctx.quick()
    n_ff, n_sast, n_dep = (80, 14, 26) if quick else (420, 80, 140)
    if getattr(ctx, "deep", False):
        n_ff, n_sast, n_dep = n_ff * 2, n_sast * 2, n_dep * 2
    jobs = e2e_jobs(ctx, n_ff, n_sast, n_dep)
    if not quick:
        # exhaustive small scope: two fixed trees x all (include, exclude) lists of length <= 1 over a 12-pattern alphabet
        alpha = ["*.py", "**/*.py", "sub/*", "sub/**", "tests/**", "a.py", "*/b.py", "sub/[!b]*", "*.txt", "a.py:2", "*.py:2", "**"]
        fixed = {"a.py": (FILE, None), "sub": (DIR, None), "sub/b.py": (FILE, None), "tests": (DIR, None), "tests/c.py": (FILE, None),
                 "m.txt": (FILE, None), "lnk.py": (LINKFILE, "../outside/o.py"), "lnkdir": (LINKDIR, "../outside")}
        for a in [[]] + [[x] for x in alpha]:
            for b in [[]] + [[x] for x in alpha]:
                jobs.append({"mode": "ff", "entries": dict(fixed), "exc": b, "inc": [p.replace(":2", ":1") for p in a], "res": [], "relative": False})
    prepare(ctx, jobs)
    with concurrent.futures.ThreadPoolExecutor(max_workers=min(12, core.NCPU)) as ex:
        observations = list(ex.map(run_one_cli, jobs))
    judge_e2e(ctx, jobs, observations)


def check_tables(ctx):
    t = ctx.tables or {}
    if t.get("default_included_paths") != PINNED_INCLUDED or t.get("default_excluded_paths") != PINNED_EXCLUDED:
        added = [p for p in (t.get("default_excluded_paths") or []) + (t.get("default_included_paths") or []) if p not in PINNED_EXCLUDED + PINNED_INCLUDED]
        removed = [p for p in PINNED_EXCLUDED + PINNED_INCLUDED if p not in (t.get("default_excluded_paths") or []) + (t.get("default_included_paths") or [])]
        ctx.mismatch("DEFAULT_INCLUDED_PATHS / DEFAULT_EXCLUDED_PATHS vs the lists the property names (Spec/GlobDefaults.v)",
                     f"the default lists changed (added {added}, removed {removed}): C05_default_lists_char no longer speaks about the "
                     "current source; witness paths for these patterns are in the match_files cases of this run",
                     {"kind": "tables", "added": added, "removed": removed})


def run(ctx: core.Ctx):
    check_tables(ctx)
    run_pure(ctx)
    run_e2e(ctx)


def replay(ctx, body):
    kind = body.get("kind")
    if kind == "fnmatch":
        print("fnmatch now:", impl_fnmatch(body["name"], body["pattern"]), "| recorded:", body["observed"])
    elif kind == "match_files":
        print("match_files now:", impl_match_files(body["rels"], body["exclude"], body["include"]), "| recorded:", body["observed"],
              "| expected:", body.get("expected"))
    elif kind == "e2e":
        job = {"mode": body["mode"], "entries": {k: tuple(v) for k, v in body["entries"].items()}, "exc": body["exclude"],
               "inc": body["include"], "res": body.get("results", []), "relative": body.get("relative", False)}
        prepare(ctx, [job])
        o = run_one_cli(job)
        print("changed now:", o["changed"], "| recorded:", body.get("observed_changed"), "| expected:", body.get("expected_changed"))
        print("outside tree modified:", o["outside_changed"], "| rc:", o["rc"])
    else:
        print(json.dumps(body, indent=1)[:2000])
    return 0
