(** Checkers evaluated by harness/c08.py (and the C01/C02/C07 kernel checks) on generated cases.
    A case carries what was OBSERVED on the implementation side: the text the Python printer produced, CPython's
    result on it, the tree CPython parses from the real codemod's output and CPython's result on that output. *)
From CM Require Import Harness.RunBase Model.MiniPy Model.PySem Model.Rewrites Spec.RewritesSpec Generated.Tables.

Fixpoint expr_eqb (a b : expr) {struct a} : bool :=
  let eqs := fix eqs (x y : list expr) : bool :=
    match x, y with [], [] => true | p :: x', q :: y' => expr_eqb p q && eqs x' y' | _, _ => false end in
  match a, b with
  | EName x, EName y => N.eqb x y
  | EConst x, EConst y => const_eqb x y
  | EType x, EType y => ty_eqb x y
  | ETuple x, ETuple y | EList x, EList y | ESet x, ESet y => eqs x y
  | EMeth r m x, EMeth r' m' y => N.eqb r r' && meth_eqb m m' && eqs x y
  | ECall f x, ECall f' y => builtin_eqb f f' && eqs x y
  | EBool p o l r, EBool p' o' l' r' => Bool.eqb p p' && bop_eqb o o' && expr_eqb l l' && expr_eqb r r'
  | ENot p x, ENot p' y => Bool.eqb p p' && expr_eqb x y
  | ECmp p l rs, ECmp p' l' rs' =>
      Bool.eqb p p' && expr_eqb l l' &&
      (fix go (x y : list (cmpop * expr)) : bool :=
         match x, y with
         | [], [] => true
         | (o, c) :: x', (o', c') :: y' => cmpop_eqb o o' && expr_eqb c c' && go x' y'
         | _, _ => false
         end) rs rs'
  | EListComp e x i, EListComp e' x' i' => expr_eqb e e' && N.eqb x x' && expr_eqb i i'
  | EGen p e x i, EGen p' e' x' i' => Bool.eqb p p' && expr_eqb e e' && N.eqb x x' && expr_eqb i i'
  | EFloorDiv l r, EFloorDiv l' r' => expr_eqb l l' && expr_eqb r r'
  | EJuxt n x, EJuxt m y => N.eqb n m && expr_eqb x y
  | _, _ => false
  end.

Fixpoint has_juxt (e : expr) : bool :=
  let anyb := fix anyb (es : list expr) : bool := match es with [] => false | a :: t => has_juxt a || anyb t end in
  match e with
  | EName _ | EConst _ | EType _ => false
  | ETuple es | EList es | ESet es => anyb es
  | EMeth _ _ args | ECall _ args => anyb args
  | EBool _ _ l r | EFloorDiv l r => has_juxt l || has_juxt r
  | ENot _ a => has_juxt a
  | ECmp _ l rest => has_juxt l || (fix go (rs : list (cmpop * expr)) : bool :=
                                      match rs with [] => false | (_, b) :: t => has_juxt b || go t end) rest
  | EListComp elt _ it | EGen _ elt _ it => has_juxt elt || has_juxt it
  | EJuxt _ _ => true
  end.

(** what each real codemod leaves on disk for the file `result = <pp e>`, per the tables of the current source *)
Definition apply_kernel (k : kernel) (e : expr) : expr :=
  match k with
  | KCombineSW => rw_combine combine_cfg_v KStartsEnds e
  | KCombineInst => rw_combine combine_cfg_v KInstSub e
  | KInvert => invert_file invert_cfg_v e
  | KGenerator => generator_file generator_cfg_v e
  | KSetLit => rw_set_literal e
  | KHasattr => rw_hasattr hasattr_cfg_v e
  | KEmptySeq => empty_seq_file empty_seq_cfg_v false e
  | KEmptySeqTest => empty_seq_file empty_seq_cfg_v true e
  | KIdentity => rw_identity e
  | KStrConcat => rw_str_concat str_concat_cfg_v e
  end.

Definition output_of (k : kernel) (e : expr) : expr := apply_kernel k e.
Definition lost_parens (k : kernel) (e : expr) : bool :=
  expr_eqb (norm e) (allpar e) && negb (expr_eqb (norm (apply_kernel k e)) (allpar (apply_kernel k e))).

Definition kernel_guard (k : kernel) (rho : env) (e : expr) : bool :=
  (* the premises of the theorems: both texts parse back to the trees that were built, the model defines the original *)
  expr_eqb (norm e) (allpar e) && expr_eqb (norm (apply_kernel k e)) (allpar (apply_kernel k e)) &&
  in_model (eval rho (norm e)) &&
  match k with
  | KCombineSW => combine_guard combine_cfg_v KStartsEnds rho e
  | KCombineInst => combine_guard combine_cfg_v KInstSub rho e
  | KInvert => table_ok (iv_table invert_cfg_v) && invert_guard invert_cfg_v rho e
  | KGenerator => generator_guard generator_cfg_v rho e
  | KSetLit => true
  | KHasattr => hasattr_guard hasattr_cfg_v rho e
  | KEmptySeq => empty_seq_guard empty_seq_cfg_v false rho e
  | KEmptySeqTest => empty_seq_guard empty_seq_cfg_v true rho e
  | KIdentity => identity_guard rho e
  | KStrConcat => false
  end.
Definition nodes_classes (f : expr -> expr) (cls : env -> expr -> list N) (rho : env) (e : expr) : list N :=
  flat_map (fun rn => cls (fst rn) (snd rn)) (visit f rho e).
Definition finding_classes (k : kernel) (rho : env) (e : expr) : list N :=
  match k with
  | KCombineSW => nodes_classes (combine_step combine_cfg_v KStartsEnds) (combine_node_classes combine_cfg_v KStartsEnds) rho e
                  ++ (if lost_parens k e then [kf_combine_lost_parens] else [])
  | KCombineInst => nodes_classes (combine_step combine_cfg_v KInstSub) (combine_node_classes combine_cfg_v KInstSub) rho e
                  ++ (if lost_parens k e then [kf_combine_lost_parens] else [])
  | KInvert => if bu_any (invert_step invert_cfg_v) (invert_raises invert_cfg_v) e then []
               else nodes_classes (invert_step invert_cfg_v) (invert_node_classes invert_cfg_v) rho e
                    ++ (if lost_parens k e then [kf_invert_lost_parens] else [])
  | KGenerator => if generator_crashes generator_cfg_v e then []
                  else flat_map generator_site_classes (gen_sites generator_cfg_v rho e)
  | KSetLit => []
  | KHasattr => nodes_classes (hasattr_step hasattr_cfg_v) (hasattr_node_classes hasattr_cfg_v) rho e
  | KEmptySeq => if empty_seq_crashes false e then [] else
                 empty_seq_classes empty_seq_cfg_v false rho e ++ (if lost_parens k e then [kf_empty_seq_lost_parens] else [])
  | KEmptySeqTest => if empty_seq_crashes true e then [] else
                 empty_seq_classes empty_seq_cfg_v true rho e ++ (if lost_parens k e then [kf_empty_seq_lost_parens] else [])
  | KIdentity => identity_classes rho e
  | KStrConcat => []
  end.

Record kcase := {
  k_kernel : kernel;
  k_env : env;
  k_expr : expr;
  k_text : str;                 (* the text the harness printed for k_expr and gave to CPython and to the codemod *)
  k_obs : str;                  (* CPython on that text: "value <show>" | "raise <Type>" *)
  k_after_text : str;           (* the expression text of the codemod's output *)
  k_after : option expr;        (* tree CPython parses from the codemod's output; None: outside MiniPy / does not parse *)
  k_obs_after : str             (* CPython on the codemod's output *)
}.

(** garbled outputs are compared as text up to redundant parentheses (libcst keeps both pairs of `((a != b))`) *)
Definition strip_parens (s : str) : str := List.filter (fun c => negb (N.eqb c 40 || N.eqb c 41)) s.
(** the harness printer is Coq's [pp] *)
Definition pp_ok (c : kcase) : bool := str_eqb (pp (k_expr c)) (k_text c).
(** evaluator vs CPython (skipped where the model declines) *)
(** what the program around the expression lets one observe: its value, or only its truth value (test of an `if`) *)
Definition observe (k : kernel) (r : result) : result := match k with KEmptySeqTest => test_obs r | _ => r end.
Definition orig_result (c : kcase) : result := observe (k_kernel c) (eval (k_env c) (norm (k_expr c))).
Definition after_result (c : kcase) : result := observe (k_kernel c) (eval (k_env c) (norm (apply_kernel (k_kernel c) (k_expr c)))).
Definition eval_defined (c : kcase) : bool := in_model (orig_result c).
Definition eval_ok (c : kcase) : bool :=
  negb (in_model (orig_result c)) || str_eqb (show_result (orig_result c)) (k_obs c).
Definition eval_after_ok (c : kcase) : bool :=
  has_juxt (apply_kernel (k_kernel c) (k_expr c)) || negb (wf (apply_kernel (k_kernel c) (k_expr c))) ||
  negb (in_model (after_result c)) || str_eqb (show_result (after_result c)) (k_obs_after c).
(** the parser model on the input: fully parenthesised input parses to itself *)
(* (an implicit string concatenation in the input is merged by the parser: compared on the output side, [rw_ok]) *)
Definition norm_input_ok (c : kcase) : bool := has_juxt (k_expr c) || expr_eqb (norm (k_expr c)) (allpar (k_expr c)).
(** rewrite model vs real codemod: same parse tree *)
Definition rw_ok (c : kcase) : bool :=
  let m := norm (apply_kernel (k_kernel c) (k_expr c)) in
  (* garbled output (EJuxt) is compared as text: `"x""x"`, `22` happen to be Python literals *)
  if has_juxt m then str_eqb (strip_parens (pp (apply_kernel (k_kernel c) (k_expr c)))) (strip_parens (k_after_text c)) else
  match k_after c with
  | Some t => expr_eqb m t
  | None => negb (wf (apply_kernel (k_kernel c) (k_expr c)))
  end.
Definition changed (c : kcase) : bool := negb (expr_eqb (apply_kernel (k_kernel c) (k_expr c)) (k_expr c)).
(** well-formedness model: wf output must parse (the harness checks the converse direction: k_after = None => not wf) *)
Definition wf_after (c : kcase) : bool := wf (apply_kernel (k_kernel c) (k_expr c)).
Definition wf_input (c : kcase) : bool := wf (k_expr c).
Definition juxt_after (c : kcase) : bool := has_juxt (apply_kernel (k_kernel c) (k_expr c)).

(** the guard of the C08 theorem of the case's kernel holds (so the theorem promises equal observations) *)
Definition guard_holds (c : kcase) : bool := kernel_guard (k_kernel c) (k_env c) (k_expr c).
(** theorem instance re-checked by computation: guard => model results equal *)
Definition theorem_instance_ok (c : kcase) : bool :=
  negb (guard_holds c) || str_eqb (show_result (orig_result c)) (show_result (after_result c)).
(** finding classes (complements of the guards), one checker per class: true = the case is in the class *)
Definition in_class (n : N) (c : kcase) : bool := existsb (N.eqb n) (finding_classes (k_kernel c) (k_env c) (k_expr c)).

(** parser model on arbitrarily parenthesised trees: (expression, text printed by the harness, tree CPython parsed or None) *)
Definition pcase := (expr * str * option expr)%type.
Definition p_pp_ok (c : pcase) : bool := let '(e, t, _) := c in str_eqb (pp e) t.
Definition p_norm_ok (c : pcase) : bool :=
  let '(e, _, parsed) := c in
  match parsed with
  | Some t => negb (wf e) || expr_eqb (norm e) t   (* e.g. `a is (not b)` printed without its parentheses reads `a is not b` *)
  | None => negb (wf e)                  (* CPython rejects the text: the tree must not be well-formed *)
  end.
(** wf is allowed to be conservative only where the text is outside MiniPy; here every text comes from a MiniPy tree *)
Definition p_wf_complete (c : pcase) : bool :=
  let '(e, _, parsed) := c in match parsed with Some _ => wf e | None => true end.
