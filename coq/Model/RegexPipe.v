(** Model of codemodder/codemods/regex_transformer.py (RegexTransformerPipeline, SastRegexTransformerPipeline)
    and of the two FileContext methods they use.  Definitions only.

    - lines: [original_lines = text.splitlines(keepends=True)] is an INPUT (list of lines); the file content
      is [concat lines] (contract of splitlines tested by the harness).
    - [sub : str -> str] is the oracle for [re.sub(pattern, replacement, line)] on ONE line.
    - [mkdiff] is the oracle for [create_diff(original_lines, updated_lines)] (modelled in Diff.v by another
      module; opaque here).
    - a tool result is the list of its locations' (start.line, end.line) and the id of its finding (if any). *)
From CM Require Export Base.Str Base.Types_RegexPipe.

Record result := { r_locs : list (N * N); r_finding : option N }.
Record change := { c_line : N; c_findings : list N }.
Definition unfixed := (N * N)%type.  (* finding id, lineNumber *)

(** FileContext.get_findings_for_location(line_number) *)
Definition loc_contains (n : N) (l : N * N) : bool := (fst l <=? n)%N && (n <=? snd l)%N.
Definition result_at (n : N) (r : result) : bool := existsb (loc_contains n) (r_locs r).
Definition finding_list (r : result) : list N := match r_finding r with Some f => [f] | None => [] end.
Definition findings_for_location (rs : list result) (n : N) : list N :=
  flat_map (fun r => if result_at n r then finding_list r else []) rs.

(** the index expression handed to get_findings_for_location inside the enumerate() loop *)
Definition idx (v : index_form) (lineno : N) : N :=
  match v with ZeroBased => lineno | OneBased => lineno + 1 end%N.

Definition mem_N (n : N) (l : list N) : bool := existsb (N.eqb n) l.

Section Pipe.
  Variable sub : str -> str.
  Variable fc_results : list result.      (* file_context.results *)

  (** RegexTransformerPipeline._apply : for lineno, line in enumerate(original_lines) *)
  Fixpoint regex_loop (v : index_form) (lineno : N) (lines : list str) : list change * list str :=
    match lines with
    | [] => ([], [])
    | line :: rest =>
        let changed_line := sub line in
        let '(changes, updated) := regex_loop v (lineno + 1) rest in
        if str_eqb line changed_line then (changes, changed_line :: updated)
        else ({| c_line := lineno + 1; c_findings := findings_for_location fc_results (idx v lineno) |} :: changes,
              changed_line :: updated)
    end.
  Definition regex_apply_lines (v : index_form) (lines : list str) : list change * list str * list unfixed :=
    let '(c, u) := regex_loop v 0 lines in (c, u, []).

  (** SastRegexTransformerPipeline._apply; report_unfixed always passes the 1-based number *)
  Definition report_unfixed (line_number : N) : list unfixed :=
    map (fun f => (f, line_number)) (findings_for_location fc_results line_number).

  Fixpoint sast_loop (v : index_form) (result_linenums : list N) (lineno : N) (lines : list str)
    : list change * list str * list unfixed :=
    match lines with
    | [] => ([], [], [])
    | line :: rest =>
        let '(changes, updated, unf) := sast_loop v result_linenums (lineno + 1) rest in
        if mem_N (lineno + 1) result_linenums then
          let changed_line := sub line in
          if str_eqb line changed_line then (changes, changed_line :: updated, report_unfixed (lineno + 1) ++ unf)
          else ({| c_line := lineno + 1; c_findings := findings_for_location fc_results (idx v lineno) |} :: changes,
                changed_line :: updated, unf)
        else (changes, line :: updated, unf)
    end.

  Definition start_lines (results : list result) : list N := flat_map (fun r => map fst (r_locs r)) results.

  (** [None] = TypeError (iterating over results=None) *)
  Definition sast_apply_lines (v : index_form) (results : option (list result)) (lines : list str)
    : option (list change * list str * list unfixed) :=
    match results with
    | None => None
    | Some [] => Some ([], [], [])
    | Some rs => Some (sast_loop v (start_lines rs) 0 lines)
    end.

  (** RegexTransformerPipeline.apply (shared by the SAST class) *)
  Section Apply.
    Context {D : Type} (mkdiff : list str -> list str -> D).
    Record changeset := { cs_diff : D; cs_changes : list change }.
    Record apply_out := { ao_ret : option changeset; ao_file : str; ao_unfixed : list unfixed }.

    Definition finish_apply (dry_run : bool) (lines : list str) (r : list change * list str * list unfixed) : apply_out :=
      let '(changes, updated, unf) := r in
      match changes with
      | [] => {| ao_ret := None; ao_file := concat lines; ao_unfixed := unf |}
      | _ => {| ao_ret := Some {| cs_diff := mkdiff lines updated; cs_changes := changes |};
                ao_file := if dry_run then concat lines else concat updated;
                ao_unfixed := unf |}
      end.

    Definition regex_apply (v : index_form) (dry_run : bool) (lines : list str) : apply_out :=
      finish_apply dry_run lines (regex_apply_lines v lines).
    Definition sast_apply (v : index_form) (dry_run : bool) (results : option (list result)) (lines : list str)
      : option apply_out :=
      option_map (finish_apply dry_run lines) (sast_apply_lines v results lines).

    (** the whole of apply(): the read/decode step and the failure handling around it and around _apply.
        [decoded = None]: read_bytes().decode("utf-8") raises.  Outcomes: the call returns normally ([Done]), it records
        a failure for the file -- returns None, writes nothing, add_failure(path, reason) files every finding of the file
        context as unfixed with line 0 ([Failed]) --, or the exception escapes ([Raises]). *)
    Inductive fail_kind := ReadFailed | TransformFailed.
    Inductive file_outcome :=
    | Done (o : apply_out)
    | Failed (k : fail_kind) (unf : list unfixed)
    | Raises.
    Definition all_findings : list N := flat_map finding_list fc_results.
    Definition isolate (iso : regex_isolation) (k : fail_kind) : file_outcome :=
      match iso with
      | NoTry => Raises
      | TryReadTransform => Failed k (map (fun f => (f, 0%N)) all_findings)
      end.
    Definition regex_apply_file (iso : regex_isolation) (v : index_form) (dry_run : bool) (decoded : option (list str))
      : file_outcome :=
      match decoded with
      | None => isolate iso ReadFailed
      | Some lines => Done (regex_apply v dry_run lines)
      end.
    Definition sast_apply_file (iso : regex_isolation) (v : index_form) (dry_run : bool) (results : option (list result))
               (decoded : option (list str)) : file_outcome :=
      match decoded with
      | None => isolate iso ReadFailed
      | Some lines =>
          match sast_apply v dry_run results lines with
          | Some o => Done o
          | None => isolate iso TransformFailed
          end
      end.
  End Apply.
End Pipe.
Arguments cs_diff {D}. Arguments cs_changes {D}. Arguments ao_ret {D}. Arguments ao_file {D}. Arguments ao_unfixed {D}.
Arguments Done {D}. Arguments Failed {D}. Arguments Raises {D}.

(** projections of the triple [_apply] returns (changes, updated_lines) + the unfixed findings it reported *)
Definition r_changes (r : list change * list str * list unfixed) : list change := fst (fst r).
Definition r_updated (r : list change * list str * list unfixed) : list str := snd (fst r).
Definition r_unfixed (r : list change * list str * list unfixed) : list unfixed := snd r.
