(** Lemmas for C17: glob matchers vs the relational spec, selection model vs the reference selection. *)
From CM Require Import Model.Select Spec.SelectSpec.

(** * Matchers *)
Lemma In_tails (s b : str) : In b (tails s) <-> exists a, s = a ++ b.
Proof.
  induction s as [|x s IH]; simpl.
  - split.
    + intros [<-|[]]. now exists [].
    + intros [a H]. symmetry in H. apply app_eq_nil in H. left. symmetry. tauto.
  - split.
    + intros [<-|H]. { now exists []. }
      apply IH in H. destruct H as [a ->]. now exists (x :: a).
    + intros [[|y a] H]; simpl in H.
      * now left.
      * right. injection H as -> ->. apply IH. now exists a.
Qed.

Lemma ref_match_spec p : forall s, ref_match p s = true <-> Matches p s.
Proof.
  induction p as [|[c|] p IH]; intros s; simpl.
  - destruct s; split; congruence.
  - destruct s as [|x s].
    + split; [discriminate|]. intros (s' & H & _). discriminate.
    + rewrite andb_true_iff, N.eqb_eq, IH. split.
      * intros [-> H]. now exists s.
      * intros (s' & H & HM). injection H as -> ->. auto.
  - rewrite existsb_exists. split.
    + intros (b & Hin & Hb). apply In_tails in Hin. destruct Hin as [a ->]. exists a, b. split; [reflexivity|]. now apply IH.
    + intros (a & b & -> & Hb). exists b. split; [apply In_tails; now exists a | now apply IH].
Qed.

Definition nonl (s : str) : Prop := ~ In 10%N s.

Lemma dot_true x : dot x = true <-> x <> 10%N.
Proof. unfold dot. rewrite negb_true_iff, N.eqb_neq. tauto. Qed.

Lemma star_loop_spec (k : str -> bool) : forall s, nonl s ->
  (star_loop k s = true <-> exists a b, s = a ++ b /\ k b = true).
Proof.
  induction s as [|x s IH]; intros Hs; simpl.
  - rewrite orb_false_r. split.
    + intros H. now exists [], [].
    + intros (a & b & H & Hk). symmetry in H. apply app_eq_nil in H. destruct H as [_ ->]. exact Hk.
  - assert (Hx : x <> 10%N) by (intros ->; apply Hs; now left).
    assert (Hs' : nonl s) by (intros H; apply Hs; now right).
    rewrite orb_true_iff, andb_true_iff, dot_true, (IH Hs'). split.
    + intros [H|[_ (a & b & -> & Hk)]].
      * now exists [], (x :: s).
      * now exists (x :: a), b.
    + intros ([|y a] & b & H & Hk); simpl in H.
      * left. now rewrite H.
      * right. injection H as -> ->. split; [exact Hx|]. now exists a, b.
Qed.

Lemma nonl_app_r (a b : str) : nonl (a ++ b) -> nonl b.
Proof. unfold nonl. intros H Hb. apply H, in_or_app. now right. Qed.

(** on ids without a line feed, [fullmatch] of the escaped pattern is glob matching *)
Lemma glob_full_spec p : forall s, nonl s -> (glob_full p s = true <-> Matches p s).
Proof.
  induction p as [|[c|] p IH]; intros s Hs; simpl.
  - destruct s; split; congruence.
  - destruct s as [|x s].
    + split; [discriminate|]. intros (s' & H & _). discriminate.
    + assert (Hs' : nonl s) by (intros H; apply Hs; now right).
      rewrite andb_true_iff, N.eqb_eq, (IH s Hs'). split.
      * intros [-> H]. now exists s.
      * intros (s' & H & HM). injection H as -> ->. auto.
  - rewrite (star_loop_spec _ s Hs). split.
    + intros (a & b & -> & Hb). exists a, b. split; [reflexivity|]. apply IH; [|exact Hb]. eapply nonl_app_r; eauto.
    + intros (a & b & -> & Hb). exists a, b. split; [reflexivity|]. apply IH; [|exact Hb]. eapply nonl_app_r; eauto.
Qed.

Lemma glob_full_ref p s : nonl s -> glob_full p s = ref_match p s.
Proof.
  intros Hs. apply eq_true_iff_eq. rewrite (glob_full_spec p s Hs), ref_match_spec. tauto.
Qed.

(** [re.match] of the unescaped pattern (metacharacter-free name): some prefix of the id matches the glob *)
Lemma glob_prefix_spec p : forall s, nonl s -> (glob_prefix p s = true <-> exists a b, s = a ++ b /\ Matches p a).
Proof.
  induction p as [|[c|] p IH]; intros s Hs; simpl.
  - split; [|reflexivity]. intros _. now exists [], s.
  - destruct s as [|x s].
    + split; [discriminate|]. intros (a & b & H & (s' & -> & _)). discriminate.
    + assert (Hs' : nonl s) by (intros H; apply Hs; now right).
      rewrite andb_true_iff, N.eqb_eq, (IH s Hs'). split.
      * intros [-> (a & b & -> & HM)]. exists (x :: a), b. split; [reflexivity|]. now exists a.
      * intros (a & b & H & (s' & -> & HM)). injection H as -> ->. split; [reflexivity|]. now exists s', b.
  - rewrite (star_loop_spec _ s Hs). split.
    + intros (a & b & -> & Hb). apply IH in Hb; [|eapply nonl_app_r; eauto].
      destruct Hb as (a' & b' & -> & HM). exists (a ++ a'), b'. split; [now rewrite app_assoc|]. now exists a, a'.
    + intros (a & b & -> & (a1 & a2 & -> & HM)). exists a1, (a2 ++ b). split; [now rewrite app_assoc|].
      apply IH. { eapply nonl_app_r. rewrite app_assoc. exact Hs. } now exists a2, b.
Qed.

(** * Kept *)
Lemma Kept_filter {A} (P : A -> Prop) (f : A -> bool) l :
  (forall x, In x l -> (f x = true <-> P x)) -> Kept P l (filter f l).
Proof.
  induction l as [|x l IH]; intros H; simpl; [constructor|].
  assert (Hl : forall y, In y l -> (f y = true <-> P y)) by (intros y Hy; apply H; now right).
  destruct (f x) eqn:E.
  - apply K_keep; [apply H; [now left|exact E] | auto].
  - apply K_drop; [|auto]. intros HP. apply H in HP; [congruence|now left].
Qed.

Lemma Kept_functional {A} (P : A -> Prop) l : forall a b, Kept P l a -> Kept P l b -> a = b.
Proof.
  induction l as [|x l IH]; intros a b Ha Hb; inversion Ha; subst; inversion Hb; subst; try reflexivity; try contradiction.
  - f_equal. auto.
  - auto.
Qed.

Lemma Kept_In {A} (P : A -> Prop) l l' : Kept P l l' -> forall x, In x l' <-> In x l /\ P x.
Proof.
  induction 1 as [|x l l' HP HK IH|x l l' HP HK IH]; intros y; simpl.
  - tauto.
  - rewrite IH. split.
    + intros [<-|[H1 H2]]; auto.
    + intros [[<-|H1] H2]; auto.
  - rewrite IH. split.
    + intros [H1 H2]; auto.
    + intros [[<-|H1] H2]; [contradiction|auto].
Qed.

Lemma Kept_ext {A} (P Q : A -> Prop) l l' : (forall x, In x l -> (P x <-> Q x)) -> Kept P l l' -> Kept Q l l'.
Proof.
  intros H HK. induction HK as [|x l l' HP HK IH|x l l' HP HK IH].
  - constructor.
  - apply K_keep; [apply H; [now left|exact HP]|]. apply IH. intros y Hy. apply H. now right.
  - apply K_drop; [intros HQ; apply HP, H; [now left|exact HQ]|]. apply IH. intros y Hy. apply H. now right.
Qed.

Lemma Forall2_Kept_functional {A B} (P : B -> A -> Prop) (reg : list A) (names : list B) :
  forall g1 g2, Forall2 (fun n g => Kept (P n) reg g) names g1 -> Forall2 (fun n g => Kept (P n) reg g) names g2 -> g1 = g2.
Proof.
  induction names as [|n names IH]; intros g1 g2 H1 H2; inversion H1; subst; inversion H2; subst; [reflexivity|].
  f_equal; [eapply Kept_functional; eauto | auto].
Qed.

(** * first_occ *)
Lemma mem_str_ext (s1 s2 : list str) : (forall x, In x s1 <-> In x s2) -> forall x, mem_str x s1 = mem_str x s2.
Proof.
  intros H x. apply eq_true_iff_eq. rewrite !mem_str_In. apply H.
Qed.

Lemma first_occ_ext l : forall s1 s2, (forall x, In x s1 <-> In x s2) -> first_occ s1 l = first_occ s2 l.
Proof.
  induction l as [|c l IH]; intros s1 s2 H; simpl; [reflexivity|].
  rewrite (mem_str_ext s1 s2 H). destruct (mem_str (cid c) s2).
  - now apply IH.
  - f_equal. apply IH. intros x. simpl. rewrite H. tauto.
Qed.

Lemma first_occ_app a : forall seen b,
  first_occ seen (a ++ b) = first_occ seen a ++ first_occ (ids (first_occ seen a) ++ seen) b.
Proof.
  induction a as [|c a IH]; intros seen b; simpl; [reflexivity|].
  destruct (mem_str (cid c) seen) eqn:E.
  - apply IH.
  - simpl. f_equal. rewrite IH. f_equal. apply first_occ_ext. intros x.
    simpl. rewrite !in_app_iff. simpl. tauto.
Qed.

Lemma first_occ_In seen l c : In c (first_occ seen l) -> In c l /\ ~ In (cid c) seen.
Proof.
  revert seen. induction l as [|d l IH]; intros seen; simpl; [tauto|].
  destruct (mem_str (cid d) seen) eqn:E.
  - intros H. apply IH in H. tauto.
  - intros [<-|H].
    + split; [now left|]. intros Hin. apply mem_str_In in Hin. congruence.
    + apply IH in H. simpl in H. tauto.
Qed.

Lemma first_occ_NoDup l : forall seen, NoDup (ids (first_occ seen l)).
Proof.
  induction l as [|c l IH]; intros seen; simpl; [constructor|].
  destruct (mem_str (cid c) seen); [apply IH|].
  simpl. constructor; [|apply IH].
  intros Hin. apply in_map_iff in Hin. destruct Hin as (d & Hd & Hin).
  apply first_occ_In in Hin. destruct Hin as [_ Hn]. apply Hn. rewrite Hd. now left.
Qed.

(** every id of the input that is not already seen survives (completeness of de-duplication) *)
Lemma first_occ_complete l : forall seen c, In c l -> ~ In (cid c) seen -> In (cid c) (ids (first_occ seen l)).
Proof.
  induction l as [|d l IH]; intros seen c Hin Hn; simpl in *; [contradiction|].
  destruct (mem_str (cid d) seen) eqn:E.
  - destruct Hin as [->|Hin]; [apply mem_str_In in E; contradiction|]. now apply IH.
  - simpl. destruct (str_eqb_spec (cid d) (cid c)) as [Heq|Hne]; [now left|].
    destruct Hin as [->|Hin]; [congruence|]. right. apply IH; [exact Hin|]. simpl. intros [H|H]; auto.
Qed.

Lemma first_occ_id_nodup l : forall seen, NoDup (ids l) -> (forall c, In c l -> ~ In (cid c) seen) -> first_occ seen l = l.
Proof.
  induction l as [|c l IH]; intros seen Hnd Hs; simpl; [reflexivity|].
  inversion Hnd as [|? ? Hn Hnd']; subst.
  destruct (mem_str (cid c) seen) eqn:E.
  - apply mem_str_In in E. exfalso. eapply Hs; [now left|exact E].
  - f_equal. apply IH; [exact Hnd'|]. intros d Hd [H|H].
    + apply Hn. rewrite H. apply in_map. exact Hd.
    + eapply Hs; [right; exact Hd|exact H].
Qed.

(** * include branch of the model = first_occ of the concatenated groups *)
Lemma setdefault_all_spec found : forall acc, setdefault_all found acc = acc ++ first_occ (ids acc) found.
Proof.
  unfold setdefault_all. induction found as [|c found IH]; intros acc; simpl; [now rewrite app_nil_r|].
  destruct (mem_str (cid c) (ids acc)) eqn:E.
  - apply IH.
  - rewrite IH, <- app_assoc. simpl. do 2 f_equal. apply first_occ_ext. intros x.
    unfold ids. rewrite map_app, in_app_iff. simpl. tauto.
Qed.

Lemma include_dedup_fold (found : str -> list codemod) incl : forall acc,
  fold_left (fun acc name => add_matches true acc (found name)) incl acc
  = acc ++ first_occ (ids acc) (concat (map found incl)).
Proof.
  induction incl as [|n incl IH]; intros acc; simpl; [now rewrite app_nil_r|].
  rewrite IH, setdefault_all_spec, <- app_assoc. f_equal.
  rewrite first_occ_app. f_equal. apply first_occ_ext. intros x.
  unfold ids. rewrite map_app, !in_app_iff. tauto.
Qed.

Lemma include_nodedup_fold (found : str -> list codemod) incl : forall acc,
  fold_left (fun acc name => add_matches false acc (found name)) incl acc = acc ++ concat (map found incl).
Proof.
  induction incl as [|n incl IH]; intros acc; simpl; [now rewrite app_nil_r|].
  now rewrite IH, <- app_assoc.
Qed.

Lemma filter_id_absent name reg : ~ In name (ids reg) -> filter (fun c => str_eqb (cid c) name) reg = [].
Proof.
  induction reg as [|d reg IH]; intros Hn; simpl; [reflexivity|].
  destruct (str_eqb_spec (cid d) name) as [Heq|_].
  - exfalso. apply Hn. simpl. now left.
  - apply IH. intros H. apply Hn. simpl. now right.
Qed.

Lemma find_id_filter name reg : NoDup (ids reg) ->
  match find_id name reg with Some c => [c] | None => [] end = filter (fun c => str_eqb (cid c) name) reg.
Proof.
  unfold find_id. induction reg as [|c reg IH]; intros Hnd; simpl; [reflexivity|].
  inversion Hnd as [|? ? Hn Hnd']; subst.
  destruct (str_eqb_spec name (cid c)) as [->|Hne].
  - rewrite str_eqb_refl. f_equal. symmetry. now apply filter_id_absent.
  - destruct (str_eqb_spec (cid c) name) as [Heq|_]; [congruence|]. now apply IH.
Qed.

Lemma filter_ext_in' {A} (f g : A -> bool) l : (forall x, In x l -> f x = g x) -> filter f l = filter g l.
Proof.
  induction l as [|x l IH]; intros H; simpl; [reflexivity|].
  rewrite (H x (or_introl eq_refl)). destruct (g x); [f_equal|]; apply IH; intros y Hy; apply H; now right.
Qed.

Lemma nonl_of_wf reg c : wf_reg reg -> In c reg -> nonl (cid c).
Proof. intros [_ H] Hin. rewrite Forall_forall in H. exact (H c Hin). Qed.

Lemma found_for_full reg name : wf_reg reg -> found_for FullGlob reg name = filter (wanted_b name) reg.
Proof.
  intros Hwf. unfold found_for, wanted_b. destruct (has_star name).
  - apply filter_ext_in'. intros c Hc. simpl. apply glob_full_ref. eapply nonl_of_wf; eauto.
  - apply find_id_filter. apply Hwf.
Qed.

Lemma include_branch_ref reg incl : wf_reg reg ->
  include_branch FullGlob true reg incl = first_occ [] (concat (map (fun name => filter (wanted_b name) reg) incl)).
Proof.
  intros Hwf. unfold include_branch. rewrite include_dedup_fold. simpl. f_equal. f_equal.
  apply map_ext. intros n. now apply found_for_full.
Qed.

(** * exclude branch *)
Lemma excluded_by_ref excl c : nonl (cid c) -> excluded_by FullGlob excl c = excluded_b excl c.
Proof.
  intros Hc. unfold excluded_by, excluded_b. induction excl as [|n excl IH]; simpl; [reflexivity|].
  unfold wanted_b at 1. destruct (has_star n) eqn:E; simpl.
  - rewrite <- IH. rewrite (glob_full_ref _ _ Hc).
    destruct (mem_str (cid c) (filter (fun n0 => negb (has_star n0)) excl)); simpl;
      destruct (ref_match (parse_pat n) (cid c)); reflexivity.
  - rewrite <- IH. unfold mem_str at 1. simpl. fold (mem_str (cid c) (filter (fun n0 => negb (has_star n0)) excl)).
    now rewrite orb_assoc.
Qed.

Lemma eligible_ref sast c : eligible sast c = eligible_b sast c.
Proof. unfold eligible, eligible_b. destruct sast, (str_eqb (corigin c) pixee); reflexivity. Qed.

Lemma exclude_branch_ref reg excl sast : wf_reg reg ->
  exclude_branch FullGlob excl sast reg = filter (fun c => negb (excluded_b excl c) && eligible_b sast c) reg.
Proof.
  intros Hwf. unfold exclude_branch. apply filter_ext_in'. intros c Hc.
  rewrite excluded_by_ref by (eapply nonl_of_wf; eauto). now rewrite eligible_ref.
Qed.

(** * the model with the repaired table values computes the reference selection *)
Definition repaired : select_variant := {| v_include_matcher := FullGlob; v_include_dedup := true; v_exclude_matcher := FullGlob |}.

Lemma model_include_ref v defaults reg n incl excl sast :
  v_include_matcher v = FullGlob -> v_include_dedup v = true -> wf_reg reg ->
  match_codemods_model v defaults reg (n :: incl) excl sast = select_ref defaults reg (n :: incl) excl sast.
Proof.
  intros Hm Hd Hwf. unfold match_codemods_model, select_ref. rewrite Hm, Hd.
  destruct (match excl with [] => defaults | _ :: _ => excl end); now apply include_branch_ref.
Qed.

Lemma model_exclude_ref v d defaults reg excl sast :
  v_exclude_matcher v = FullGlob -> wf_reg reg ->
  match_codemods_model v (d :: defaults) reg [] excl sast = select_ref (d :: defaults) reg [] excl sast.
Proof.
  intros Hm Hwf. unfold match_codemods_model, select_ref, effective_exclude. rewrite Hm.
  destruct excl; now apply exclude_branch_ref.
Qed.

(** * the reference selection is what the spec allows, and nothing else is *)
Lemma wanted_b_spec name c : wanted_b name c = true <-> Wanted name c.
Proof.
  unfold wanted_b, Wanted. destruct (has_star name); [apply ref_match_spec | apply str_eqb_eq].
Qed.

Lemma excluded_b_spec excl c : excluded_b excl c = true <-> Excluded excl c.
Proof.
  unfold excluded_b, Excluded. rewrite existsb_exists. split; intros (n & H1 & H2); exists n; split; auto; now apply wanted_b_spec.
Qed.

Lemma eligible_b_spec sast c : eligible_b sast c = true <-> Eligible sast c.
Proof.
  unfold eligible_b, Eligible. destruct sast.
  - rewrite negb_true_iff. apply str_eqb_neq.
  - apply str_eqb_eq.
Qed.

Lemma select_ref_sound defaults reg incl excl sast : SelectSpec defaults reg incl excl sast (select_ref defaults reg incl excl sast).
Proof.
  unfold SelectSpec, select_ref. destruct incl as [|n incl].
  - unfold ExcludeSpec. apply Kept_filter. intros c _.
    rewrite andb_true_iff, negb_true_iff, eligible_b_spec. rewrite <- excluded_b_spec.
    destruct (excluded_b (effective_exclude defaults excl) c); split; intros [H1 H2]; split; auto; congruence.
  - exists (map (fun name => filter (wanted_b name) reg) (n :: incl)). split; [|reflexivity].
    generalize (n :: incl). intros l. induction l as [|m l IH]; simpl; constructor; [|exact IH].
    apply Kept_filter. intros c _. apply wanted_b_spec.
Qed.

Lemma SelectSpec_functional defaults reg incl excl sast o1 o2 :
  SelectSpec defaults reg incl excl sast o1 -> SelectSpec defaults reg incl excl sast o2 -> o1 = o2.
Proof.
  unfold SelectSpec. destruct incl as [|n incl].
  - apply Kept_functional.
  - intros (g1 & H1 & ->) (g2 & H2 & ->). now rewrite (Forall2_Kept_functional _ _ _ _ _ H1 H2).
Qed.

Lemma SelectSpec_is_ref defaults reg incl excl sast o :
  SelectSpec defaults reg incl excl sast o <-> o = select_ref defaults reg incl excl sast.
Proof.
  split.
  - intros H. eapply SelectSpec_functional; [exact H|apply select_ref_sound].
  - intros ->. apply select_ref_sound.
Qed.

(** * consequences of the spec: membership, order, unknown items *)
Lemma ids_filter_NoDup (f : codemod -> bool) reg : NoDup (ids reg) -> NoDup (ids (filter f reg)).
Proof.
  induction reg as [|c reg IH]; intros H; simpl; [constructor|].
  inversion H as [|? ? Hn Hnd]; subst. destruct (f c); [|auto].
  simpl. constructor; [|auto]. intros Hin. apply Hn.
  apply in_map_iff in Hin. destruct Hin as (d & Hd & Hin). apply filter_In in Hin.
  apply in_map_iff. exists d. tauto.
Qed.

Lemma Kept_ids_NoDup (P : codemod -> Prop) reg out : Kept P reg out -> NoDup (ids reg) -> NoDup (ids out).
Proof.
  induction 1 as [|x l l' HP HK IH|x l l' HP HK IH]; intros Hnd; simpl in *.
  - constructor.
  - inversion Hnd as [|? ? Hn Hnd']; subst. constructor; [|auto].
    intros Hin. apply Hn. apply in_map_iff in Hin. destruct Hin as (d & Hd & Hin).
    apply (Kept_In _ _ _ HK) in Hin. apply in_map_iff. exists d. tauto.
  - inversion Hnd; subst. auto.
Qed.

Lemma model_nodup im em defaults reg incl excl sast :
  NoDup (ids reg) ->
  NoDup (ids (match_codemods_model {| v_include_matcher := im; v_include_dedup := true; v_exclude_matcher := em |}
                                   defaults reg incl excl sast)).
Proof.
  intros Hnd. unfold match_codemods_model. simpl.
  assert (Hinc : NoDup (ids (include_branch im true reg incl))).
  { unfold include_branch. rewrite include_dedup_fold. simpl. apply first_occ_NoDup. }
  destruct (match excl with [] => defaults | _ :: _ => excl end); [exact Hinc|].
  destruct incl; [|exact Hinc]. now apply ids_filter_NoDup.
Qed.

Lemma In_concat_groups (P : str -> codemod -> Prop) reg incl groups :
  Forall2 (fun name g => Kept (P name) reg g) incl groups ->
  forall c, In c (concat groups) <-> In c reg /\ exists name, In name incl /\ P name c.
Proof.
  induction 1 as [|n g incl groups HK HF IH]; intros c; simpl.
  - split; [tauto|]. intros [_ (n & [] & _)].
  - rewrite in_app_iff, IH, (Kept_In _ _ _ HK). split.
    + intros [[H1 H2]|[H1 (m & Hm & HP)]]; split; auto; [exists n|exists m]; auto.
    + intros [H1 (m & [<-|Hm] & HP)]; [left|right]; split; auto. exists m; auto.
Qed.

(** no extra codemod, none missing *)
Lemma IncludeSpec_members reg incl out : IncludeSpec reg incl out ->
  (forall c, In c out -> In c reg /\ exists name, In name incl /\ Wanted name c) /\
  (forall c name, In c reg -> In name incl -> Wanted name c -> In (cid c) (ids out)).
Proof.
  intros (groups & HF & ->). split.
  - intros c Hc. apply first_occ_In in Hc. destruct Hc as [Hc _]. now apply (In_concat_groups _ _ _ _ HF).
  - intros c name Hc Hn HW. apply first_occ_complete; [|tauto].
    apply (In_concat_groups _ _ _ _ HF). split; [exact Hc|]. now exists name.
Qed.

Lemma Forall2_app_inv_l' {A B} (R : A -> B -> Prop) l1 l2 l' :
  Forall2 R (l1 ++ l2) l' -> exists l1' l2', Forall2 R l1 l1' /\ Forall2 R l2 l2' /\ l' = l1' ++ l2'.
Proof. apply Forall2_app_inv_l. Qed.

(** the codemods selected by the earlier items come first and are not affected by the later items *)
Lemma IncludeSpec_app reg l1 l2 out : IncludeSpec reg (l1 ++ l2) out ->
  exists o1 o2, IncludeSpec reg l1 o1 /\ out = o1 ++ o2 /\
                (forall c, In c o2 -> ~ In (cid c) (ids o1) /\ In c reg /\ exists name, In name l2 /\ Wanted name c).
Proof.
  intros (groups & HF & ->). apply Forall2_app_inv_l in HF. destruct HF as (g1 & g2 & H1 & H2 & ->).
  rewrite concat_app, first_occ_app.
  exists (first_occ [] (concat g1)), (first_occ (ids (first_occ [] (concat g1)) ++ []) (concat g2)).
  split; [now exists g1|]. split; [reflexivity|].
  intros c Hc. apply first_occ_In in Hc. destruct Hc as [Hc Hn]. rewrite app_nil_r in Hn.
  split; [exact Hn|]. now apply (In_concat_groups _ _ _ _ H2).
Qed.

(** one item: the registry-ordered codemods it selects *)
Lemma IncludeSpec_single reg name out : NoDup (ids reg) -> IncludeSpec reg [name] out -> Kept (Wanted name) reg out.
Proof.
  intros Hnd (groups & HF & ->). inversion HF as [|? g ? gs HK HF']; subst. inversion HF'; subst.
  simpl. rewrite app_nil_r. rewrite first_occ_id_nodup; [exact HK| |tauto].
  eapply Kept_ids_NoDup; eauto.
Qed.

Lemma Kept_none {A} (P : A -> Prop) l g : (forall x, In x l -> ~ P x) -> Kept P l g -> g = [].
Proof.
  intros H HK. destruct g as [|x g]; [reflexivity|].
  assert (Hx : In x (x :: g)) by now left. apply (Kept_In _ _ _ HK) in Hx. destruct Hx as [H1 H2]. now apply H in H1.
Qed.

Lemma Kept_none_intro {A} (P : A -> Prop) l : (forall x, In x l -> ~ P x) -> Kept P l [].
Proof.
  induction l as [|x l IH]; intros H; [constructor|]. apply K_drop; [apply H; now left|]. apply IH. intros y Hy. apply H. now right.
Qed.

(** an item that selects no registered codemod changes nothing *)
Lemma IncludeSpec_unknown reg l1 name l2 out : (forall c, In c reg -> ~ Wanted name c) ->
  (IncludeSpec reg (l1 ++ name :: l2) out <-> IncludeSpec reg (l1 ++ l2) out).
Proof.
  intros Hu. split.
  - intros (groups & HF & ->). apply Forall2_app_inv_l in HF. destruct HF as (g1 & g2 & H1 & H2 & ->).
    inversion H2 as [|? g ? gs HK H2']; subst. apply (Kept_none _ _ _ Hu) in HK. subst g.
    exists (g1 ++ gs). split; [now apply Forall2_app|]. now rewrite !concat_app.
  - intros (groups & HF & ->). apply Forall2_app_inv_l in HF. destruct HF as (g1 & g2 & H1 & H2 & ->).
    exists (g1 ++ [] :: g2). split.
    + apply Forall2_app; [exact H1|]. constructor; [now apply Kept_none_intro|exact H2].
    + now rewrite !concat_app.
Qed.

Lemma eligible_xor sast c : eligible sast c = xorb sast (str_eqb (corigin c) pixee).
Proof. unfold eligible. destruct sast, (str_eqb (corigin c) pixee); reflexivity. Qed.

(** * eligibility mode: which argument lists switch to the tool-specific codemods *)
Definition only_tool_files (sources : list str) : bool :=
  forallb (fun s => str_eqb s dest_sonar_issues || str_eqb s dest_sarif) sources
  && mem_str dest_sonar_issues sources && mem_str dest_sarif sources.

Definition one_arg (dest : str) : arglists := [(dest, [([] : str)])].

Lemma arg_given_one dest s : arg_given (one_arg dest) s = str_eqb dest s.
Proof. unfold arg_given, one_arg. simpl. now rewrite andb_true_r, orb_false_r. Qed.

Lemma sast_only_of_one sources dest : sast_only_of sources (one_arg dest) = mem_str dest sources.
Proof.
  unfold sast_only_of, mem_str. induction sources as [|s l IH]; cbn [existsb]; [reflexivity|].
  now rewrite arg_given_one, IH.
Qed.

Lemma sast_mode_all sources :
  if only_tool_files sources then forall args, sast_only_of sources args = tool_files_supplied args
  else exists args, sast_only_of sources args <> tool_files_supplied args.
Proof.
  unfold only_tool_files.
  destruct (forallb (fun s => str_eqb s dest_sonar_issues || str_eqb s dest_sarif) sources) eqn:Eall; simpl.
  - destruct (mem_str dest_sonar_issues sources) eqn:Ea; simpl.
    + destruct (mem_str dest_sarif sources) eqn:Eb.
      * intros args. unfold sast_only_of, tool_files_supplied. apply eq_true_iff_eq.
        rewrite existsb_exists, orb_true_iff. rewrite forallb_forall in Eall. split.
        -- intros (s & Hs & Hg). specialize (Eall s Hs). apply orb_true_iff in Eall.
           destruct Eall as [E|E]; apply str_eqb_eq in E; subst; auto.
        -- intros [H|H]; [exists dest_sonar_issues|exists dest_sarif]; split; auto; now apply mem_str_In.
      * exists (one_arg dest_sarif). rewrite sast_only_of_one, Eb. unfold tool_files_supplied.
        rewrite !arg_given_one, str_eqb_refl, orb_true_r. discriminate.
    + exists (one_arg dest_sonar_issues). rewrite sast_only_of_one, Ea. unfold tool_files_supplied.
      rewrite !arg_given_one, str_eqb_refl. discriminate.
  - assert (H : exists s, In s sources /\ (str_eqb s dest_sonar_issues || str_eqb s dest_sarif) = false).
    { clear -Eall. induction sources as [|s l IH]; simpl in Eall; [discriminate|].
      apply andb_false_iff in Eall. destruct Eall as [E|E].
      - exists s. split; [now left|exact E].
      - destruct (IH E) as (x & Hx & Ex). exists x. split; [now right|exact Ex]. }
    destruct H as (s & Hs & E). apply orb_false_iff in E. destruct E as [E1 E2].
    exists (one_arg s). rewrite sast_only_of_one. apply mem_str_In in Hs. rewrite Hs.
    unfold tool_files_supplied. rewrite !arg_given_one, E1, E2. discriminate.
Qed.
