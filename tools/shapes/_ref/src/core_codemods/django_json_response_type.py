import libcst as cst

from codemodder.codemods.libcst_transformer import (
    LibcstResultTransformer,
    LibcstTransformerPipeline,
)
from codemodder.codemods.semgrep import SemgrepRuleDetector
from core_codemods.api import Metadata, Reference, ReviewGuidance
from core_codemods.api.core_codemod import CoreCodemod


class DjangoJsonResponseTypeTransformer(LibcstResultTransformer):
    change_description = "Sets `content_type` to `application/json`."

    def on_result_found(self, _, updated_node):
        return self.update_arg_target(
            updated_node,
            [
                *updated_node.args,
                cst.Arg(
                    value=cst.parse_expression('"application/json"'),
                    keyword=cst.Name("content_type"),
                    equal=cst.AssignEqual(
                        whitespace_before=cst.SimpleWhitespace(""),
                        whitespace_after=cst.SimpleWhitespace(""),
                    ),
                ),
            ],
        )


semgrep_rule = """
    rules:
      - id: django-json-response-type
        mode: taint
        pattern-sources:
          - pattern: json.dumps(...)
        pattern-sinks:
          - patterns:
            - pattern: django.http.HttpResponse(...)
            - pattern-not: django.http.HttpResponse(...,content_type=...,...)
    """

DjangoJsonResponseType = CoreCodemod(
    metadata=Metadata(
        name="django-json-response-type",
        summary="Set content type to `application/json` for `django.http.HttpResponse` with JSON data",
        review_guidance=ReviewGuidance.MERGE_WITHOUT_REVIEW,
        references=[
            Reference(
                url="https://docs.djangoproject.com/en/4.0/ref/request-response/#django.http.HttpResponse.__init__"
            ),
            Reference(
                url="https://cheatsheetseries.owasp.org/cheatsheets/Cross_Site_Scripting_Prevention_Cheat_Sheet.html#output-encoding-for-javascript-contexts"
            ),
        ],
    ),
    transformer=LibcstTransformerPipeline(DjangoJsonResponseTypeTransformer),
    detector=SemgrepRuleDetector(rule=semgrep_rule),
)
