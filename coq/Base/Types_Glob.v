(** Types of the table values emitted by tools/fragments_glob.py (C05, C13). *)
From CM Require Export Base.Str.

(** base_codemod._process_file: which string form of the file path the `path:line` patterns are matched against. *)
Inductive path_form :=
| AsPassedAbsolute   (* pinned tree: file_line_patterns(filename, ...) -- only the path as passed (target-prefixed) *)
| Both.              (* fix 18b42d9: the path as passed, then the target-relative path *)

(** base_visitor.UtilsMixin.filter_by_path_includes_or_excludes (and its copy in remove_unused_imports.py):
    how the exclusion and inclusion line lists combine. *)
Inductive lf_rule :=
| ExcludeShadowsInclude   (* `if self.line_exclude: return not any(...)`: a non-empty exclusion list makes the inclusion list irrelevant *)
| ExcludeThenInclude.     (* an excluded line is never selected; when lines are included, only those are *)

(** A fragment whose source text is exactly the one the model was written from. *)
Inductive as_written := AsWritten.
