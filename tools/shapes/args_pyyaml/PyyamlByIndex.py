class HardenPyyamlCallMixin:
    def update_call(
        self: CodemodProtocol,
        original_node: cst.Call,
        updated_node: cst.Call,
        maybe_aliased_name: str | None = None,
    ) -> cst.Call:
        module_name = maybe_aliased_name or YAML_MODULE_NAME
        if not maybe_aliased_name:
            self.add_needed_import(YAML_MODULE_NAME)

        updated_node = cast(cst.Call, updated_node)  # satisfy the type checker
        new_args = [
            *updated_node.args[:1],
            # This is the case where the arg is present but a bad value
            (
                updated_node.args[1].with_changes(
                    value=self.parse_expression(f"{module_name}.SafeLoader")
                )
                if len(updated_node.args) > 1
                # This is the case where the arg is not present
                # Note that this case is deprecated in PyYAML 5.1 since the default is unsafe
                else cst.Arg(
                    keyword=cst.Name("Loader"),
                    value=self.parse_expression(f"{module_name}.SafeLoader"),
                    equal=cst.AssignEqual(
                        whitespace_before=cst.SimpleWhitespace(""),
                        whitespace_after=cst.SimpleWhitespace(""),
                    ),
                )
            ),
        ]
        return self.update_arg_target(updated_node, new_args)

