(** C09: a multi-codemod run equals the chain of single-codemod runs on the evolving tree. *)
From CM Require Import Base.Dict Model.Run Spec.RunSpec Proofs.DictFacts Proofs.RunFacts Proofs.RunSteps Proofs.C10Facts.

(** the aggregates recorded under one codemod id *)
Definition agg_of (id : str) (s : state) :=
  (dgetl id (s_cs s), dgetl id (s_fail s), dgetl id (s_deps s), dgetl id (s_unf s), dget str_eqb id (s_upd s)).
Definition agg_empty (id : str) (s : state) : Prop := agg_of id s = ([], [], [], [], None).
Definition row_of (K : codemod) (s : state) : result_row :=
  {| r_codemod := cid K; r_changeset := dgetl (cid K) (s_cs s); r_failed := dgetl (cid K) (s_fail s);
     r_unfixed := dgetl (cid K) (s_unf s); r_deps := dgetl (cid K) (s_deps s); r_dep_store := dget str_eqb (cid K) (s_upd s) |}.
Lemma row_of_agg K s t : agg_of (cid K) s = agg_of (cid K) t -> row_of K s = row_of K t.
Proof. unfold agg_of, row_of. intros [= H1 H2 H3 H4 H5]. now rewrite H1, H2, H3, H4, H5. Qed.
Lemma compile_rows Ks s : compile_results Ks s = map (fun K => row_of K s) Ks.
Proof. reflexivity. Qed.

(** ---- aggregates are keyed: merging under [id] never touches another id (C09_results_keyed) ---- *)
Lemma merge_frame id c s id' : id' <> id -> agg_of id' (merge_ctx id c s) = agg_of id' s.
Proof.
  intros Hne. unfold agg_of, merge_ctx. simpl.
  rewrite !dgetl_dext_other by exact Hne. rewrite dgetl_dunion_other by exact Hne. reflexivity.
Qed.
Lemma merge_rel id c s t : agg_of id s = agg_of id t -> agg_of id (merge_ctx id c s) = agg_of id (merge_ctx id c t).
Proof.
  unfold agg_of, merge_ctx. simpl. intros [= H1 H2 H3 H4 H5].
  rewrite !dgetl_dext_same, !dgetl_dunion_same, H1, H2, H3, H4, H5. reflexivity.
Qed.
Lemma presults_frame id outs : forall s s' id', id' <> id ->
  process_results id outs s = Ok s' \/ process_results id outs s = Aborted s' -> agg_of id' s' = agg_of id' s.
Proof.
  induction outs as [|[|c] r IH]; intros s s' id' Hne H; simpl in H.
  - destruct H as [H|H]; inversion H; subst; reflexivity.
  - destruct H as [H|H]; inversion H; subst; reflexivity.
  - rewrite (IH _ _ _ Hne H). now apply merge_frame.
Qed.
Lemma presults_rel id outs : forall s t s', agg_of id s = agg_of id t ->
  process_results id outs s = Ok s' -> exists t', process_results id outs t = Ok t' /\ agg_of id s' = agg_of id t'.
Proof.
  induction outs as [|[|c] r IH]; intros s t s' Ha H; simpl in *.
  - inversion H; subst. eauto.
  - discriminate.
  - eapply IH; [|exact H]. now apply merge_rel.
Qed.

Section C09.
  Variable tb : run_tables.
  Variable tree : Type.
  Variable parse : pipe_kind -> bytes -> option tree.
  Variable code : pipe_kind -> tree -> bytes.
  Variable T : codemod -> tree -> option (list finding) -> outcome tree.
  Variable S : codemod -> path -> bytes -> list finding.
  Variable R : codemod -> list (path * list finding).
  Variable diff : bytes -> bytes -> str.
  Variable W : skind -> option bytes -> list dep -> option (bytes * str * list change).
  Variable fsel : codemod -> path -> bool.
  Variable cfg : config.

  Local Notation mfiles := (map_files tb tree parse code T diff cfg).
  Local Notation acodemod := (apply_codemod tb tree parse code T S R diff fsel cfg).
  Local Notation pdeps := (process_dependencies tb W cfg).
  Local Notation acodemods := (apply_codemods tb tree parse code T S R diff W fsel cfg).
  Local Notation mrun := (run tb tree parse code T S R diff W fsel cfg).

  (** What a codemod application learns from the prefilter and its detector: None = nothing to do (skipped by the
      prefilter test, or the detector found nothing), Some results otherwise. *)
  Definition eff_detect (pre : dict str (list path)) (K : codemod) (fs : fsys) : option (option (list (path * list finding))) :=
    if (match cdet K with DSemgrep => true | _ => false end) && negb (is_nil pre) && negb (dhas str_eqb (cid K) pre) then None
    else match detect S R cfg K pre fs with Some [] => None | r => Some r end.

  Lemma acodemod_eff pre K s :
    acodemod pre K s =
    if negb (cavail K) then Ok s else
    match eff_detect pre K (s_fs s) with
    | None => Ok s
    | Some res =>
        match files_to_analyze fsel cfg K res with
        | [] => Ok s
        | files => process_results (cid K) (fst (mfiles K res (s_fs s) files)) (with_fs s (snd (mfiles K res (s_fs s) files)))
        end
    end.
  Proof.
    unfold apply_codemod, eff_detect. destruct (negb (cavail K)); [reflexivity|].
    destruct (_ && _ && _); [reflexivity|].
    destruct (detect S R cfg K pre (s_fs s)) as [[|x r]|]; reflexivity.
  Qed.

  (** one codemod application from two states that agree on the file system and on this codemod's aggregates, under
      two prefilters with the same effective detection *)
  Lemma acodemod_rel2 pre pre' K s t s' :
    s_fs s = s_fs t -> s_stores s = s_stores t -> agg_of (cid K) s = agg_of (cid K) t ->
    eff_detect pre K (s_fs s) = eff_detect pre' K (s_fs s) ->
    acodemod pre K s = Ok s' ->
    exists t', acodemod pre' K t = Ok t' /\ s_fs s' = s_fs t' /\ s_stores s' = s_stores t' /\
               agg_of (cid K) s' = agg_of (cid K) t'.
  Proof.
    intros Hfs Hst Ha He. rewrite !acodemod_eff. rewrite <- Hfs, <- He.
    destruct (negb (cavail K)); [intros [= <-]; eauto|].
    destruct (eff_detect pre K (s_fs s)) as [res|]; [|intros [= <-]; eauto].
    destruct (files_to_analyze fsel cfg K res) as [|f fl]; [intros [= <-]; eauto|].
    cbv zeta. intros Hp.
    destruct (presults_rel (cid K) _ (with_fs s (snd (mfiles K res (s_fs s) (f :: fl))))
                (with_fs t (snd (mfiles K res (s_fs s) (f :: fl)))) _ Ha Hp) as [t' [Ht Hagg]].
    exists t'. split; [exact Ht|].
    pose proof (presults_fs _ _ _ _ (or_introl Hp)) as [F1 [S1 _]]. pose proof (presults_fs _ _ _ _ (or_introl Ht)) as [F2 [S2 _]].
    simpl in *. rewrite F1, F2, S1, S2. auto.
  Qed.

  Lemma acodemod_frame2 pre K s s' id' : id' <> cid K ->
    acodemod pre K s = Ok s' \/ acodemod pre K s = Aborted s' -> agg_of id' s' = agg_of id' s.
  Proof.
    intros Hne. rewrite acodemod_eff. destruct (negb (cavail K)); [intros [H|H]; inversion H; reflexivity|].
    destruct (eff_detect pre K (s_fs s)) as [res|]; [|intros [H|H]; inversion H; reflexivity].
    destruct (files_to_analyze fsel cfg K res) as [|f fl]; [intros [H|H]; inversion H; reflexivity|].
    cbv zeta. intros H. now rewrite (presults_frame _ _ _ _ _ Hne H).
  Qed.

  Lemma pdeps_rel2 id s t :
    s_fs s = s_fs t -> s_stores s = s_stores t -> agg_of id s = agg_of id t ->
    s_fs (pdeps id s) = s_fs (pdeps id t) /\ s_stores (pdeps id s) = s_stores (pdeps id t) /\
    agg_of id (pdeps id s) = agg_of id (pdeps id t).
  Proof.
    intros Hfs Hst Ha0. pose proof Ha0 as Ha. unfold agg_of in Ha. inversion Ha as [[H1 H2 H3 H4 H5]]. clear Ha.
    unfold process_dependencies. rewrite <- H3, <- Hst, <- Hfs.
    destruct (dgetl id (s_deps s)) as [|d0 ds0] eqn:Ed; [split; [exact Hfs|split; [exact Hst|exact Ha0]]|].
    destruct (s_stores s) eqn:Es.
    - simpl. split; [reflexivity|]. split; [reflexivity|]. unfold agg_of. simpl.
      rewrite !(dget_dset_same str_eqb str_eqb_spec). congruence.
    - rewrite <- Es. destruct (snd (try_stores tb W cfg (d0 :: ds0) (s_fs s) (s_stores s))) as [c|]; simpl.
      + split; [reflexivity|]. split; [reflexivity|]. unfold agg_of. simpl.
        rewrite !dgetl_dext_same, !(dget_dset_same str_eqb str_eqb_spec). congruence.
      + split; [reflexivity|]. split; [reflexivity|]. unfold agg_of. simpl. congruence.
  Qed.

  Lemma pdeps_frame2 id s id' : id' <> id -> agg_of id' (pdeps id s) = agg_of id' s.
  Proof.
    intros Hne. unfold process_dependencies. destruct (dgetl id (s_deps s)); [reflexivity|].
    destruct (s_stores s) eqn:Es.
    - unfold agg_of. simpl. now rewrite (dget_dset_other str_eqb str_eqb_spec).
    - rewrite <- Es. destruct (snd (try_stores tb W cfg _ (s_fs s) (s_stores s))); [|reflexivity].
      unfold agg_of. simpl. rewrite dgetl_dext_other by exact Hne. now rewrite (dget_dset_other str_eqb str_eqb_spec).
  Qed.

  Lemma acodemods_frame2 pre Ks : forall s s' id', ~ In id' (map cid Ks) ->
    acodemods pre Ks s = Ok s' -> agg_of id' s' = agg_of id' s.
  Proof.
    induction Ks as [|K rest IH]; intros s s' id' Hn H; simpl in H.
    - inversion H; reflexivity.
    - destruct (acodemod pre K s) as [s1|s1] eqn:E; [|discriminate].
      assert (Hne : id' <> cid K) by (intros ->; apply Hn; now left).
      rewrite (IH _ _ id' (fun Hi => Hn (or_intror Hi)) H). rewrite pdeps_frame2 by exact Hne.
      eapply acodemod_frame2; eauto.
  Qed.

  (** ---- the chain: one fresh invocation per codemod on the evolving tree; manifests re-parsed each time ---- *)
  Variable pstores : fsys -> list store.      (* repo_manager.parse_project() of a fresh invocation *)
  Fixpoint chain (Ks : list codemod) (fs : fsys) : list run_result :=
    match Ks with
    | [] => []
    | K :: rest => let r := mrun [K] fs (pstores fs) in r :: chain rest (final_fs r)
    end.
  Fixpoint chain_fs (Ks : list codemod) (fs : fsys) : fsys :=
    match Ks with [] => fs | K :: rest => chain_fs rest (final_fs (mrun [K] fs (pstores fs))) end.

  (** H_prefilter_stable: along the chain, the prefilter taken once on the INITIAL tree leads every codemod to the same
      effective detection as a prefilter taken on the tree that codemod actually sees. *)
  Fixpoint prefilter_stable (pre0 : dict str (list path)) (Ks : list codemod) (fs : fsys) : Prop :=
    match Ks with
    | [] => True
    | K :: rest => eff_detect pre0 K fs = eff_detect (prefilter_of S cfg [K] fs) K fs /\
                   prefilter_stable pre0 rest (final_fs (mrun [K] fs (pstores fs)))
    end.
  (** H_stores_reparse: what DependencyWriter.add left in the in-memory stores is what a fresh parse of the manifests gives *)
  Definition stores_reparse (Ks : list codemod) : Prop :=
    forall K fs t, In K Ks -> mrun [K] fs (pstores fs) = Ok t -> s_stores t = pstores (s_fs t).

  Lemma batch_eq_chain_gen pre0 Ks : forall s fs,
    all_files cfg <> [] -> NoDup (map cid Ks) ->
    (forall K, In K Ks -> tries_present tb (cpipe K) = true) ->
    stores_reparse Ks -> prefilter_stable pre0 Ks fs ->
    s_fs s = fs -> s_stores s = pstores fs -> (forall K, In K Ks -> agg_empty (cid K) s) ->
    exists s', acodemods pre0 Ks s = Ok s' /\ s_fs s' = chain_fs Ks fs /\
               Forall2 (fun K r => exists t, r = Ok t /\ row_of K s' = row_of K t) Ks (chain Ks fs).
  Proof.
    induction Ks as [|K rest IH]; intros s fs Hall Hnd Ht Hre Hst Hfs Hsto Hemp.
    - simpl. exists s. split; [reflexivity|]. split; [exact Hfs|constructor].
    - cbn [apply_codemods chain chain_fs]. destruct Hst as [He Hst].
      inversion Hnd as [|? ? Hnotin Hnd']; subst.
      destruct (acodemod_no_abort tb tree parse code T S R diff fsel cfg pre0 K s (Ht K (or_introl eq_refl))) as [s1 E1].
      rewrite E1.
      (* the single run of K on fs *)
      set (t0 := init_state (s_fs s) (pstores (s_fs s))).
      assert (Ha0 : agg_of (cid K) s = agg_of (cid K) t0) by (rewrite (Hemp K (or_introl eq_refl)); reflexivity).
      destruct (acodemod_rel2 pre0 (prefilter_of S cfg [K] (s_fs s)) K s t0 s1 eq_refl Hsto Ha0 He E1) as [t1 [Et [F1 [S1 A1]]]].
      destruct (pdeps_rel2 (cid K) s1 t1 F1 S1 A1) as [F2 [S2 A2]].
      assert (Erun : mrun [K] (s_fs s) (pstores (s_fs s)) = Ok (pdeps (cid K) t1)).
      { unfold run. destruct (all_files cfg) eqn:Eall; [contradiction|]. cbn [apply_codemods]. fold t0. now rewrite Et. }
      rewrite Erun. cbn [final_fs].
      destruct (IH (pdeps (cid K) s1) (s_fs (pdeps (cid K) t1))) as [s' [Es' [Ffs Hrows]]]; auto.
      + intros K' Hin. apply Ht. now right.
      + intros K' fs' t' Hin. apply Hre. now right.
      + rewrite Erun in Hst. exact Hst.
      + rewrite S2. apply (Hre K (s_fs s) _ (or_introl eq_refl) Erun).
      + intros K' Hin. unfold agg_empty.
        assert (Hne : cid K' <> cid K). { intros Heq. apply Hnotin. rewrite <- Heq. now apply in_map. }
        rewrite pdeps_frame2 by exact Hne. rewrite (acodemod_frame2 pre0 K s s1 _ Hne (or_introl E1)).
        apply Hemp. now right.
      + exists s'. split; [exact Es'|]. split; [exact Ffs|]. constructor; [|exact Hrows].
        exists (pdeps (cid K) t1). split; [reflexivity|]. apply row_of_agg.
        rewrite (acodemods_frame2 pre0 rest _ _ (cid K) Hnotin Es'). exact A2.
  Qed.

  Lemma batch_eq_chain Ks fs :
    all_files cfg <> [] -> NoDup (map cid Ks) ->
    (forall K, In K Ks -> tries_present tb (cpipe K) = true) ->
    stores_reparse Ks -> prefilter_stable (prefilter_of S cfg Ks fs) Ks fs ->
    exists s', mrun Ks fs (pstores fs) = Ok s' /\ s_fs s' = chain_fs Ks fs /\
               Forall2 (fun K r => exists t, r = Ok t /\ row_of K s' = row_of K t) Ks (chain Ks fs).
  Proof.
    intros Hall Hnd Ht Hre Hst. unfold run at 1. destruct (all_files cfg) eqn:Eall; [contradiction|]. rewrite <- Eall in *.
    apply batch_eq_chain_gen; auto. intros K _. reflexivity.
  Qed.

  (** ---- C09_results_keyed at run level: with distinct ids, the row of K in the batch report is exactly what K's own
      step (apply + process_dependencies) recorded; no later codemod adds to or removes from it ---- *)
  Lemma results_keyed pre K rest s s1 s' :
    ~ In (cid K) (map cid rest) -> acodemod pre K s = Ok s1 -> acodemods pre rest (pdeps (cid K) s1) = Ok s' ->
    row_of K s' = row_of K (pdeps (cid K) s1) /\
    forall K', In K' rest -> cid K' <> cid K /\ agg_of (cid K') (pdeps (cid K) s1) = agg_of (cid K') s.
  Proof.
    intros Hn E1 E2. split.
    - apply row_of_agg. now apply (acodemods_frame2 pre rest _ _ (cid K) Hn).
    - intros K' Hin. assert (Hne : cid K' <> cid K). { intros Heq. apply Hn. rewrite <- Heq. now apply in_map. }
      split; [exact Hne|]. rewrite pdeps_frame2 by exact Hne. eapply acodemod_frame2; eauto.
  Qed.

  (** ---- C09_cache_irrelevant: no run creates or deletes a path, so anything computed from the SET of existing paths
      (files_to_analyze, find_and_fix_paths: cached once per run) equals its recomputation at any later point ---- *)
  Hypothesis HW : forall k ds, W k None ds = None.      (* a writer does not create a missing manifest *)
  Definition dom_eq (a b : fsys) : Prop := forall p, lookup a p = None <-> lookup b p = None.
  Lemma dom_eq_refl a : dom_eq a a. Proof. intros p. tauto. Qed.
  Lemma dom_eq_trans a b c : dom_eq a b -> dom_eq b c -> dom_eq a c.
  Proof. intros H1 H2 p. rewrite (H1 p). apply H2. Qed.
  Lemma dom_eq_fwrite fs p b : lookup fs p <> None -> dom_eq fs (fwrite fs p b).
  Proof.
    intros Hex q. rewrite lookup_fwrite. destruct (str_eqb_spec q p) as [->|Hne]; [|tauto].
    split; [contradiction|discriminate].
  Qed.

  Lemma mfiles_dom K res : forall files fs, dom_eq fs (snd (mfiles K res fs files)).
  Proof.
    induction files as [|p rest IH]; intros fs; [apply dom_eq_refl|].
    rewrite mfiles_cons. cbn [snd]. eapply dom_eq_trans; [|apply IH]. rewrite pfile_snd.
    destruct (snd (file_step tb tree parse code T diff cfg K res p (lookup fs p))) as [b'|] eqn:Ew; [|apply dom_eq_refl].
    apply dom_eq_fwrite. apply fstep_write in Ew. destruct Ew as [_ [b [t [Hc _]]]]. rewrite Hc. discriminate.
  Qed.

  Lemma tstores_dom ds : forall stores fs, dom_eq fs (snd (fst (try_stores tb W cfg ds fs stores))).
  Proof.
    induction stores as [|st rest IH]; intros fs; simpl; [apply dom_eq_refl|].
    destruct (attempt W ds fs st) as [[[b' d] chs]|] eqn:Ea; simpl; [|apply IH].
    destruct (_ && _); [apply dom_eq_refl|]. apply dom_eq_fwrite.
    unfold attempt in Ea. destruct (new_deps st ds); [discriminate|]. intros Hn. rewrite Hn, HW in Ea. discriminate.
  Qed.

  Lemma acodemods_dom pre Ks : forall s r, acodemods pre Ks s = r -> dom_eq (s_fs s) (final_fs r).
  Proof.
    induction Ks as [|K rest IH]; intros s r Hr; simpl in Hr; [subst; apply dom_eq_refl|].
    assert (Hstep : forall s1, acodemod pre K s = Ok s1 \/ acodemod pre K s = Aborted s1 -> dom_eq (s_fs s) (s_fs s1)).
    { intros s1 H. rewrite acodemod_eff in H. destruct (negb (cavail K)); [destruct H as [H|H]; inversion H; apply dom_eq_refl|].
      destruct (eff_detect pre K (s_fs s)) as [res|]; [|destruct H as [H|H]; inversion H; apply dom_eq_refl].
      destruct (files_to_analyze fsel cfg K res) as [|f fl]; [destruct H as [H|H]; inversion H; apply dom_eq_refl|].
      cbv zeta in H. apply presults_fs in H. destruct H as [H _]. rewrite H. cbn [s_fs with_fs]. apply mfiles_dom. }
    destruct (acodemod pre K s) as [s1|s1] eqn:E.
    - eapply dom_eq_trans; [apply Hstep; now left|]. eapply dom_eq_trans; [|apply (IH _ _ Hr)].
      unfold process_dependencies. destruct (dgetl (cid K) (s_deps s1)); [apply dom_eq_refl|].
      destruct (s_stores s1) eqn:Es; [apply dom_eq_refl|]. rewrite <- Es.
      destruct (snd (try_stores tb W cfg _ (s_fs s1) (s_stores s1))); simpl; apply tstores_dom.
    - subst. simpl. apply Hstep. now right.
  Qed.

  Lemma cache_irrelevant (X : Type) (list_files : fsys -> X) Ks fs stores :
    (forall a b, dom_eq a b -> list_files a = list_files b) ->
    list_files (final_fs (mrun Ks fs stores)) = list_files fs.
  Proof.
    intros Hl. symmetry. apply Hl. unfold run. destruct (all_files cfg); [apply dom_eq_refl|].
    eapply (acodemods_dom _ Ks (init_state fs stores)). reflexivity.
  Qed.
End C09.

(** ---- the hypothesis is needed: an abstract pair where the first codemod creates a match for the second ---- *)
Definition w9_T (K : codemod) (t : bytes) (fi : option (list finding)) : outcome bytes :=
  match cid K, t with
  | [1%N], 6%N :: r => Changed (1%N :: r) [(1%N, [])] []       (* K1 rewrites 6.. into 1.. *)
  | [2%N], 1%N :: r => Changed (2%N :: r) [(1%N, [])] []       (* K2 (semgrep-detected: its rule flags 1..) rewrites 1.. into 2.. *)
  | _, _ => NoChange
  end.
Definition w9_K1 := toy_codemod 1 PLibcst DNone.
Definition w9_K2 := toy_codemod 2 PLibcst DSemgrep.
Definition w9_fs : fsys := [([97%N], [6%N]); ([98%N], [1%N])].
Definition w9_cfg := toy_cfg false [[97%N]; [98%N]].
Definition w9_run tb := run tb bytes toy_parse toy_code w9_T toy_S toy_R toy_diff toy_W toy_fsel w9_cfg.
