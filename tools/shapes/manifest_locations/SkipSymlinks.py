# src/codemodder/project_analysis/file_parsers/base_parser.py (proposed_fixes/manifest-selection.diff): BaseParser.find_file_locations
class BaseParser:
    def find_file_locations(self) -> List[Path]:
        # like `files_for_directory`: a symlinked file may live outside the project
        return [
            path
            for path in Path(self.parent_directory).rglob(self.file_type.value)
            if not path.is_symlink()
        ]
