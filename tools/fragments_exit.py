# Fragments for Model/Exit.v (C20): the exit-status chain of codemodder.run, ArgumentParser.error, write_report,
# --max-workers validation, the places where the exceptions turned into statuses are raised.
# exec'd inside tools/translate.py: shape/literal/custom/Unrecognised/norm_dump/find_def/find_assign/SHAPES are in scope.
TABLE_IMPORTS.append("From CM Require Import Base.Types_Exit.")

_EXIT_GROUP_OF_DEST = {"sonar_issues_json": "GrSonarIssues", "sonar_hotspots_json": "GrSonarHotspots",
                       "defectdojo_findings_json": "GrDefectDojo", "contrast_vulnerabilities_xml": "GrContrast"}


def _exit_int_return(stmts, what):
    """a guard body is `[log calls]; return <int>`"""
    body = [s for s in stmts if not _is_log_call(s) and not _is_docstring(s)]
    if len(body) == 1 and isinstance(body[0], ast.Return) and isinstance(body[0].value, ast.Constant) \
            and type(body[0].value.value) is int:
        return body[0].value.value
    raise Unrecognised(f"{what}: body is not `log...; return <int>`")


def _exit_is_call(e, dotted):
    return isinstance(e, ast.Call) and ast.unparse(e.func) == dotted


def _exit_not_exists(test, arg_src):
    return isinstance(test, ast.UnaryOp) and isinstance(test.op, ast.Not) and _exit_is_call(test.operand, "os.path.exists") \
        and len(test.operand.args) == 1 and not test.operand.keywords and ast.unparse(test.operand.args[0]) == arg_src


def _exit_has_return(node):
    return any(isinstance(n, (ast.Return, ast.Raise, ast.Try)) or (isinstance(n, ast.Call) and ast.unparse(n.func) in ("sys.exit", "exit", "os._exit"))
               for n in ast.walk(node))


def _exit_skeleton(run):
    """-> (plain, guards, facts): plain = normalised dumps of the statements that are not guards, in order;
    guards = [(guard_id, code, number of plain statements before it)] in source order; facts = dict"""
    plain, guards, facts = [], [], {"write_used": None, "groups_extra": [], "write_cmp": None}

    def add_plain(s):
        if _exit_has_return(s):
            raise Unrecognised("a statement of run that is not a known guard contains return/raise/try/sys.exit: " + ast.unparse(s)[:120])
        plain.append(norm_dump(s))

    body = [s for s in run.body if not _is_docstring(s) and not _is_log_call(s)]
    if not body or not (isinstance(body[-1], ast.Return) and isinstance(body[-1].value, ast.Constant) and body[-1].value.value == 0
                        and type(body[-1].value.value) is int):
        raise Unrecognised("run does not end with `return 0`")
    for s in body[:-1]:
        if isinstance(s, ast.If) and not s.orelse and _exit_not_exists(s.test, "argv.directory"):
            guards.append(("GDirMissing", _exit_int_return(s.body, "directory check"), len(plain)))
        elif isinstance(s, ast.Try):
            if s.orelse or s.finalbody or len(s.handlers) != 1 or len(s.body) != 1:
                raise Unrecognised("try statement of run is not `try: <one statement> except <E>: ...; return <int>`")
            h = s.handlers[0]
            inner = s.body[0]
            src = ast.unparse(inner)
            names = sorted(ast.unparse(e) for e in (h.type.elts if isinstance(h.type, ast.Tuple) else [h.type])) if h.type else ["<bare>"]
            code = _exit_int_return(h.body, "except handler")
            if "detect_sarif_tools(" in src and names == ["DuplicateToolError", "FileNotFoundError"]:
                guards.append(("GSarifError", code, len(plain)))
            elif "CodemodExecutionContext(" in src and names == ["MisconfiguredAIClient"]:
                guards.append(("GAIMisconfigured", code, len(plain)))
            else:
                raise Unrecognised(f"try/except {names} around `{src[:60]}` is not a known guard")
            add_plain(inner)
        elif isinstance(s, ast.For):
            it = s.iter
            if not (_exit_is_call(it, "itertools.chain") and it.args and isinstance(it.args[0], ast.Starred)
                    and ast.unparse(it.args[0].value) == "tool_result_files_map.values()" and not it.keywords and not s.orelse
                    and isinstance(s.target, ast.Name) and len(s.body) == 1 and isinstance(s.body[0], ast.If) and not s.body[0].orelse
                    and _exit_not_exists(s.body[0].test, s.target.id)):
                raise Unrecognised("for loop of run is not the result-file existence loop")
            for extra in it.args[1:]:
                m = None
                if isinstance(extra, ast.BoolOp) and isinstance(extra.op, ast.Or) and len(extra.values) == 2 \
                        and ast.unparse(extra.values[1]) == "[]" and ast.unparse(extra.values[0]).startswith("argv."):
                    m = ast.unparse(extra.values[0])[5:]
                if m not in _EXIT_GROUP_OF_DEST:
                    raise Unrecognised("extra argument of itertools.chain in the existence loop is not `argv.<result option> or []`")
                facts["groups_extra"].append(_EXIT_GROUP_OF_DEST[m])
            guards.append(("GResultFileMissing", _exit_int_return(s.body[0].body, "result-file check"), len(plain)))
        elif isinstance(s, ast.If) and not s.orelse and ast.unparse(s.test) == "argv.output":
            inner = [x for x in s.body if not _is_log_call(x)]
            if len(inner) != 2:
                raise Unrecognised("`if argv.output:` block is not `codetf = CodeTF.build(...); <write_report>`")
            add_plain(inner[0])
            w = inner[1]
            call_src = "codetf.write_report(argv.output)"
            if isinstance(w, ast.Expr) and ast.unparse(w.value) == call_src:
                facts["write_used"] = False
            elif isinstance(w, ast.If) and not w.orelse and isinstance(w.test, ast.Compare) and len(w.test.ops) == 1 \
                    and isinstance(w.test.ops[0], ast.Eq) and ast.unparse(w.test.left) == call_src \
                    and isinstance(w.test.comparators[0], ast.Constant) and type(w.test.comparators[0].value) is int:
                facts["write_used"] = True
                facts["write_cmp"] = w.test.comparators[0].value
                guards.append(("GReportWrite", _exit_int_return(w.body, "write_report status"), len(plain)))
            else:
                raise Unrecognised("the statement after CodeTF.build is neither `codetf.write_report(argv.output)` nor `if codetf.write_report(argv.output) == <int>: return <int>`")
            plain.append("<output-block-end>")
        else:
            add_plain(s)
    if facts["write_used"] is None:
        raise Unrecognised("no `if argv.output:` block in run")
    return plain, guards, facts


_EXIT_CACHE = {}


def _exit_analyse(tree, repo):
    key = str(repo)
    if key in _EXIT_CACHE:
        return _EXIT_CACHE[key]
    run = find_def(tree, "run")
    if run is None:
        raise Unrecognised("codemodder.run not found")
    ref_tree = ast.parse((SHAPES / "exit_run" / "Reference.py").read_text())
    ref_plain, ref_guards, _ = _exit_skeleton(find_def(ref_tree, "run"))
    plain, guards, facts = _exit_skeleton(run)
    if plain != ref_plain:
        k = next((i for i, (a, b) in enumerate(zip(plain, ref_plain)) if a != b), min(len(plain), len(ref_plain)))
        raise Unrecognised(f"the statements of run between the guards differ from the known ones (first difference at plain statement #{k})")
    ref_pos = {g: p for g, _, p in ref_guards}
    for g, _, p in guards:
        if ref_pos.get(g) != p:
            raise Unrecognised(f"guard {g} is not at its known place in run")
    if len({g for g, _, _ in guards}) != len(guards):
        raise Unrecognised("a guard occurs twice in run")
    # write_report's own failure status (codetf.py) must be the value run compares with
    ct = ast.parse((Path(repo) / "src/codemodder/codetf.py").read_text(encoding="utf-8"))
    wr = find_def(ct, "CodeTF.write_report")
    if wr is None:
        raise Unrecognised("CodeTF.write_report not found")
    known_wr = norm_dump(find_def(ast.parse((SHAPES / "exit_write_report" / "Known.py").read_text()), "CodeTF.write_report"))
    if norm_dump(wr) != known_wr:
        raise Unrecognised("CodeTF.write_report is not `try: open/write except Exception: return 2` / `return 0`")
    if facts["write_used"] and facts["write_cmp"] != 2:
        raise Unrecognised("run compares write_report(...) with a value that write_report never returns on failure")
    groups = (["GrSonarIssues", "GrSonarHotspots", "GrDefectDojo"] + facts["groups_extra"]) if any(g == "GResultFileMissing" for g, _, _ in guards) else []
    res = {"chain": [(g, c) for g, c, _ in guards], "write_used": facts["write_used"], "groups": groups}
    _EXIT_CACHE[key] = res
    return res


def _exit_chain_printer(chain):
    if not chain:
        return "([] : list (guard_id * Z))"
    return "[" + "; ".join(f"({g}, ({c})%Z)" for g, c in chain) + "]"


custom("exit_chain", "src/codemodder/codemodder.py", ["C20"], "exit_chain", "list (guard_id * Z)",
       [("GDirMissing", 1), ("GSarifError", 1), ("GResultFileMissing", 1), ("GAIMisconfigured", 3), ("GReportWrite", 2)],
       lambda tree, repo: _exit_analyse(tree, repo)["chain"], printer=_exit_chain_printer,
       doc="run: the guarded `return <int>` statements in source order (everything between them is checked to be the known statements)")
custom("exit_write_used", "src/codemodder/codemodder.py", ["C20"], "write_report_status_used", "bool", True,
       lambda tree, repo: _exit_analyse(tree, repo)["write_used"], printer=lambda b: "true" if b else "false",
       doc="run: the value of codetf.write_report(argv.output) reaches a return")
custom("exit_checked_groups", "src/codemodder/codemodder.py", ["C20"], "exit_checked_groups", "list result_group",
       ["GrSonarIssues", "GrSonarHotspots", "GrDefectDojo", "GrContrast"],
       lambda tree, repo: _exit_analyse(tree, repo)["groups"],
       printer=lambda l: "[" + "; ".join(l) + "]" if l else "([] : list result_group)",
       doc="run: result-file options whose files go through the os.path.exists loop")


def _exit_argparse_code(tree, repo):
    fn = find_def(tree, "ArgumentParser.error")
    if fn is None:
        raise Unrecognised("cli.ArgumentParser.error not found (argparse's own error() exits with 2)")
    body = [s for s in fn.body if not _is_docstring(s) and not _is_log_call(s)]
    if len(body) == 2 and ast.unparse(body[0]) == "self.print_help(sys.stderr)" and isinstance(body[1], ast.Expr) \
            and _exit_is_call(body[1].value, "sys.exit") and len(body[1].value.args) == 1 \
            and isinstance(body[1].value.args[0], ast.Constant) and type(body[1].value.args[0].value) is int:
        cls = find_def(tree, "ArgumentParser")
        if [ast.unparse(b) for b in cls.bases] != ["argparse.ArgumentParser"]:
            raise Unrecognised("cli.ArgumentParser does not derive from argparse.ArgumentParser")
        pa = find_def(tree, "parse_args")
        if pa is None or "parser = ArgumentParser(" not in ast.unparse(pa) or "return parser.parse_args(argv)" not in ast.unparse(pa):
            raise Unrecognised("parse_args does not build an ArgumentParser and return parser.parse_args(argv)")
        return body[1].value.args[0].value
    raise Unrecognised("ArgumentParser.error is not `print_help; log; sys.exit(<int>)`")


custom("exit_argparse_code", "src/codemodder/cli.py", ["C20"], "argparse_error_code", "Z", 3,
       _exit_argparse_code, printer=lambda n: f"({n})%Z", doc="ArgumentParser.error: sys.exit(<code>)")


def _exit_workers_validated(tree, repo):
    pa = find_def(tree, "parse_args")
    if pa is None:
        raise Unrecognised("cli.parse_args not found")
    calls = [n for n in ast.walk(pa) if isinstance(n, ast.Call) and ast.unparse(n.func).endswith(".add_argument")
             and n.args and isinstance(n.args[0], ast.Constant) and n.args[0].value == "--max-workers"]
    if len(calls) != 1:
        raise Unrecognised("expected exactly one add_argument('--max-workers', ...)")
    ty = [k.value for k in calls[0].keywords if k.arg == "type"]
    if len(ty) != 1 or not isinstance(ty[0], ast.Name):
        raise Unrecognised("--max-workers has no `type=<name>`")
    if ty[0].id == "int":
        return False
    fn = find_def(tree, ty[0].id)
    known = norm_dump(find_def(ast.parse((SHAPES / "exit_positive_int" / "Known.py").read_text()), "positive_int"))
    if fn is not None:
        import copy
        f2 = copy.deepcopy(fn)
        f2.name = "positive_int"
        if norm_dump(f2) == known:
            return True
    raise Unrecognised(f"type function {ty[0].id} of --max-workers is not a known one")


custom("exit_workers_validated", "src/codemodder/cli.py", ["C20"], "max_workers_validated", "bool", True,
       _exit_workers_validated, printer=lambda b: "true" if b else "false",
       doc="parse_args: --max-workers is parsed by a type that rejects values <= 0 (plain int accepts them)")

shape("exit_main", "src/codemodder/codemodder.py", ["C20"], "main_exits_with_run_status", "bool", "true", ["main"],
      doc="main: sys.exit(run(sys.argv[1:]))")
shape("exit_llm_setup", "src/codemodder/llm.py", ["C20"], "ai_env_consistency_checked", "bool", "true",
      ["setup_openai_llm_client", "setup_azure_llama_llm_client"],
      doc="setup_*_llm_client raise MisconfiguredAIClient iff exactly one of key/endpoint is set")
shape("exit_detect_sarif", "src/codemodder/sarifs.py", ["C20"], "sarif_detection_known", "bool", "true", ["detect_sarif_tools"],
      doc="detect_sarif_tools: read_text/json.loads unguarded, DuplicateToolError on a second file of one tool")

shape("exit_semgrep_run", "src/codemodder/semgrep.py", ["C20"], "semgrep_targets_filtered", "bool", "false", ["_scannable", "run"],
      doc="semgrep.run: a non-zero exit of `semgrep scan` is re-raised (CalledProcessError); true = targets semgrep would refuse "
          "(missing, no owner-read bit) are skipped first, false = every path is handed over")
