"""C15 — reusable checker of one CodeTF report against the vendored schema and against the tree it was produced from.

    from harness.c15_checker import check_report
    problems = check_report(report_dict, project_root, executed_ids)      # [] when the report is fine

Every problem is a string "<class>: <message>"; the class is the finding class (`kf_c15_…`) that harness/c15.py passes to
ctx.violation, so other harnesses can forward them unchanged:

    for p in check_report(rep, root, ids):
        ctx.violation(p.split(":", 1)[0], p, replay)
"""
from __future__ import annotations

import json
import os
import re
from functools import lru_cache
from pathlib import Path

VERIF = Path(__file__).resolve().parents[1]
SCHEMA_FILE = VERIF / "vendor" / "codetf.schema.json"

K_SCHEMA = "kf_c15_schema"
K_ORDER = "kf_c15_results_order"
K_RESULT = "kf_c15_result_fields"
K_CHANGESET = "kf_c15_changeset"
K_DESC = "kf_c15_change_description"
K_LINE = "kf_c15_line_outside_file"
K_LINE_MANIFEST = "kf_c15_manifest_line_outside_"      # + manifest file name (requirements_txt, setup_cfg, …)
K_OVERLAP = "kf_c15_failed_and_changed"
K_OVERLAP_MANIFEST = "kf_c15_manifest_failed_and_changed"
K_SAST = "kf_c15_sast_metadata"
MANIFESTS = ("requirements.txt", "setup.py", "setup.cfg", "pyproject.toml")


@lru_cache(maxsize=1)
def schema():
    return json.loads(SCHEMA_FILE.read_text())


@lru_cache(maxsize=1)
def _validator():
    import jsonschema
    return jsonschema.Draft7Validator(schema())


def schema_errors(report) -> list[str]:
    out = []
    for e in sorted(_validator().iter_errors(report), key=lambda e: list(map(str, e.absolute_path))):
        out.append("/".join(map(str, e.absolute_path)) + ": " + e.message[:160])
    return out


@lru_cache(maxsize=1)
def registry_info():
    """codemod id -> (tool name | None, [rule ids]) from the registered codemods of the implementation under test."""
    try:
        from codemodder import registry
        info = {}
        for c in registry.load_registered_codemods().codemods:
            tool = c._metadata.tool
            info[c.id] = (tool.name if tool else None, [r.id for r in tool.rules] if tool else [])
        return info
    except Exception:  # pragma: no cover - the checker must stay usable without the implementation
        return {}


def exact_lines(data: bytes) -> int:
    """Number of lines of a text: pieces between line terminators, an empty piece after the final terminator not counted."""
    parts = re.split(r"\r\n|\r|\n", data.decode("utf-8", errors="replace"))
    if parts and parts[-1] == "":
        parts.pop()
    return len(parts)


def diff_delta(diff: str) -> int:
    """lines added minus lines removed by a unified diff"""
    add = sum(1 for l in diff.splitlines() if l.startswith("+") and not l.startswith("+++"))
    rem = sum(1 for l in diff.splitlines() if l.startswith("-") and not l.startswith("---"))
    return add - rem


def _rel_failed(f: str, root: Path, cwd: Path | None) -> str:
    p = Path(f)
    if not p.is_absolute():
        p = (cwd or Path.cwd()) / p
    try:
        return os.path.relpath(os.path.realpath(p), os.path.realpath(root))
    except ValueError:
        return f


def check_report(report: dict, project_root, executed_ids, *, before: dict | None = None, cwd=None,
                 codemod_info: dict | None = None, check_tree: bool = True) -> list[str]:
    """report: the parsed --output file.  project_root: the directory given to the CLI (as it is AFTER the run).
    executed_ids: codemod ids in execution order (from the `running codemod` log lines, or the selected list when no file
    was scanned); None to skip the order check.  before: relpath -> bytes of the tree before the run (line bounds of the
    original text; without it only the tree after the run is used).  codemod_info: id -> (tool|None, [rule ids]) to override
    the registry (synthetic codemods)."""
    problems: list[str] = []
    root = Path(project_root) if project_root is not None else None
    for e in schema_errors(report):
        problems.append(f"{K_SCHEMA}: {e}")
    if not isinstance(report, dict) or not isinstance(report.get("results"), list):
        return problems
    results = [r for r in report["results"] if isinstance(r, dict)]
    ids = [r.get("codemod") for r in results]
    if executed_ids is not None and ids != list(executed_ids):
        problems.append(f"{K_ORDER}: results are {ids} but the executed codemods were {list(executed_ids)}")
    info = dict(registry_info()) if codemod_info is None else dict(codemod_info)
    cur_len: dict = {}     # path -> number of lines after the codemods seen so far (real runs, `before` given)
    for r in results:
        cid = r.get("codemod")
        for k in ("codemod", "summary", "description", "references"):
            if k not in r:
                problems.append(f"{K_RESULT}: result of {cid} has no `{k}`")
        changed = []
        for cs in r.get("changeset") or []:
            if not isinstance(cs, dict):
                continue
            path = cs.get("path")
            where = f"{cid}: changeset {path!r}"
            if not isinstance(path, str) or not path or os.path.isabs(path) or ".." in Path(path).parts:
                problems.append(f"{K_CHANGESET}: {where}: path is not a project-relative path")
                continue
            changed.append(os.path.normpath(path))
            if not cs.get("diff"):
                problems.append(f"{K_CHANGESET}: {where}: empty diff")
            changes = cs.get("changes") or []
            if not changes:
                problems.append(f"{K_CHANGESET}: {where}: no change entry")
            # the line bound, EXACT: a change names a line of the text the codemod read or of the text it produced.
            # Reports list results in execution order, so with the tree before the run the length of the file as each
            # codemod found it is tracked through the diffs (real run); in a dry run every codemod sees the original.
            adata = bdata = None
            if root is not None and check_tree:
                f = root / path
                if not f.is_file():
                    problems.append(f"{K_CHANGESET}: {where}: no such file in the project")
                else:
                    adata = f.read_bytes()
            if before is not None and path in before:
                bdata = before[path] if isinstance(before[path], bytes) else str(before[path]).encode()
            delta = diff_delta(cs.get("diff") or "")
            if bdata is not None:
                left_alone = adata is None or adata == bdata
                pre = exact_lines(bdata) if left_alone else cur_len.get(path, exact_lines(bdata))
                post = pre + delta
                if not left_alone:
                    cur_len[path] = post
                bound = max(pre, post)
            elif adata is not None:
                bound = max(exact_lines(adata), exact_lines(adata) - delta)
            else:
                bound = None
            line_cls = K_LINE
            # A manifest changeset comes from the dependency manager: its changes name lines ADDED to the manifest, so they
            # must be lines of the manifest as rewritten: the file after the run, or (file left alone: --dry-run) the
            # original plus what the diff adds.  Exact count, no slack.
            if Path(path).name in MANIFESTS and any(isinstance(ch, dict) and ch.get("packageActions") for ch in changes):
                bdata = None
                if before is not None and path in before:
                    bdata = before[path] if isinstance(before[path], bytes) else str(before[path]).encode()
                adata = (root / path).read_bytes() if (root is not None and check_tree and (root / path).is_file()) else None
                new_n = None
                if adata is not None and (bdata is None or adata != bdata):
                    new_n = exact_lines(adata)
                elif bdata is not None:
                    new_n = exact_lines(bdata) + diff_delta(cs.get("diff") or "")
                if new_n is not None:
                    bound = new_n
                    line_cls = K_LINE_MANIFEST + re.sub(r"\W", "_", Path(path).name)
            for ch in changes:
                if not isinstance(ch, dict):
                    continue
                ln = ch.get("lineNumber")
                if not isinstance(ch.get("description"), str) or not ch.get("description"):
                    problems.append(f"{K_DESC}: {where}: change at line {ln} has no (non-empty) description")
                if not isinstance(ln, int) or isinstance(ln, bool) or ln < 1:
                    problems.append(f"{K_CHANGESET}: {where}: lineNumber {ln!r} is not >= 1")
                elif bound is not None and ln > bound:
                    problems.append(f"{line_cls}: {where}: lineNumber {ln} but the file has {bound} lines")
                tool, rules = info.get(cid, (None, None))
                for fd in ch.get("findings") or []:
                    if not isinstance(fd, dict):
                        continue
                    rid = (fd.get("rule") or {}).get("id") if isinstance(fd.get("rule"), dict) else None
                    if not fd.get("id") or not rid:
                        problems.append(f"{K_SAST}: {where}: finding without id / rule.id at line {ln}")
                    elif tool and rules and rid not in rules:
                        problems.append(f"{K_SAST}: {where}: finding rule {rid!r} is not a rule of {cid} ({rules})")
        # failed and changed files are disjoint
        if root is not None:
            failed = {_rel_failed(f, root, Path(cwd) if cwd else None) for f in (r.get("failedFiles") or []) if isinstance(f, str)}
            for p in sorted(failed & set(changed)):
                cls = K_OVERLAP_MANIFEST if Path(p).name in MANIFESTS else K_OVERLAP
                problems.append(f"{cls}: {cid}: {p} is both in failedFiles and in the changeset")
        # SAST: the detection tool
        if cid in info:
            tool, rules = info[cid]
            got = (r.get("detectionTool") or {}).get("name") if isinstance(r.get("detectionTool"), dict) else None
            if tool and got != tool:
                problems.append(f"{K_SAST}: {cid}: detectionTool.name is {got!r}, the codemod's tool is {tool!r}")
            if not tool and "detectionTool" in r:
                problems.append(f"{K_SAST}: {cid}: detectionTool {got!r} on a codemod without detection tool")
        for u in r.get("unfixedFindings") or []:
            if isinstance(u, dict) and isinstance(u.get("path"), str) and os.path.isabs(u["path"]):
                problems.append(f"{K_CHANGESET}: {cid}: unfixed finding path {u['path']!r} is not project-relative")
    return problems


def executed_ids_from_log(stdout: str, stderr: str = "") -> list[str]:
    """ids in the order of the `running codemod <id>` progress lines."""
    return re.findall(r"running codemod (\S+)", stdout + "\n" + stderr)


def selected_ids_from_log(stdout: str, stderr: str = "") -> list[str]:
    """ids of the `running:` list of the setup section (the codemods selected for the run)."""
    text = stdout + "\n" + stderr
    m = re.search(r"^running:\s*\n((?:\s+- .*\n)*)", text, flags=re.M)
    return re.findall(r"^\s+- (\S+)", m.group(1), flags=re.M) if m else []


# ------------------------------------------------------------------------------------------------
# Hook for the harnesses of the OTHER properties (DESIGN §5 C15 "Tie"): every report a check obtains from a real CLI run
# that exited 0 goes through check_report.
# ------------------------------------------------------------------------------------------------
@lru_cache(maxsize=1)
def _known_c15_classes():
    from harness import core
    return {e["class"] for e in core.load_known("C15") if e.get("status") == "known"}


def feed_report(ctx, report, project_root, *, rc=0, stdout="", stderr="", before=None, cwd=None, replay=None, check_tree=True,
                label=""):
    """Call right after a real CLI run with --output, while the project directory still exists.
    report: the parsed report (dict), or a path to the report file, or the string "INVALID-JSON".
    rc: exit status of the run (only runs that return 0 are in C15's quantifier; others are ignored).
    stdout/stderr: the run's output (result order is compared with the `running codemod` lines when given).
    before: relpath -> bytes|str of the project before the run (exact line bounds); check_tree=False when the project
    directory is already gone.  replay: what the caller would put in a replay file (project, argv).
    A problem whose class is a listed C15 known finding is only counted; any other is reported through ctx.violation with
    its C15 class (a concrete failing input of the implementation, found by this check's own run).  Returns the problems."""
    if rc != 0:
        return []
    ctx.count("c15_feed:reports")
    if isinstance(report, (str, os.PathLike)) and report != "INVALID-JSON":
        try:
            report = json.loads(Path(report).read_text(encoding="utf-8"))
        except FileNotFoundError:
            return []          # no --output given / nothing written: not C15's business (C20's)
        except Exception:
            report = "INVALID-JSON"
    if report == "INVALID-JSON" or not isinstance(report, dict):
        problems = [f"{K_SCHEMA}: the report file is not a JSON object"]
    else:
        executed = executed_ids_from_log(stdout, stderr) if (stdout or stderr) else None
        if executed is not None and not executed:
            executed = selected_ids_from_log(stdout, stderr) or None
        problems = check_report(report, project_root, executed, before=before, cwd=cwd, check_tree=check_tree)
    known = _known_c15_classes()
    for p in problems:
        cls = p.split(":", 1)[0]
        if cls in known:
            ctx.count("c15_feed:known:" + cls)
            continue
        body = dict(replay or {})
        body.update({"c15_problem": p, "label": label, "expected": "the report of this run satisfies C15 (harness/c15_checker.check_report)"})
        ctx.violation(cls, f"C15 on a report produced by this check{(' (' + label + ')') if label else ''}: {p}", body)
    return problems
