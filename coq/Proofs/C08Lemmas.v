(** Statements of the C08 kernel theorems, indexed by the table values, and their proofs for every table value:
    positive parts from Proofs/RewriteSound.v + Proofs/MiniPyFacts.v, negative parts by concrete witnesses. *)
From CM Require Import Model.MiniPy Model.PySem Model.Rewrites Spec.RewritesSpec
  Proofs.PySemFacts Proofs.MiniPyFacts Proofs.RewriteSound.
From Coq Require Import String.

(** what CPython computes from the printed text of a libcst-shaped tree *)
Definition meaning (rho : env) (t : expr) : result := eval rho (norm t).
Lemma meaning_safe rho t : paren_safe t = true -> meaning rho t = eval rho t.
Proof. intros H. unfold meaning. rewrite (norm_paren_safe t H). apply eval_allpar. Qed.

(** a kernel [rw] preserves the behaviour of [e] in [rho] *)
Definition preserves (rw : expr -> expr) (rho : env) (e : expr) : Prop := meaning rho (rw e) = meaning rho e.
(** the shape of every negative statement: a fully parenthesised, well-formed program whose behaviour changes *)
Definition changes (rw : expr -> expr) (rho : env) (e : expr) : Prop :=
  is_allpar e = true /\ wf e = true /\ meaning rho (rw e) <> meaning rho e.

(** the printed text parses back to the tree that was built (decidable; implied by [paren_safe], and true of every tree
    printed with the minimal parentheses Python's precedences need) *)
Definition parses_as_built (t : expr) : Prop := norm t = allpar t.
Lemma paren_safe_built t : paren_safe t = true -> parses_as_built t.
Proof. apply norm_paren_safe. Qed.
Lemma meaning_built rho t : parses_as_built t -> meaning rho t = eval rho t.
Proof. intros H. unfold meaning. rewrite H. apply eval_allpar. Qed.
Lemma lift_tree_level (rw : expr -> expr) rho e :
  parses_as_built e -> parses_as_built (rw e) -> eval rho (rw e) = eval rho e -> preserves rw rho e.
Proof. intros S S' H. unfold preserves. rewrite !meaning_built by assumption. exact H. Qed.

(** * witnesses *)
Definition s (x : string) : str := lit x.
Definition sw (r : N) (a : expr) : expr := EMeth r Startswith [a].
Definition cs (x : string) : expr := EConst (CStr (lit x)).
Definition ci (z : Z) : expr := EConst (CInt z).

(** c1 or (c2 and z)  with v0 = "xy", v2 = False *)
Definition w_regroup_env : env := [(0%N, VStr (s "xy")); (2%N, VBool false)].
Definition w_regroup : expr := EBool true BOr (sw 0 (cs "x")) (EBool true BAnd (sw 0 (cs "q")) (EName 2)).
(** v0.startswith(v3) or v0.startswith("y")  with v3 = ("x",) *)
Definition w_tuple_env : env := [(0%N, VStr (s "xy")); (3%N, VTuple [VStr (s "x")])].
Definition w_tuple : expr := EBool true BOr (sw 0 (EName 3)) (sw 0 (cs "y")).
(** v0.startswith("x") or v0.startswith(v7)  with v7 unbound *)
Definition w_eager_env : env := [(0%N, VStr (s "xy"))].
Definition w_eager : expr := EBool true BOr (sw 0 (cs "x")) (sw 0 (EName 7)).
(** not (c1 or (c2 or v2))  with v2 = 0 *)
Definition w_cparens_env : env := [(0%N, VStr (s "xy")); (2%N, VInt 0)].
Definition w_cparens : expr := ENot true (EBool true BOr (sw 0 (cs "x")) (EBool true BOr (sw 0 (cs "q")) (EName 2))).

Definition w_chain : expr := ENot true (ECmp true (ci 1) [(Eq, ci 1); (Eq, ci 2)]).              (* not 1 == 1 == 2 *)
Definition w_sets : expr := ENot true (ECmp true (ESet [ci 1]) [(Lt, ESet [ci 2])]).               (* not {1} < {2} *)
Definition w_nan : expr := ENot true (ECmp true (ci 0) [(GtE, EConst CNaN)]).                      (* not 0 >= NAN *)
Definition w_default : expr := ENot true (ECmp true (EName 1) [(In, EList [EName 2])]).            (* not v1 in [v2] *)
Definition w_is_env : env := [(0%N, VInt 1)].
Definition w_is : expr := ENot true (ECmp true (EName 0) [(Is, EConst (CBool true))]).             (* not v0 is True, v0 = 1 *)
Definition w_iparens_env : env := [(1%N, VInt 1); (2%N, VInt 1)].
Definition w_iparens : expr :=                                                                     (* (not v1 == v2) == False *)
  ECmp true (ENot true (ECmp true (EName 1) [(Eq, EName 2)])) [(Eq, EConst (CBool false))].

Definition w_short : expr :=                                                                       (* any([1 // v5 for v5 in [1, 0]]) *)
  ECall BAny [EListComp (EFloorDiv (ci 1) (EName 5)) 5 (EList [ci 1; ci 0])].
Definition w_dropped : expr :=                                                                     (* sum([v5 for v5 in [1, 2]], 10) *)
  ECall BSum [EListComp (EName 5) 5 (EList [ci 1; ci 2]); ci 10].

Definition w_hasattr_env : env := [(0%N, VObj 2 [] [call_attr])].
Definition w_hasattr : expr := ECall BHasattr [EName 0; call_lit].                                 (* hasattr(v0, "__call__") *)

(** * combine-startswith-endswith / combine-isinstance-issubclass *)
Definition C08_combine_statement (cfg : combine_cfg) : Prop :=
  (* the law, under the guard *)
  (forall k rho e, parses_as_built e -> parses_as_built (rw_combine cfg k e) -> in_model (meaning rho e) = true ->
                   combine_guard cfg k rho e = true -> preserves (rw_combine cfg k) rho e)
  (* outside the guard: a name bound to a tuple; a later argument that raises *)
  /\ (exists rho e, changes (rw_combine cfg KStartsEnds) rho e /\ paren_safe (rw_combine cfg KStartsEnds e) = true)
  /\ changes (rw_combine cfg KStartsEnds) w_eager_env w_eager
  (* `c1 or c2 and z` *)
  /\ (if cc_inner_or cfg then True
      else changes (rw_combine cfg KStartsEnds) w_regroup_env w_regroup /\ paren_safe (rw_combine cfg KStartsEnds w_regroup) = true)
  (* parentheses of the replaced node *)
  /\ (if cc_parens cfg then paren_safe (rw_combine cfg KStartsEnds w_cparens) = true
      else changes (rw_combine cfg KStartsEnds) w_cparens_env w_cparens /\
           combine_guard cfg KStartsEnds w_cparens_env w_cparens = true).
Lemma C08_combine_all cfg : C08_combine_statement cfg.
Proof.
  split; [|split; [|split; [|split]]].
  - intros k rho e S S' _ G. apply lift_tree_level; try assumption. apply combine_preserves, G.
  - exists w_tuple_env, w_tuple. destruct cfg as [[] []]; vm_compute; (split; [split; [reflexivity|split; [reflexivity|discriminate]]|reflexivity]).
  - destruct cfg as [[] []]; vm_compute; (split; [reflexivity|split; [reflexivity|discriminate]]).
  - destruct cfg as [[] []]; cbn [cc_inner_or]; try exact I; vm_compute; (split; [split; [reflexivity|split; [reflexivity|discriminate]]|reflexivity]).
  - destruct cfg as [[] []]; cbn [cc_parens]; vm_compute; try reflexivity;
      (split; [split; [reflexivity|split; [reflexivity|discriminate]]|reflexivity]).
Qed.

(** * invert-boolean-check *)
Definition pair_op_eqb (a b : cmpop * cmpop) : bool := cmpop_eqb (fst a) (fst b) && cmpop_eqb (snd a) (snd b).
Definition is_pinned_invert (cfg : invert_cfg) : bool :=
  list_eqb pair_op_eqb (iv_table cfg) pinned_invert_table &&
  match iv_default cfg with KeepTarget => true | LeaveUnchanged => false end && iv_chains cfg && negb (iv_parens cfg).
Lemma cmpop_eqb_eq a b : cmpop_eqb a b = true -> a = b.
Proof. destruct a, b; try discriminate; reflexivity. Qed.
Lemma pair_op_eqb_spec x y : reflect (x = y) (pair_op_eqb x y).
Proof.
  destruct x as [a1 a2], y as [b1 b2]. unfold pair_op_eqb; cbn [fst snd].
  destruct a1, b1; cbn; try (constructor; congruence); destruct a2, b2; cbn; constructor; congruence.
Qed.
Lemma is_pinned_invert_eq cfg : is_pinned_invert cfg = true -> cfg = pinned_invert.
Proof.
  unfold is_pinned_invert. destruct cfg as [t d c p]. cbn [iv_table iv_default iv_chains iv_parens]. intros H.
  apply andb_true_iff in H as [H Hp]. apply andb_true_iff in H as [H Hc]. apply andb_true_iff in H as [Ht Hd].
  destruct d; [|discriminate]. destruct c; [|discriminate]. destruct p; [discriminate|].
  destruct (list_eqb_spec pair_op_eqb pair_op_eqb_spec t pinned_invert_table) as [E|E]; [|discriminate].
  subst t. reflexivity.
Qed.

Definition C08_invert_statement (cfg : invert_cfg) : Prop :=
  (* the law, under the guard: single comparison, operator in the table with its true negation, operands totally
     ordered or operator not an ordering; `not x is True/False` only for bool x *)
  (forall rho e, parses_as_built e -> parses_as_built (invert_file cfg e) -> in_model (meaning rho e) = true ->
                 invert_guard cfg rho e = true -> preserves (invert_file cfg) rho e)
  (* outside the guard, whatever the table says about < : partial orders, NaN; non-bool `is True` *)
  /\ (assoc_op Lt (iv_table cfg) = Some GtE -> changes (invert_file cfg) [] w_sets)
  /\ (assoc_op GtE (iv_table cfg) = Some Lt -> changes (invert_file cfg) [] w_nan)
  /\ changes (invert_file cfg) w_is_env w_is
  (* the pinned form: chains, default branch, parentheses *)
  /\ (if is_pinned_invert cfg
      then changes (invert_file cfg) [] w_chain
           /\ (wf w_default = true /\ wf (invert_file cfg w_default) = false /\ pp (invert_file cfg w_default) = s "v1 in [v2][v2]")
           /\ (changes (invert_file cfg) w_iparens_env w_iparens /\ invert_guard cfg w_iparens_env w_iparens = true)
      else True).
Lemma invert_file_single cfg e l o c o' :
  e = ENot true (ECmp true l [(o, c)]) -> o <> Is -> is_juxt c = false ->
  bu (invert_step cfg) l = l -> bu (invert_step cfg) c = c ->
  bu_any (invert_step cfg) (invert_raises cfg) l = false -> bu_any (invert_step cfg) (invert_raises cfg) c = false ->
  assoc_op o (iv_table cfg) = Some o' ->
  norm (invert_file cfg e) = norm (ECmp true l [(o', c)]).
Proof.
  intros -> Hne J Hl Hc Bl Bc A.
  unfold invert_file, rw_invert.
  assert (Step : invert_node cfg true (ECmp true l [(o, c)]) = Some (ECmp (iv_parens cfg && true) l [(o', c)])).
  { cbn [invert_node]. destruct o; try contradiction; unfold invert_general; cbn [List.length Nat.eqb negb andb];
      rewrite andb_false_r; cbn [invert_targets]; rewrite J, A; reflexivity. }
  assert (NoRaise : bu_any (invert_step cfg) (invert_raises cfg) (ENot true (ECmp true l [(o, c)])) = false).
  { cbn [bu_any rebuild map fst snd bu]. rewrite Hl, Hc, Bl, Bc.
    cbn [invert_raises invert_step orb]. rewrite Step. reflexivity. }
  rewrite NoRaise. cbn [bu map fst snd]. rewrite Hl, Hc. cbn [invert_step]. rewrite Step.
  unfold norm. cbn [toks]. destruct (iv_parens cfg); reflexivity.
Qed.
Lemma C08_invert_all cfg : C08_invert_statement cfg.
Proof.
  split; [|split; [|split; [|split]]].
  - intros rho e S S' _ G. apply lift_tree_level; try assumption. apply invert_file_preserves, G.
  - intros A. split; [reflexivity|]. split; [reflexivity|]. unfold meaning.
    rewrite (invert_file_single cfg w_sets (ESet [ci 1]) Lt (ESet [ci 2]) GtE) by (reflexivity || discriminate || exact A).
    vm_compute. discriminate.
  - intros A. split; [reflexivity|]. split; [reflexivity|]. unfold meaning.
    rewrite (invert_file_single cfg w_nan (ci 0) GtE (EConst CNaN) Lt) by (reflexivity || discriminate || exact A).
    vm_compute. discriminate.
  - split; [reflexivity|]. split; [reflexivity|]. destruct cfg as [t d c []]; vm_compute; discriminate.
  - destruct (is_pinned_invert cfg) eqn:E; [|exact I]. apply is_pinned_invert_eq in E. subst cfg.
    split; [|split].
    + vm_compute. split; [reflexivity|split; [reflexivity|discriminate]].
    + vm_compute. split; [reflexivity|split; reflexivity].
    + vm_compute. split; [split; [reflexivity|split; [reflexivity|discriminate]]|reflexivity].
Qed.

(** * use-generator *)
Definition C08_generator_statement (cfg : generator_cfg) : Prop :=
  (* the law: sum/min/max always; any/all when every element of the list form evaluates; no argument dropped *)
  (forall rho e, parses_as_built e -> parses_as_built (generator_file cfg e) -> in_model (meaning rho e) = true ->
                 generator_guard cfg rho e = true -> preserves (generator_file cfg) rho e)
  /\ changes (generator_file cfg) [] w_short
  /\ (if ug_single_arg cfg then generator_file cfg w_dropped = w_dropped else changes (generator_file cfg) [] w_dropped).
Lemma C08_generator_all cfg : C08_generator_statement cfg.
Proof.
  split; [|split].
  - intros rho e S S' _ G. apply lift_tree_level; try assumption. apply generator_file_preserves, G.
  - destruct cfg as [[] [] []]; vm_compute; (split; [reflexivity|split; [reflexivity|discriminate]]).
  - destruct cfg as [[] [] []]; cbn [ug_single_arg]; vm_compute; try reflexivity; (split; [reflexivity|split; [reflexivity|discriminate]]).
Qed.

(** * use-set-literal: no guard *)
Lemma C08_set_literal_all rho e :
  parses_as_built e -> parses_as_built (rw_set_literal e) -> in_model (meaning rho e) = true -> preserves rw_set_literal rho e.
Proof. intros S S' _. apply lift_tree_level; try assumption. apply set_literal_preserves. Qed.

(** * fix-hasattr-call *)
(** hasattr(v0, "x", "__call__"): TypeError (three arguments) -> callable(v0) = False, in the pinned form *)
Definition w_hasattr_arity : expr := ECall BHasattr [EName 0; cs "x"; call_lit].
Definition C08_hasattr_statement (cfg : hasattr_cfg) : Prop :=
  (forall rho e, parses_as_built e -> parses_as_built (rw_hasattr cfg e) -> in_model (meaning rho e) = true ->
                 hasattr_guard cfg rho e = true -> preserves (rw_hasattr cfg) rho e)
  /\ changes (rw_hasattr cfg) w_hasattr_env w_hasattr
  /\ (if ha_two_args cfg then rw_hasattr cfg w_hasattr_arity = w_hasattr_arity
      else changes (rw_hasattr cfg) w_hasattr_env w_hasattr_arity).
Lemma C08_hasattr_all cfg : C08_hasattr_statement cfg.
Proof.
  split; [|split].
  - intros rho e S S' _ G. apply lift_tree_level; try assumption. apply hasattr_preserves, G.
  - destruct cfg as [[]]; vm_compute; (split; [reflexivity|split; [reflexivity|discriminate]]).
  - destruct cfg as [[]]; vm_compute; [reflexivity|split; [reflexivity|split; [reflexivity|discriminate]]].
Qed.

(** * fix-empty-sequence-comparison *)
From CM Require Import Proofs.TdFacts.
Definition observed (in_test : bool) (rho : env) (t : expr) : result := obs_at in_test (meaning rho t).
(** v1 == []  with v1 = () : False -> True;   v1 != [] with v1 = 0 : True -> False *)
Definition w_es_tuple_env : env := [(1%N, VTuple [])].
Definition w_es_tuple : expr := ECmp true (EName 1) [(Eq, EList [])].
Definition w_es_int_env : env := [(1%N, VInt 0)].
Definition w_es_int : expr := ECmp true (EName 1) [(NotEq, EList [])].
(** 2 // (v1 == []) with v1 = []: the pinned form printed `2 // not v1` *)
Definition w_es_parens : expr := EFloorDiv (ci 2) (ECmp true (EName 1) [(Eq, EList [])]).
Definition w_es_parens_and : expr := ECmp true (ENot true (ECmp true (EName 1) [(Eq, EList [])])) [(Eq, EConst (CBool false))].

Definition C08_empty_seq_statement (cfg : empty_seq_cfg) : Prop :=
  (* the law: every rewritten comparison compares a value of the display's own type (or one whose evaluation raises) *)
  (forall in_test rho e, parses_as_built e -> parses_as_built (empty_seq_file cfg in_test e) -> in_model (meaning rho e) = true ->
                         empty_seq_guard cfg in_test rho e = true ->
                         observed in_test rho (empty_seq_file cfg in_test e) = observed in_test rho e)
  (* outside: a tuple compared with [], an int compared with [] *)
  /\ changes (empty_seq_file cfg false) w_es_tuple_env w_es_tuple
  /\ changes (empty_seq_file cfg false) w_es_int_env w_es_int
  /\ (is_allpar w_es_int = true /\ observed true w_es_int_env (empty_seq_file cfg true w_es_int) <> observed true w_es_int_env w_es_int)
  (* parentheses of the replaced comparison *)
  /\ (if es_parens cfg then wf (empty_seq_file cfg false w_es_parens) = true
      else wf w_es_parens = true /\ wf (empty_seq_file cfg false w_es_parens) = false).
Lemma C08_empty_seq_all cfg : C08_empty_seq_statement cfg.
Proof.
  split; [|split; [|split; [|split]]].
  - intros in_test rho e S S' _ G. unfold observed. rewrite !meaning_built by assumption.
    apply empty_seq_file_preserves, G.
  - destruct cfg as [[]]; vm_compute; (split; [reflexivity|split; [reflexivity|discriminate]]).
  - destruct cfg as [[]]; vm_compute; (split; [reflexivity|split; [reflexivity|discriminate]]).
  - destruct cfg as [[]]; vm_compute; (split; [reflexivity|discriminate]).
  - destruct cfg as [[]]; vm_compute; try reflexivity. split; reflexivity.
Qed.

(** * literal-or-new-object-identity *)
(** True is 1 : False -> True (True == 1) *)
Definition w_id_bool : expr := ECmp true (EConst (CBool true)) [(Is, ci 1)].
Lemma C08_identity_all rho e :
  parses_as_built e -> parses_as_built (rw_identity e) -> in_model (meaning rho e) = true -> identity_guard rho e = true -> preserves rw_identity rho e.
Proof. intros S S' _ G. apply lift_tree_level; try assumption. apply identity_preserves, G. Qed.
Lemma C08_identity_refuted_w : changes rw_identity [] w_id_bool.
Proof. vm_compute. split; [reflexivity|split; [reflexivity|discriminate]]. Qed.
