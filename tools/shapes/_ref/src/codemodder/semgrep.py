import itertools
import json
import os
import stat
import subprocess
from pathlib import Path
from tempfile import NamedTemporaryFile
from typing import Iterable, Optional

from typing_extensions import Self, override

from codemodder.codetf import Finding, Rule
from codemodder.context import CodemodExecutionContext
from codemodder.logging import logger
from codemodder.result import LineInfo, Result, ResultSet, SarifLocation, SarifResult
from codemodder.sarifs import AbstractSarifToolDetector


class SemgrepSarifToolDetector(AbstractSarifToolDetector):
    @classmethod
    def detect(cls, run_data: dict) -> bool:
        return (
            "tool" in run_data
            and "semgrep" in run_data["tool"]["driver"]["name"].lower()
        )


class SemgrepLocation(SarifLocation):
    @classmethod
    def from_sarif(cls, sarif_location) -> Self:
        artifact_location = sarif_location["physicalLocation"]["artifactLocation"]
        file = Path(artifact_location["uri"])
        snippet = (
            sarif_location["physicalLocation"]["region"].get("snippet", {}).get("text")
        )
        start = LineInfo(
            line=sarif_location["physicalLocation"]["region"]["startLine"],
            column=sarif_location["physicalLocation"]["region"]["startColumn"],
            snippet=snippet,
        )
        end = LineInfo(
            line=sarif_location["physicalLocation"]["region"]["endLine"],
            column=sarif_location["physicalLocation"]["region"]["endColumn"],
            snippet=snippet,
        )
        return cls(file=file, start=start, end=end)


class SemgrepResult(SarifResult):
    location_type = SemgrepLocation

    @classmethod
    def from_sarif(
        cls, sarif_result, sarif_run, truncate_rule_id: bool = False
    ) -> Self:
        # avoid circular import
        from core_codemods.semgrep.api import semgrep_url_from_id

        return cls(
            rule_id=(
                rule_id := cls.extract_rule_id(
                    sarif_result, sarif_run, truncate_rule_id
                )
            ),
            locations=cls.extract_locations(sarif_result),
            codeflows=cls.extract_code_flows(sarif_result),
            related_locations=cls.extract_related_locations(sarif_result),
            finding_id=rule_id,
            finding=Finding(
                id=rule_id,
                rule=Rule(
                    id=rule_id,
                    name=rule_id,
                    url=semgrep_url_from_id(rule_id),
                ),
            ),
        )


class SemgrepResultSet(ResultSet):
    @classmethod
    def from_sarif(cls, sarif_file: str | Path, truncate_rule_id: bool = False) -> Self:
        with open(sarif_file, "r", encoding="utf-8") as f:
            data = json.load(f)

        result_set = cls()
        for sarif_run in data["runs"]:
            for result in sarif_run["results"]:
                sarif_result = SemgrepResult.from_sarif(
                    result, sarif_run, truncate_rule_id
                )
                result_set.add_result(sarif_result)

        return result_set


class InternalSemgrepResultSet(SemgrepResultSet):
    @override
    def results_for_rule_and_file(
        self, context: CodemodExecutionContext, rule_id: str, file: Path
    ) -> list[Result]:
        del context
        paths_for_rule = self.get(rule_id, {})
        # Do not normalize the path
        return paths_for_rule.get(file, [])


def _scannable(path: Path) -> bool:
    """Semgrep refuses an explicit target that is missing or lacks the owner-read
    permission bit and then fails the whole scan."""
    try:
        return path.is_dir() or (
            os.access(path, os.R_OK) and bool(path.stat().st_mode & stat.S_IRUSR)
        )
    except OSError:
        return False


def run(
    execution_context: CodemodExecutionContext,
    yaml_files: Iterable[Path],
    files_to_analyze: Optional[Iterable[Path]] = None,
) -> SemgrepResultSet:
    """
    Runs Semgrep and outputs a dict with the results organized by rule_id.
    """
    if not yaml_files:
        raise ValueError("No Semgrep rules were provided")

    with NamedTemporaryFile(prefix="semgrep", suffix=".sarif") as temp_sarif_file:
        command = [
            "semgrep",
            "scan",
            "--no-error",
            "--dataflow-traces",
            "--sarif",
            "-o",
            temp_sarif_file.name,
        ]
        command.extend(
            itertools.chain.from_iterable(
                map(lambda f: ["--config", str(f)], yaml_files)
            )
        )
        targets = [Path(f) for f in files_to_analyze or [execution_context.directory]]
        if unreadable := [t for t in targets if not _scannable(t)]:
            # One unreadable file must not abort the scan of all the others
            logger.warning(
                "skipping unreadable file(s) in semgrep scan: %s",
                ", ".join(map(str, unreadable)),
            )
            targets = [t for t in targets if t not in unreadable]
            if not targets:
                return InternalSemgrepResultSet()
        command.extend(map(str, targets))
        logger.debug("semgrep command: `%s`", " ".join(command))
        call = subprocess.run(
            command,
            shell=False,
            check=False,
            stdout=None if execution_context.verbose else subprocess.PIPE,
            stderr=None if execution_context.verbose else subprocess.PIPE,
        )
        if call.returncode != 0:
            if not execution_context.verbose:
                logger.error("captured semgrep stderr: %s", call.stderr)
            try:
                logger.error("semgrep sarif output: %s", temp_sarif_file.read())
            except Exception as e:
                logger.error("failed to read semgrep sarif output: %s", e)

            raise subprocess.CalledProcessError(call.returncode, command)
        # semgrep prepends the folders into the rule-id, we want the base name only
        results = InternalSemgrepResultSet.from_sarif(
            temp_sarif_file.name, truncate_rule_id=True
        )
        return results
