(** C19 — regex and XML pipelines edit only their targets and preserve everything else.

    Full statement (regex half): for every text file (list of lines as produced by splitlines(keepends=True)),
    every per-line substitution [sub] (= re.sub(pattern, replacement, line)), every set of tool results and
    both values of dry_run:
      - every line that is not a target (pattern does not change it / for the SAST class: its 1-based number is
        not the start line of a result) is byte-identical in the output, the number of lines is preserved;
      - the ChangeSet has exactly one change per edited line, lineNumber = 1-based position, in increasing order,
        carrying exactly the findings whose range contains that line number;
      - no edit => the call returns None and nothing is written; dry_run => nothing is written and the same
        ChangeSet is returned; otherwise the file is the concatenation of the updated lines and the diff is
        create_diff(original_lines, updated_lines);
      - SAST class: a targeted line the pattern leaves unchanged is reported unfixed (with the findings of that line).
    Reading of "for SAST-driven use only lines that carry a finding" (review item B20).  The words bound the edits from
    above: every edited line must carry a finding, i.e. lie inside (or at the start of) a location of a result handed to
    the pipeline ([carries]); they do not say that every carrying line must be edited.  The code targets the START line
    of each location only ([sast_targets]).  For a finding spanning several lines the later lines carry the finding
    (get_findings_for_location is non-empty there) but are not edited even when the pattern matches them; since start
    lines are carrying lines (C19_sast_text_reading) this is within the text, so it is not refuted and not a finding.
    The theorems below are stated for the code's (narrower) reading and C19_sast_text_reading derives the text's
    reading from it; the correspondence judges the SAST file content by the text's reading ([admissible] w.r.t.
    [carries]) and leaves the exact choice of lines to the model comparison.
    What is proved: all of it, for the model of Model/RegexPipe.v ([sub], [mkdiff] universally quantified, so the
    theorems hold for whatever re.sub / create_diff compute).  The findings clause depends on how the source
    writes the index handed to get_findings_for_location; it is table-indexed (positive for [OneBased], refuted
    by a witness for [ZeroBased], the pinned form).  Not covered here: the diff TEXT (C03 / Diff.v), decoding
    failures beyond `recorded, file untouched` (C10). *)
From CM Require Import Model.RegexPipe Spec.RegexPipeSpec Proofs.RegexPipeFacts Generated.Tables.
From Coq Require Import Sorted.

(** ** non-target lines are identical; line count preserved (non-SAST class: the targets are the lines [sub] changes) *)
Theorem C19_regex_untargeted_identical :
  forall (sub : str -> str) fc v lines,
    let upd := r_updated (regex_apply_lines sub fc v lines) in
    length upd = length lines /\
    (forall i l, nth_error lines i = Some l -> nth_error upd i = Some (sub l)) /\
    (forall i l, nth_error lines i = Some l -> sub l = l -> nth_error upd i = Some l) /\
    (forall D (mkdiff : list str -> list str -> D) dry,
        ao_file (regex_apply sub fc mkdiff v dry lines) = if dry then concat lines else concat upd).
Proof. exact regex_untargeted_identical. Qed.
Print Assumptions C19_regex_untargeted_identical.

(** ** changes == edits: one change per position where original and updated line differ, 1-based, increasing *)
Theorem C19_regex_changes_eq_edits :
  forall (sub : str -> str) fc v lines,
    let r := regex_apply_lines sub fc v lines in
    map c_line (r_changes r) = edited_lines lines (r_updated r) /\
    StronglySorted N.lt (map c_line (r_changes r)) /\
    (forall n, In n (map c_line (r_changes r)) <->
               exists i a b, nth_error lines i = Some a /\ nth_error (r_updated r) i = Some b /\ a <> b /\
                             n = (1 + N.of_nat i)%N).
Proof. exact regex_changes_eq_edits. Qed.
Print Assumptions C19_regex_changes_eq_edits.

Theorem C19_sast_changes_eq_edits :
  forall (sub : str -> str) fc v rs lines r,
    sast_apply_lines sub fc v (Some rs) lines = Some r -> rs <> [] ->
    map c_line (r_changes r) = edited_lines lines (r_updated r) /\
    StronglySorted N.lt (map c_line (r_changes r)).
Proof. exact sast_changes_eq_edits. Qed.
Print Assumptions C19_sast_changes_eq_edits.

(** ** dry-run / no-change guards of apply, both classes *)
Theorem C19_regex_dry :
  forall (sub : str -> str) fc D (mkdiff : list str -> list str -> D) v lines,
    let dry := regex_apply sub fc mkdiff v true lines in
    let real := regex_apply sub fc mkdiff v false lines in
    let upd := r_updated (regex_apply_lines sub fc v lines) in
    ao_file dry = concat lines /\ ao_ret dry = ao_ret real /\ ao_unfixed dry = ao_unfixed real /\
    (ao_ret real = None <-> edited_lines lines upd = []) /\
    (ao_ret real = None -> ao_file real = concat lines) /\
    (forall cs, ao_ret real = Some cs -> ao_file real = concat upd /\ cs_diff cs = mkdiff lines upd /\ cs_changes cs <> []).
Proof. exact regex_dry. Qed.
Print Assumptions C19_regex_dry.

Theorem C19_sast_dry :
  forall (sub : str -> str) fc D (mkdiff : list str -> list str -> D) v rs lines,
    exists dry real,
      sast_apply sub fc mkdiff v true (Some rs) lines = Some dry /\
      sast_apply sub fc mkdiff v false (Some rs) lines = Some real /\
      ao_file dry = concat lines /\ ao_ret dry = ao_ret real /\ ao_unfixed dry = ao_unfixed real /\
      (ao_ret real = None -> ao_file real = concat lines) /\
      (forall cs, ao_ret real = Some cs ->
                  ao_file real = concat (spec_updated sub (sast_targets rs) lines) /\
                  cs_diff cs = mkdiff lines (spec_updated sub (sast_targets rs) lines)).
Proof. exact sast_dry. Qed.
Print Assumptions C19_sast_dry.

(** ** SAST class: only lines whose 1-based number is the start line of a result are touched; a targeted line the
       pattern does not change is kept and its findings are reported unfixed; results=None raises (TypeError) *)
Theorem C19_sast_only_finding_lines :
  forall (sub : str -> str) fc D (mkdiff : list str -> list str -> D) v dry rs lines,
    exists out,
      sast_apply sub fc mkdiff v dry (Some rs) lines = Some out /\
      ao_file out = spec_file sub (sast_targets rs) dry lines /\
      ao_unfixed out = spec_unfixed sub fc (sast_targets rs) lines /\
      length (spec_updated sub (sast_targets rs) lines) = length lines /\
      (forall i l, nth_error lines i = Some l ->
                   nth_error (spec_updated sub (sast_targets rs) lines) i =
                   Some (if mem_N (N.of_nat i + 1) (start_lines rs) then sub l else l)) /\
      (forall cs c, ao_ret out = Some cs -> In c (cs_changes cs) -> In (c_line c) (start_lines rs)).
Proof. exact sast_only_finding_lines. Qed.
Print Assumptions C19_sast_only_finding_lines.

(** the text's reading of the SAST clause follows from the code's: start lines are lines that carry a finding, so the
    written file is an admissible update (every line identical, or a carrying line replaced by its substitution) *)
Theorem C19_sast_text_reading :
  forall (sub : str -> str) rs lines,
    (forall n, sast_targets rs n = true -> carries rs n = true) /\
    admissible sub (carries rs) lines (spec_updated sub (sast_targets rs) lines) = true /\
    (forall cand upd, admissible sub cand lines upd = true <->
        (List.length upd = List.length lines /\
         forall i l u, nth_error lines i = Some l -> nth_error upd i = Some u ->
                       u = l \/ (cand (1 + N.of_nat i)%N = true /\ u = sub l))).
Proof.
  intros sub rs lines. split; [apply sast_targets_carry|]. split; [apply sast_text_reading|].
  intros cand upd. apply admissible_from_meaning.
Qed.
Print Assumptions C19_sast_text_reading.

(** a finding on lines 2-4 of a four-line file whose every line matches: lines 2, 3, 4 carry it, the code edits line 2
    only (and reports nothing unfixed for 3 and 4); editing 2, 3 and 4 would be admissible too, editing line 1 not *)
Example C19_sast_multiline_example :
  let sub := fun l : str => match l with 97%N :: r => 65%N :: r | _ => l end in
  let rs := [ {| r_locs := [(2, 4)%N]; r_finding := Some 7%N |} ] in
  let lines := [[97; 10]; [97; 10]; [97; 10]; [97; 10]]%N in
  map (carries rs) [1; 2; 3; 4; 5]%N = [false; true; true; true; false] /\
  map (sast_targets rs) [1; 2; 3; 4; 5]%N = [false; true; false; false; false] /\
  sast_apply_lines sub rs OneBased (Some rs) lines =
    Some ([ {| c_line := 2; c_findings := [7] |} ], [[97; 10]; [65; 10]; [97; 10]; [97; 10]], [])%N /\
  admissible sub (carries rs) lines [[97; 10]; [65; 10]; [65; 10]; [65; 10]]%N = true /\
  admissible sub (carries rs) lines [[65; 10]; [65; 10]; [97; 10]; [97; 10]]%N = false.
Proof. vm_compute. repeat split; reflexivity. Qed.

(** _apply of the SAST class raises (TypeError) when handed results=None; whether that, or an undecodable file,
    escapes apply() depends on how apply() is written (table [regex_apply_isolation], extracted from the source):
    repaired form (fix 49f7472): a failure is recorded for the file -- apply returns None, writes nothing, every finding
    of the file context is reported unfixed at line 0 -- and nothing escapes; pinned form: the exception escapes
    (class kf_regex_no_isolation).  A decodable file handed a result list goes through the theorems above unchanged. *)
Theorem C19_sast_apply_raises_on_none :
  forall (sub : str -> str) fc v lines, sast_apply_lines sub fc v None lines = None.
Proof. reflexivity. Qed.
Print Assumptions C19_sast_apply_raises_on_none.

Theorem C19_regex_file_decoded :
  forall (sub : str -> str) fc D (mkdiff : list str -> list str -> D) iso v dry lines,
    regex_apply_file sub fc mkdiff iso v dry (Some lines) = Done (regex_apply sub fc mkdiff v dry lines) /\
    forall rs, exists o, sast_apply sub fc mkdiff v dry (Some rs) lines = Some o /\
                         sast_apply_file sub fc mkdiff iso v dry (Some rs) (Some lines) = Done o.
Proof. exact regex_apply_file_decoded. Qed.
Print Assumptions C19_regex_file_decoded.

Definition C19_regex_isolation_statement (iso : regex_isolation) : Prop :=
  match iso with
  | TryReadTransform =>
      forall (sub : str -> str) fc D (mkdiff : list str -> list str -> D) v dry,
        regex_apply_file sub fc mkdiff iso v dry None = Failed ReadFailed (failure_unfixed fc) /\
        (forall results, sast_apply_file sub fc mkdiff iso v dry results None = Failed ReadFailed (failure_unfixed fc)) /\
        (forall lines, sast_apply_file sub fc mkdiff iso v dry None (Some lines) = Failed TransformFailed (failure_unfixed fc)) /\
        (forall decoded, regex_apply_file sub fc mkdiff iso v dry decoded <> Raises) /\
        (forall results decoded, sast_apply_file sub fc mkdiff iso v dry results decoded <> Raises)
  | NoTry =>
      exists (sub : str -> str) fc lines,
        regex_apply_file sub fc (fun _ _ => tt) iso OneBased false None = Raises /\
        sast_apply_file sub fc (fun _ _ => tt) iso OneBased false None (Some lines) = Raises
  end.
Theorem C19_sast_results_none_raises : C19_regex_isolation_statement regex_apply_isolation.
Proof. exact (regex_isolation_all regex_apply_isolation). Qed.
Print Assumptions C19_sast_results_none_raises.

(** ** findings of a change = exactly the findings whose range contains the changed line (table-indexed) *)
Definition finding_in_range (fc : list result) (n f : N) : Prop :=
  exists r, In r fc /\ r_finding r = Some f /\ exists l, In l (r_locs r) /\ (fst l <= n <= snd l)%N.

Definition C19_regex_findings_statement (v : index_form) : Prop :=
  match v with
  | OneBased =>
      forall (sub : str -> str) fc lines c,
        In c (r_changes (regex_apply_lines sub fc v lines)) ->
        c_findings c = findings_for_location fc (c_line c) /\
        (forall f, In f (c_findings c) <-> finding_in_range fc (c_line c) f)
  | ZeroBased =>
      exists (sub : str -> str) fc lines c,
        In c (r_changes (regex_apply_lines sub fc v lines)) /\
        c_findings c <> findings_for_location fc (c_line c)
  end.
Theorem C19_regex_findings : C19_regex_findings_statement regex_findings_index.
Proof. exact (C19_regex_findings_all regex_findings_index). Qed.
Print Assumptions C19_regex_findings.

Definition C19_sast_findings_statement (v : index_form) : Prop :=
  match v with
  | OneBased =>
      forall (sub : str -> str) fc rs lines r c,
        sast_apply_lines sub fc v (Some rs) lines = Some r -> In c (r_changes r) ->
        c_findings c = findings_for_location fc (c_line c) /\
        (forall f, In f (c_findings c) <-> finding_in_range fc (c_line c) f)
  | ZeroBased =>
      exists (sub : str -> str) fc rs lines r c,
        sast_apply_lines sub fc v (Some rs) lines = Some r /\ In c (r_changes r) /\
        c_findings c <> findings_for_location fc (c_line c)
  end.
Theorem C19_sast_findings : C19_sast_findings_statement sast_regex_findings_index.
Proof. exact (C19_sast_findings_all sast_regex_findings_index). Qed.
Print Assumptions C19_sast_findings.

(** ** the whole of _apply/apply against the reference spec (repaired index form) *)
Theorem C19_regex_model_is_spec :
  forall (sub : str -> str) fc lines,
    regex_apply_lines sub fc OneBased lines =
    (spec_changes sub fc all_lines lines, spec_updated sub all_lines lines, []) /\
    forall r rs, sast_apply_lines sub fc OneBased (Some (r :: rs)) lines =
                 Some (spec_changes sub fc (sast_targets (r :: rs)) lines,
                       spec_updated sub (sast_targets (r :: rs)) lines,
                       spec_unfixed sub fc (sast_targets (r :: rs)) lines).
Proof. exact regex_model_is_spec. Qed.
Print Assumptions C19_regex_model_is_spec.

(** ** non-vacuity: a three-line file, the pattern matches lines 1 and 3, findings on lines 2-3 *)
Example C19_regex_example :
  let sub := fun l : str => match l with 97%N :: r => 65%N :: r | _ => l end in        (* a... -> A... *)
  let fc := [ {| r_locs := [(2, 3)]; r_finding := Some 7 |}; {| r_locs := [(3, 3)]; r_finding := None |};
              {| r_locs := [(1, 1); (3, 3)]; r_finding := Some 9 |} ]%N in
  let lines := [[97; 10]; [98; 10]; [97; 99]]%N in
  regex_apply_lines sub fc OneBased lines =
    ([ {| c_line := 1; c_findings := [9] |}; {| c_line := 3; c_findings := [7; 9] |} ],
     [[65; 10]; [98; 10]; [65; 99]], [])%N /\
  sast_apply_lines sub fc OneBased (Some [ {| r_locs := [(2, 3)]; r_finding := Some 7 |};
                                           {| r_locs := [(3, 9)]; r_finding := Some 8 |} ]%N) lines =
    Some ([ {| c_line := 3; c_findings := [7; 9] |} ], [[97; 10]; [98; 10]; [65; 99]], [(7, 2)])%N.
Proof. vm_compute. split; reflexivity. Qed.

(** * XML half

    Full statement: for every well-formed document, attribute map / list of new elements and finding set, the
    document written by XMLTransformerPipeline, read back by an XML parser, has the same elements, attributes,
    character data (CDATA content included), comments, processing instructions and document type declaration as the
    input, except for exactly the targeted edits ([canon (parse (output)) = canon (retarget input)]); one change per
    edit with the findings of that line; dry-run writes nothing; a document that does not parse is left alone.

    What is proved here ([_partial]): (1) at the level of the SAX event stream handed to the serializer, the
    transformers change exactly the targeted start tags' attributes / insert exactly the new children (well nested)
    and report one change per edit; (2) the two escaping functions of the serializer are decodable in any context
    (so character data and attribute values survive a parse of the emitted text), character data never contains
    markup delimiters; (3) apply()'s guards.  What is MISSING: a Coq [meaning : text -> events] for the whole emitted
    grammar and the round trip [meaning (emit evs) = canon evs]; that composition is only TESTED: on every run the
    model's text is compared byte for byte with the real output and the real output is re-parsed with expat and
    compared with [canon (retarget input)] evaluated in Coq (Harness/C19_xml_run.v).
    Refuted (hand-written lexical handlers, reproduced on the implementation): CDATA content is escaped, the
    DOCTYPE is rewritten with the literal ids "None", a comment is followed by a new line that becomes character
    data inside mixed content, a carriage return in character data comes back as a line feed.
    Outside the property's list and not preserved by construction: the XML declaration (always rewritten to
    version 1.0 / encoding utf-8, [standalone] dropped), a byte order mark, the internal DTD subset, empty-element
    tags (<e/> becomes <e></e>), white space inside tags and between prolog items, the quote character of
    attribute values.  Attribute order and namespace prefixes/declarations are preserved (namespace processing is off). *)
From CM Require Import Model.XmlPipe Spec.XmlPipeSpec Proofs.XmlPipeFacts.
From Coq Require Import String.

Theorem C19_xml_attr_events_preserved_partial :
  forall fc amap results lo evs,
    let out := fst (run_steps (attr_step fc amap results lo) evs) in
    let changes := snd (run_steps (attr_step fc amap results lo) evs) in
    List.length out = List.length evs /\
    (forall i pe, nth_error evs i = Some pe ->
        match attr_target amap results lo pe with
        | None => nth_error out i = Some (pe_ev pe)                      (* every other event: identical *)
        | Some (n, a, new) =>                                            (* a targeted start tag: same name, *)
            exists a', nth_error out i = Some (StartElement n a') /\
              (forall k, dget str_eqb k new = None -> dget str_eqb k a' = dget str_eqb k a) /\     (* other attributes kept *)
              (forall k, dget str_eqb k new <> None -> exists v, In (k, v) new /\ dget str_eqb k a' = Some v) /\
              (exists extra, dkeys a' = dkeys a ++ extra /\ forall k, In k extra -> dhas str_eqb k a = false)  (* order kept *)
        end) /\
    changes = changes_attr fc amap results lo evs.    (* one change per edited element, in order, findings of its line *)
Proof. exact xml_attr_events_preserved. Qed.
Print Assumptions C19_xml_attr_events_preserved_partial.

Theorem C19_xml_new_events_preserved_partial :
  forall fc news evs,
    let out := fst (run_steps (new_step fc news) evs) in
    let changes := snd (run_steps (new_step fc news) evs) in
    out = retarget_new news evs /\ changes = changes_new fc news evs /\
    (forall pe, new_children news pe <> [] ->
        exists n, pe_ev pe = EndElement n /\
                  forall ne, In ne (new_children news pe) -> In ne news /\ ne_parent ne = n) /\
    (forall l st, nest st (flat_map add_new_element l) = Some st) /\
    (forall st st', nest st (map pe_ev evs) = Some st' -> nest st out = Some st').
Proof. exact xml_new_events_preserved. Qed.
Print Assumptions C19_xml_new_events_preserved_partial.

(** the serializer's escaping: decodable whatever follows; no markup delimiter inside character data;
    guard [no_specials]: text without & < > is written verbatim (also inside CDATA) *)
Theorem C19_xml_serializer_decodable_partial :
  (forall s, unescape (escape s) = s) /\
  (forall a b, escape a = escape b -> a = b) /\
  (forall s, ~ In 60%N (escape s) /\ ~ In 62%N (escape s)) /\
  (forall v rest, unquote (quoteattr v ++ rest) = Some (v, rest)) /\
  (forall a b, quoteattr a = quoteattr b -> a = b) /\
  (forall s, no_specials s = true -> emit_all [StartCDATA; Characters s; EndCDATA] = lit "<![CDATA[" ++ s ++ lit "]]>") /\
  (forall n p s, emit (StartDTD n (Some p) (Some s)) = ref_doctype n (Some p) (Some s) ++ [10%N]).
Proof.
  split; [exact unescape_escape|]. split; [exact escape_inj|]. split; [exact escape_no_markup|].
  split; [exact unquote_quoteattr|]. split; [exact quoteattr_inj|]. split.
  - intros s H. unfold emit_all. cbn [flat_map emit]. now rewrite (escape_id s H), app_nil_r.
  - intros n p s. unfold emit, ref_doctype, fmt_opt. repeat rewrite <- app_assoc. reflexivity.
Qed.
Print Assumptions C19_xml_serializer_decodable_partial.

Theorem C19_xml_apply_guards :
  forall fc D (mkdiff : str -> str -> D) (dempty : D -> bool) g step original parse,
    let dry := xml_apply fc mkdiff dempty g step true original parse in
    let real := xml_apply fc mkdiff dempty g step false original parse in
    xo_file dry = original /\ xo_ret dry = xo_ret real /\ xo_failed dry = xo_failed real /\ xo_unfixed dry = xo_unfixed real /\
    (xo_ret real = None -> xo_file real = original) /\
    (parse = None -> xo_ret real = None /\ xo_failed real = true /\
                     xo_unfixed real = map (fun f => (f, 0%N)) (xall_findings fc)) /\
    (forall evs, parse = Some evs ->
       xo_failed real = false /\ xo_unfixed real = [] /\
       (xo_ret real = None <->
          snd (run_steps step evs) = [] \/
          guard_hits dempty g (mkdiff original (universal_newlines (emit_all (fst (run_steps step evs))))) = true) /\
       forall cs, xo_ret real = Some cs ->
                  xcs_changes cs = snd (run_steps step evs) /\
                  xo_file real = universal_newlines (emit_all (fst (run_steps step evs))) /\
                  xcs_diff cs = mkdiff original (xo_file real) /\
                  guard_hits dempty g (xcs_diff cs) = false).
Proof. exact xml_apply_guards. Qed.
Print Assumptions C19_xml_apply_guards.

(** the UTF-8 re-read of the original (after `if not changes`, before the diff): table [xml_pipeline_diff_guard].
    Current form (fix c634845): an edited document that does not decode as UTF-8 is a recorded failure, the file is
    untouched and nothing escapes apply(); pinned form / 927c1e3 only: UnicodeDecodeError escapes
    (class kf_xml_reread_no_isolation). *)
Definition C19_xml_reread_statement (g : xml_diff_guard) : Prop :=
  (forall fc D (mkdiff : str -> str -> D) dempty step dry original parse,
      xml_apply_file fc mkdiff dempty g step dry original parse true = Some (xml_apply fc mkdiff dempty g step dry original parse)) /\
  (forall fc D (mkdiff : str -> str -> D) dempty step dry original,
      xml_apply_file fc mkdiff dempty g step dry original None false = Some (xml_apply fc mkdiff dempty g step dry original None) /\
      forall evs, snd (run_steps step evs) = [] ->
        xml_apply_file fc mkdiff dempty g step dry original (Some evs) false =
        Some {| xo_ret := None; xo_file := original; xo_failed := false; xo_unfixed := [] |}) /\
  match g with
  | DiffGuardRereadTry =>
      (forall fc D (mkdiff : str -> str -> D) dempty step dry original evs,
          snd (run_steps step evs) <> [] ->
          xml_apply_file fc mkdiff dempty g step dry original (Some evs) false = Some (xml_failure_out fc original)) /\
      (forall fc D (mkdiff : str -> str -> D) dempty step dry original parse ok,
          xml_apply_file fc mkdiff dempty g step dry original parse ok <> None)
  | NoDiffGuard | DiffGuard =>
      exists fc step original evs,
        xml_apply_file fc (fun _ _ => tt) (fun _ => false) g step false original (Some evs) false = None
  end.
Theorem C19_xml_reread_isolated : C19_xml_reread_statement xml_pipeline_diff_guard.
Proof. exact (xml_reread_all xml_pipeline_diff_guard). Qed.
Print Assumptions C19_xml_reread_isolated.

(** ** refutations (class kf_xml_cdata_escaped): XMLGenerator.characters escapes inside a CDATA section too *)
Theorem C19_xml_refuted_cdata :
  (forall c, emit_all [StartCDATA; Characters c; EndCDATA] = lit "<![CDATA[" ++ escape c ++ lit "]]>") /\
  (forall c, no_specials c = false -> escape c <> c) /\
  emit_all [StartCDATA; Characters (lit "a<b&c"); EndCDATA] = lit "<![CDATA[a&lt;b&amp;c]]>".
Proof.
  split; [|split].
  - intros c. unfold emit_all. cbn [flat_map emit]. now rewrite app_nil_r.
  - exact escape_changes.
  - vm_compute. reflexivity.
Qed.
Print Assumptions C19_xml_refuted_cdata.

(** (class kf_xml_doctype_rewritten): startDTD formats the absent public/system ids with an f-string *)
Theorem C19_xml_refuted_doctype :
  emit (StartDTD (lit "r") None None) = lit "<!DOCTYPE r PUBLIC ""None"" ""None"">" ++ [10%N] /\
  (forall n s, emit (StartDTD n None s) <> ref_doctype n None s ++ [10%N]).
Proof.
  split; [vm_compute; reflexivity|].
  intros n s E. unfold emit, ref_doctype in E. repeat rewrite <- app_assoc in E.
  apply app_inv_head in E. apply app_inv_head in E. destruct s; vm_compute in E; discriminate.
Qed.
Print Assumptions C19_xml_refuted_doctype.

(** (class kf_xml_comment_newline_in_text): the comment handler writes a new line after "-->"; inside mixed
    content it is character data.  (class kf_xml_cr_becomes_lf): a carriage return in character data is written
    raw and read back from the text-mode temporary file as a line feed. *)
Theorem C19_xml_refuted_comment_newline :
  emit_all [Characters (lit "x"); Comment (lit "c"); Characters (lit "y")] = lit "x<!--c-->" ++ [10%N] ++ lit "y" /\
  universal_newlines (emit_all [Characters [120; 13; 121]%N]) = [120; 10; 121]%N.
Proof. split; vm_compute; reflexivity. Qed.
Print Assumptions C19_xml_refuted_comment_newline.

(** non-vacuity: <r><e a="1"/>t&amp;<!--c--></r>, map {e: {a: "2", z: "<"}} matched on the position of <e>;
    new element n under every e *)
Example C19_xml_example :
  let evs := [ {| pe_line := 1%N; pe_col := 0%Z; pe_ev := StartDocument |};
               {| pe_line := 1%N; pe_col := 0%Z; pe_ev := StartElement (lit "r") [] |};
               {| pe_line := 1%N; pe_col := 3%Z; pe_ev := StartElement (lit "e") [(lit "a", lit "1")] |};
               {| pe_line := 1%N; pe_col := 3%Z; pe_ev := EndElement (lit "e") |};
               {| pe_line := 1%N; pe_col := 13%Z; pe_ev := Characters (lit "t&") |};
               {| pe_line := 1%N; pe_col := 19%Z; pe_ev := Comment (lit "c") |};
               {| pe_line := 1%N; pe_col := 27%Z; pe_ev := EndElement (lit "r") |} ] in
  let fc := [ {| x_locs := [(1%N, 4%Z, 1%N)]; x_finding := Some 7%N |} ]%N in
  let amap := [(lit "e", [(lit "a", lit "2"); (lit "z", lit "<")])] in
  run_steps (attr_step fc amap (Some fc) false) evs =
    ([StartDocument; StartElement (lit "r") []; StartElement (lit "e") [(lit "a", lit "2"); (lit "z", lit "<")];
      EndElement (lit "e"); Characters (lit "t&"); Comment (lit "c"); EndElement (lit "r")],
     [ {| xc_line := 1%N; xc_findings := [7%N] |} ]) /\
  universal_newlines (emit_all (fst (run_steps (attr_step fc amap (Some fc) false) evs))) =
    lit "<?xml version=""1.0"" encoding=""utf-8""?>" ++ [10%N] ++
    lit "<r><e a=""2"" z=""&lt;""></e>t&amp;<!--c-->" ++ [10%N] ++ lit "</r>" /\
  fst (run_steps (new_step fc [NE (lit "n") (lit "e") (NEText (lit "<")) []]) evs) =
    [StartDocument; StartElement (lit "r") []; StartElement (lit "e") [(lit "a", lit "1")];
     StartElement (lit "n") []; Characters (lit "<"); EndElement (lit "n");
     EndElement (lit "e"); Characters (lit "t&"); Comment (lit "c"); EndElement (lit "r")].
Proof. vm_compute. repeat split; reflexivity. Qed.
