(** Checkers of the C20 correspondence: the harness realises a world as a real invocation of the console entry point
    and reports (world, exit status, traceback seen, report file exists). *)
From CM Require Import Harness.RunBase Model.Exit Spec.ExitSpec Proofs.ExitFacts Generated.Tables.

Definition tables : exit_tables :=
  mkT exit_chain write_report_status_used argparse_error_code exit_checked_groups max_workers_validated.

(** world <-> 12 numbers: argparse (0 Args, 1 ParseErr, 2 EarlyExit0), bad_workers, bad_line, dir_exists,
    sarif (0 Ok, 1 Duplicate, 2 NotFound, 3 Malformed), miss_issues, miss_hotspots, miss_dd, miss_contrast, ai_consistent, output, write_ok *)
Definition nb (b : bool) : N := if b then 1%N else 0%N.
Definition bn (n : N) : bool := negb (N.eqb n 0).
Definition world_code (w : world) : list N :=
  [match w_argparse w with Args => 0 | ParseErr => 1 | EarlyExit0 => 2 end; nb (w_bad_workers w); nb (w_bad_line w); nb (w_dir_exists w);
   match w_sarif w with SarifOk => 0 | SarifDuplicate => 1 | SarifNotFound => 2 | SarifMalformed => 3 end;
   nb (w_miss_issues w); nb (w_miss_hotspots w); nb (w_miss_dd w); nb (w_miss_contrast w); nb (w_ai_consistent w);
   nb (w_output w); nb (w_write_ok w)]%N.
Definition world_of_code (l : list N) : world :=
  let g i := nth i l 0%N in
  {| w_argparse := match g 0%nat with 0 => Args | 1 => ParseErr | _ => EarlyExit0 end%N;
     w_bad_workers := bn (g 1%nat); w_bad_line := bn (g 2%nat); w_dir_exists := bn (g 3%nat);
     w_sarif := match g 4%nat with 0 => SarifOk | 1 => SarifDuplicate | 2 => SarifNotFound | _ => SarifMalformed end%N;
     w_miss_issues := bn (g 5%nat); w_miss_hotspots := bn (g 6%nat); w_miss_dd := bn (g 7%nat); w_miss_contrast := bn (g 8%nat);
     w_ai_consistent := bn (g 9%nat); w_output := bn (g 10%nat); w_write_ok := bn (g 11%nat) |}.

(** (world code, exit status, traceback seen, report file exists) *)
Definition exit_case := (list N * Z * bool * bool)%type.

Definition exit_model_ok (c : exit_case) : bool :=
  let '(wc, rc, tb, rep) := c in
  match run_exit tables (world_of_code wc) with
  | Exit z r => Z.eqb rc z && Bool.eqb rep r && negb tb
  | Crash => tb && Z.eqb rc 1 && negb rep         (* uncaught exception: the interpreter prints a traceback and exits 1 *)
  end.

Definition reaches_malformed (w : world) : bool :=
  match w_argparse w, w_sarif w with
  | Args, SarifMalformed => negb (w_bad_workers w) && negb (w_bad_line w) && w_dir_exists w
  | _, _ => false
  end.

(** a traceback is never a documented outcome; where a status is documented it must be that one, with the report rule *)
Definition exit_spec_ok (c : exit_case) : bool :=
  let '(wc, rc, tb, rep) := c in
  let w := world_of_code wc in
  negb tb &&
  (if reaches_malformed w then true          (* no status is documented for an unreadable SARIF file *)
   else Z.eqb rc (documented w) && Bool.eqb rep (report_expected w)).

(** active branches of the table-indexed statements, as world codes (empty list = positive branch) *)
Definition active_exit_counterexamples : list (list N) := map world_code (exit_counterexamples tables).
Definition active_report_counterexamples : list (list N) := map world_code (report_counterexamples tables).
Definition active_crash_counterexamples : list (list N) := map world_code (crash_counterexamples tables).
Definition model_of_code (wc : list N) : (Z * bool * bool) :=
  match run_exit tables (world_of_code wc) with Exit z r => (z, r, false) | Crash => (1%Z, false, true) end.
Definition documented_of_code (wc : list N) : (Z * bool) :=
  let w := world_of_code wc in (documented w, report_expected w).
