import libcst as cst
from libcst import matchers as m

from core_codemods.api import Metadata, ReviewGuidance

from .combine_calls_base import CombineCallsBaseCodemod


class CombineStartswithEndswith(CombineCallsBaseCodemod):
    metadata = Metadata(
        name="combine-startswith-endswith",
        summary="Simplify Boolean Expressions Using `startswith` and `endswith`",
        review_guidance=ReviewGuidance.MERGE_WITHOUT_REVIEW,
        references=[],
    )
    change_description = "Use tuple of matches instead of boolean expression"

    combinable_funcs = ["startswith", "endswith"]
    dedupilcation_attr = "evaluated_value"
    args_to_combine = [0]
    args_to_keep_as_is = []

    def make_call_matcher(self, func_name: str) -> m.Call:
        return m.Call(
            func=m.Attribute(value=m.Name(), attr=m.Name(func_name)),
            args=[
                m.Arg(
                    value=m.Tuple()
                    | m.SimpleString()
                    | m.ConcatenatedString()
                    | m.FormattedString()
                    | m.Name(),
                    # `s.startswith(*pair)` passes prefix, start, end
                    star="",
                )
            ],
        )

    def check_calls_same_instance(
        self, left_call: cst.Call, right_call: cst.Call
    ) -> bool:
        return left_call.func.value.value == right_call.func.value.value
