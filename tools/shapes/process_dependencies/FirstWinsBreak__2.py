from __future__ import annotations

import itertools
import logging
from functools import cached_property
from pathlib import Path
from textwrap import indent
from typing import TYPE_CHECKING, Iterator, List

from codemodder.code_directory import files_for_directory, match_files
from codemodder.codetf import ChangeSet
from codemodder.codetf import Result as CodeTFResult
from codemodder.codetf import UnfixedFinding
from codemodder.dependency import (
    Dependency,
    build_dependency_notification,
    build_failed_dependency_notification,
)
from codemodder.file_context import FileContext
from codemodder.llm import setup_azure_llama_llm_client, setup_openai_llm_client
from codemodder.logging import log_list, logger
from codemodder.project_analysis.file_parsers.package_store import PackageStore
from codemodder.project_analysis.python_repo_manager import PythonRepoManager
from codemodder.providers import ProviderRegistry
from codemodder.registry import CodemodRegistry
from codemodder.result import ResultSet
from codemodder.utils.timer import Timer
from codemodder.utils.update_finding_metadata import update_finding_metadata

if TYPE_CHECKING:
    from openai import OpenAI

    from codemodder.codemods.base_codemod import BaseCodemod


class CodemodExecutionContext:
    _failures_by_codemod: dict[str, list[Path]] = {}
    _dependency_update_by_codemod: dict[str, PackageStore | None] = {}
    _unfixed_findings_by_codemod: dict[str, list[UnfixedFinding]] = {}
    dependencies: dict[str, set[Dependency]] = {}
    directory: Path
    dry_run: bool = False
    verbose: bool = False
    registry: CodemodRegistry
    providers: ProviderRegistry
    repo_manager: PythonRepoManager
    timer: Timer
    path_include: list[str]
    path_exclude: list[str]
    max_workers: int = 1
    tool_result_files_map: dict[str, list[str]]
    semgrep_prefilter_results: ResultSet | None = None
    llm_client: OpenAI | None = None

    def __init__(
        self,
        directory: Path,
        dry_run: bool,
        verbose: bool,
        registry: CodemodRegistry,
        providers: ProviderRegistry,
        repo_manager: PythonRepoManager,
        path_include: list[str],
        path_exclude: list[str],
        tool_result_files_map: dict[str, list[str]] | None = None,
        max_workers: int = 1,
    ):
        self.directory = directory
        self.dry_run = dry_run
        self.verbose = verbose
        self._changesets_by_codemod: dict[str, list[ChangeSet]] = {}
        self._failures_by_codemod = {}
        self._dependency_update_by_codemod = {}
        self._unfixed_findings_by_codemod = {}
        self.dependencies = {}
        self.registry = registry
        self.providers = providers
        self.repo_manager = repo_manager
        self.timer = Timer()
        self.path_include = path_include
        self.path_exclude = path_exclude
        self.max_workers = max_workers
        self.tool_result_files_map = tool_result_files_map or {}
        self.semgrep_prefilter_results = None
        self.openai_llm_client = setup_openai_llm_client()
        self.azure_llama_llm_client = setup_azure_llama_llm_client()

    def add_changesets(self, codemod_name: str, change_sets: List[ChangeSet]):
        self._changesets_by_codemod.setdefault(codemod_name, []).extend(change_sets)

    def add_failures(self, codemod_name: str, failed_files: List[Path]):
        self._failures_by_codemod.setdefault(codemod_name, []).extend(failed_files)

    def add_dependencies(self, codemod_id: str, dependencies: set[Dependency]):
        self.dependencies.setdefault(codemod_id, set()).update(dependencies)

    def get_changesets(self, codemod_name: str) -> list[ChangeSet]:
        return self._changesets_by_codemod.get(codemod_name, [])

    def get_changed_files(self):
        return [
            change_set.path
            for changes in self._changesets_by_codemod.values()
            for change_set in changes
        ]

    def get_failures(self, codemod_name: str) -> list[Path]:
        return self._failures_by_codemod.get(codemod_name, [])

    def get_failed_files(self) -> list[Path]:
        return list(
            itertools.chain.from_iterable(
                failures for failures in self._failures_by_codemod.values()
            )
        )

    def get_unfixed_findings(self, codemod_name: str) -> list[UnfixedFinding]:
        return self._unfixed_findings_by_codemod.get(codemod_name, [])

    def process_dependencies(
        self, codemod_id: str
    ) -> dict[Dependency, PackageStore | None]:
        """Write the dependencies a codemod added to the appropriate dependency
        file in the project. Returns a dict listing the locations the dependencies were added.
        """
        if not (dependencies := self.dependencies.get(codemod_id)):
            return {}

        # populate everything with None and then change the ones added
        record: dict[Dependency, PackageStore | None] = {}
        for dep in dependencies:
            record[dep] = None

        if not (store_list := self._writable_package_stores()):
            logger.info(
                "unable to write dependencies for %s: no dependency file found",
                codemod_id,
            )
            self._dependency_update_by_codemod[codemod_id] = None
            return record

        from codemodder.dependency_management import DependencyManager

        for package_store in store_list:
            dm = DependencyManager(package_store, self.directory)
            if (changeset := dm.write(list(dependencies), self.dry_run)) is not None:
                self.add_changesets(codemod_id, [changeset])
                self._dependency_update_by_codemod[codemod_id] = package_store
                for dep in dependencies:
                    record[dep] = package_store
                break

        return record

    def _writable_package_stores(self) -> list[PackageStore]:
        """
        The dependency files a codemod may update: like every other file, one that
        a file-level exclude pattern (the user's, else the defaults) matches is left alone.
        """
        stores = []
        for store in self.repo_manager.package_stores:
            try:
                excluded = not match_files(
                    self.directory,
                    [store.file],
                    [pat for pat in self.path_exclude if ":" not in pat] or None,
                    ["*"],
                )
            except (TypeError, ValueError):
                # not a path below the target directory: nothing to match
                excluded = False
            if excluded:
                logger.debug("dependency file %s is excluded, skipping", store.file)
                continue
            stores.append(store)
        return stores

    def add_description(self, codemod: BaseCodemod):
        description = codemod.description
        if dependencies := list(self.dependencies.get(codemod.id, [])):
            if pkg_store := self._dependency_update_by_codemod.get(codemod.id):
                description += build_dependency_notification(
                    pkg_store.type.value, dependencies[0]
                )
            else:
                description += build_failed_dependency_notification(dependencies[0])

        return description

    def add_unfixed_findings(
        self, codemod_id: str, unfixed_findings: list[UnfixedFinding]
    ):
        self._unfixed_findings_by_codemod.setdefault(codemod_id, []).extend(
            unfixed_findings
        )

    def process_results(self, codemod_id: str, results: Iterator[FileContext]):
        for file_context in results:
            self.add_changesets(codemod_id, file_context.changesets)
            self.add_failures(codemod_id, file_context.failures)
            self.add_dependencies(codemod_id, file_context.dependencies)
            self.add_unfixed_findings(codemod_id, file_context.unfixed_findings)
            self.timer.aggregate(file_context.timer)

    def compile_results(self, codemods: list[BaseCodemod]) -> list[CodeTFResult]:
        results = []
        for codemod in codemods:
            changesets = update_finding_metadata(
                codemod.detection_tool_rules,
                self.get_changesets(codemod.id),
            )

            result = CodeTFResult(
                codemod=codemod.id,
                summary=codemod.summary,
                description=self.add_description(codemod),
                detectionTool=codemod.detection_tool,
                references=codemod.references,
                properties={},
                failedFiles=[str(file) for file in self.get_failures(codemod.id)],
                changeset=changesets,
                unfixedFindings=self.get_unfixed_findings(codemod.id),
            )

            results.append(result)

        return results

    def log_changes(self, codemod_id: str):
        if failures := self.get_failures(codemod_id):
            log_list(logging.INFO, "failed", failures)
        if changes := self.get_changesets(codemod_id):
            logger.info("changed:")
            for change in changes:
                logger.info("  - %s", change.path)
                logger.debug("    diff:\n%s", indent(change.diff, " " * 6))

    @property
    def included_paths(self) -> list[str]:
        return self.path_include or self.registry.default_include_paths

    @cached_property
    def files_to_analyze(self) -> list[Path]:
        return files_for_directory(self.directory)

    @cached_property
    def find_and_fix_paths(self) -> list[Path]:
        # A `path:line` pattern never excludes a whole file, so only file-level
        # patterns replace the default excludes
        file_level_excludes = [pat for pat in self.path_exclude if ":" not in pat]
        return match_files(
            self.directory,
            self.files_to_analyze,
            # None is effectively a sentinel value to indicate that the default include/exclude paths should be used
            file_level_excludes or None,
            self.path_include or None,
        )

    def filter_paths(self, paths: list[Path]) -> list[Path]:
        return match_files(
            self.directory,
            paths,
            self.path_exclude,
            self.included_paths,
        )

    def semgrep_results_for_rule(self, codemod_id: str) -> list[Path]:
        # files reported by the start-up semgrep run may have vanished since;
        # semgrep exits with an error when handed a missing target
        return (
            [
                path
                for path in self.semgrep_prefilter_results.files_for_rule(codemod_id)
                if Path(path).exists()
            ]
            if self.semgrep_prefilter_results
            else []
        )
