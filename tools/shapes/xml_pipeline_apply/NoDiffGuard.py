class XMLTransformerPipeline(BaseTransformerPipeline):

    def __init__(self, xml_transformer: type[XMLTransformer]):
        super().__init__()
        self.xml_transformer = xml_transformer

    def apply(
        self,
        context: CodemodExecutionContext,
        file_context: FileContext,
        results: list[Result] | None,
    ) -> ChangeSet | None:
        with TemporaryFile("w+") as output_file:
            # this will fail fast for files that are not XML
            try:
                transformer_instance = self.xml_transformer(
                    out=output_file,
                    file_context=file_context,
                    results=results,
                )
                parser = make_parser()
                parser.setContentHandler(transformer_instance)
                parser.setProperty(
                    handler.property_lexical_handler, transformer_instance
                )
                parser.parse(file_path := file_context.file_path)
                changes = transformer_instance.changes
                output_file.seek(0)
            except Exception:
                file_context.add_failure(
                    file_path, reason := "Failed to parse XML file"
                )
                logger.exception("%s %s", reason, file_path)
                return None

            if not changes:
                return None

            new_lines = output_file.readlines()
            # TODO there's a failure potential here for very large files
            original_lines = (
                file_context.file_path.read_bytes()
                .decode("utf-8")
                .splitlines(keepends=True)
            )
            diff = create_diff(
                original_lines,
                new_lines,
            )

            if not context.dry_run:
                file_context.file_path.write_bytes("".join(new_lines).encode("utf-8"))

            return ChangeSet(
                path=str(file_path.relative_to(context.directory)),
                diff=diff,
                changes=changes,
            )
