(** core_codemods/lazy_logging.py: how the combined format string is quoted. *)
Inductive requote_form := RequoteUnescaped.   (* raw values joined and wrapped in double quotes without re-escaping *)
