from codemodder.codemods.utils_mixin import NameResolutionMixin
from core_codemods.api import Metadata, Reference, ReviewGuidance, SimpleCodemod


class UpgradeSSLContextMinimumVersion(SimpleCodemod, NameResolutionMixin):
    metadata = Metadata(
        name="upgrade-sslcontext-minimum-version",
        summary="Upgrade SSLContext Minimum Version",
        review_guidance=ReviewGuidance.MERGE_WITHOUT_REVIEW,
        references=[
            Reference(
                url="https://docs.python.org/3/library/ssl.html#security-considerations"
            ),
            Reference(url="https://datatracker.ietf.org/doc/rfc8996/"),
            Reference(url="https://www.digicert.com/blog/depreciating-tls-1-0-and-1-1"),
        ],
    )
    change_description = "Replaces minimum SSL/TLS version for SSLContext."

    _module_name = "ssl"
    detector_pattern = """
        rules:
          - mode: taint
            pattern-sources:
              - patterns:
                - pattern: ssl.SSLContext(...)
                - pattern-inside: |
                    import ssl
                    ...
            pattern-sinks:
              - patterns:
                - pattern: $SINK.minimum_version = ssl.TLSVersion.$VERSION
                - metavariable-pattern:
                    metavariable: $VERSION
                    patterns:
                      - pattern-either:
                        - pattern: SSLv2
                        - pattern: SSLv3
                        - pattern: TLSv1
                        - pattern: TLSv1_1
                        - pattern: MINIMUM_SUPPORTED
        """

    def on_result_found(self, original_node, updated_node):
        maybe_name = self.get_aliased_prefix_name(
            original_node.value, self._module_name
        )
        if (maybe_name := maybe_name or self._module_name) == self._module_name:
            self.add_needed_import(self._module_name)
        self.remove_unused_import(original_node)
        return self.update_assign_rhs(updated_node, f"{maybe_name}.TLSVersion.TLSv1_2")
