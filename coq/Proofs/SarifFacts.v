From CM Require Import Model.Sarif Spec.SarifSpec.
Arguments jget : simpl never.

Lemma mapM_sound {A B} (f : A -> option B) (g : A -> list B) l ys :
  (forall x y, f x = Some y -> g x = [y]) -> mapM f l = Some ys -> ys = flat_map g l.
Proof.
  intros H. revert ys. induction l as [|x l IH]; simpl; intros ys E.
  - now inversion E.
  - destruct (f x) as [y|] eqn:Ex; [|discriminate].
    destruct (mapM f l) as [ys'|] eqn:El; [|discriminate].
    inversion E; subst. rewrite (H _ _ Ex). simpl. f_equal. now apply IH.
Qed.

Lemma mapM_sound_concat {A B} (f : A -> option (list B)) (g : A -> list B) l ys :
  (forall x y, f x = Some y -> g x = y) -> mapM f l = Some ys -> concat ys = flat_map g l.
Proof.
  intros H. revert ys. induction l as [|x l IH]; simpl; intros ys E.
  - now inversion E.
  - destruct (f x) as [y|] eqn:Ex; [|discriminate].
    destruct (mapM f l) as [ys'|] eqn:El; [|discriminate].
    inversion E; subst. simpl. rewrite (H _ _ Ex). f_equal. now apply IH.
Qed.

Ltac unbind H :=
  repeat match type of H with
         | bind ?e _ = Some _ => let x := fresh "x" in let E := fresh "E" in
                                 destruct e as [x|] eqn:E; [cbn [bind] in H | discriminate H]
         end.

Lemma jarr_some j l : jarr j = Some l -> j = JArr l.
Proof. destruct j; simpl; intros E; inversion E; reflexivity. Qed.

Lemma semgrep_result_sound run result fs :
  semgrep_result run result = Some fs ->
  fs = flat_map (fun loc => match semgrep_location (rule_of run result) loc with Some f => [f] | None => [] end)
                (arr_of (jget s_locations result)).
Proof.
  unfold semgrep_result. intros H. unbind H.
  unfold rule_of. rewrite E. apply jarr_some in E1. subst. simpl arr_of.
  eapply mapM_sound; [|exact H]. intros a b Hab. cbv beta. rewrite Hab. reflexivity.
Qed.

Lemma semgrep_run_sound run fs :
  semgrep_run run = Some fs ->
  fs = flat_map (fun result =>
         flat_map (fun loc => match semgrep_location (rule_of run result) loc with Some f => [f] | None => [] end)
                  (arr_of (jget s_locations result))) (arr_of (jget s_results run)).
Proof.
  unfold semgrep_run. intros H. unbind H. inversion H; subst. apply jarr_some in E0. subst. simpl arr_of.
  eapply mapM_sound_concat; [|exact E1]. intros a b Hab. cbv beta. symmetry. now apply semgrep_result_sound.
Qed.

Theorem semgrep_reader_sound doc fs : semgrep_reader doc = Some fs -> fs = semgrep_spec doc.
Proof.
  unfold semgrep_reader, semgrep_spec. intros H. unbind H. inversion H; subst. apply jarr_some in E0. subst. simpl arr_of.
  eapply mapM_sound_concat; [|exact E1]. intros a b Hab. cbv beta. symmetry. now apply semgrep_run_sound.
Qed.

Lemma codeql_result_sound run result fs :
  codeql_result run result = Some fs ->
  fs = flat_map (fun loc => match codeql_location (rule_of run result) loc with Some f => [f] | None => [] end)
                (arr_of (jget s_locations result)).
Proof.
  unfold codeql_result. intros H. unbind H.
  unfold rule_of. rewrite E. apply jarr_some in E1. subst. simpl arr_of.
  eapply mapM_sound; [|exact H]. intros a b Hab. cbv beta. rewrite Hab. reflexivity.
Qed.

Lemma codeql_run_sound run fs :
  codeql_run run = Some fs ->
  fs = if is_codeql run then
         flat_map (fun result =>
           flat_map (fun loc => match codeql_location (rule_of run result) loc with Some f => [f] | None => [] end)
                    (arr_of (jget s_locations result))) (arr_of (jget s_results run))
       else [].
Proof.
  unfold codeql_run, is_codeql. intros H. unbind H. destruct x.
  - unbind H. inversion H; subst. apply jarr_some in E1. subst. simpl arr_of.
    eapply mapM_sound_concat; [|exact E2]. intros a b Hab. cbv beta. symmetry. now apply codeql_result_sound.
  - now inversion H.
Qed.

Theorem codeql_reader_sound doc fs : codeql_reader doc = Some fs -> fs = codeql_spec doc.
Proof.
  unfold codeql_reader, codeql_spec. intros H. unbind H. inversion H; subst. apply jarr_some in E0. subst. simpl arr_of.
  eapply mapM_sound_concat; [|exact E1]. intros a b Hab. cbv beta. symmetry. now apply codeql_run_sound.
Qed.

Theorem dd_reader_sound doc fs : dd_reader doc = Some fs -> fs = dd_spec doc.
Proof.
  unfold dd_reader, dd_spec. destruct (jget s_results doc) as [[| | | |l|]|]; try discriminate. simpl arr_of.
  intros H. eapply mapM_sound; [|exact H]. intros a b Hab. cbv beta. rewrite Hab. reflexivity.
Qed.

(** A foreign run (another tool) next to a CodeQL run does not disturb the CodeQL findings. *)
Lemma codeql_spec_app runs1 runs2 :
  codeql_spec (JObj [(s_runs, JArr (runs1 ++ runs2))]) =
  codeql_spec (JObj [(s_runs, JArr runs1)]) ++ codeql_spec (JObj [(s_runs, JArr runs2)]).
Proof.
  assert (Hg : forall v, jget s_runs (JObj [(s_runs, v)]) = Some v) by (intros v; reflexivity).
  unfold codeql_spec. rewrite !Hg. simpl arr_of. now rewrite flat_map_app.
Qed.
