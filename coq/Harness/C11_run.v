(** Boolean checkers for the C11 correspondence: the harness prints observed executions of the real CLI as
    case terms; Coq evaluates the model (Model/Sched.v) and the spec (Spec/SchedSpec.v) on them. *)
From CM Require Import Harness.RunBase Base.Dict Model.Sched Spec.SchedSpec Generated.Tables.

Definition strs_eqb : list str -> list str -> bool := list_eqb str_eqb.
Definition ostr_eqb : option str -> option str -> bool := option_eqb str_eqb.

(* ---------------------------------------------------------------------------------------------- *)
(** One codemod over the project, as observed:
    - [sc_files]   the files in the order they were submitted to the pool (relative paths)
    - [sc_fs0]     path -> content (content = an identifier of the bytes) before the codemod
    - [sc_oracle]  what the pipeline of this codemod answers on (path, content read), measured on the
                   single-file projects {f}: new content if rewritten, "has a changeset", "is a failed file"
    - [sc_trace]   the observed schedule (Read at the start of _process_file, Compute/Write at its end)
    - [sc_fs1]     path -> content after the codemod
    - [sc_changed], [sc_failed]  changeset[].path and failedFiles of this codemod's result in the report, in order *)
Record sched_case := {
  sc_files : list str; sc_fs0 : list (str * str);
  sc_oracle : list ((str * str) * (option str * (bool * bool)));
  sc_trace : list ev; sc_fs1 : list (str * str); sc_changed : list str; sc_failed : list str;
  (* per task: the content of its file as the wrapper saw it when _process_file started / returned, in THIS run *)
  sc_reads : list (nat * option str); sc_afters : list (nat * option str) }.

Definition key_eqb : str * str -> str * str -> bool := pair_eqb str_eqb str_eqb.
Definition T_of (tbl : list ((str * str) * (option str * (bool * bool)))) : transformer :=
  fun p _ c =>
    match c with
    | None => (None, fres_empty)
    | Some t =>
        match dget key_eqb (p, t) tbl with
        | Some (newc, (ch, fl)) =>
            (newc, {| r_changesets := if ch then [p] else []; r_failures := if fl then [p] else [];
                      r_deps := []; r_unfixed := [] |})
        | None => (None, {| r_changesets := []; r_failures := [[63]%N]; r_deps := []; r_unfixed := [] |})
        end
    end.
Definition no_findings : path -> findings := fun _ => [].

Definition sched_paths (c : sched_case) : list str := map fst (sc_fs0 c) ++ map fst (sc_fs1 c) ++ sc_files c.

(** the harness built a genuine interleaving of the tasks, over distinct files *)
Fixpoint nodup_strs (l : list str) : bool :=
  match l with [] => true | x :: r => negb (mem_str x r) && nodup_strs r end.
Definition sched_trace_ok (c : sched_case) : bool :=
  nodup_strs (sc_files c) && check_il (tasks (length (sc_files c))) (sc_trace c).

(** MODEL = IMPLEMENTATION: running the model on the observed schedule gives the observed file system and report order *)
Definition sched_model_ok (c : sched_case) : bool :=
  let n := length (sc_files c) in
  let st := exec sched_task_local (sc_files c) (T_of (sc_oracle c)) no_findings (sc_fs0 c) (sc_trace c) in
  let m := merged sched_collect n (sc_trace c) st in
  forallb (fun p => ostr_eqb (lookup (st_fs st) p) (lookup (sc_fs1 c) p)) (sched_paths c)
  && strs_eqb (r_changesets m) (sc_changed c) && strs_eqb (r_failures m) (sc_failed c).

(** MODEL = IMPLEMENTATION at the observed points of the schedule (this is where the trace matters): when task i starts,
    its file holds what the model's file system holds at that point of the trace; when it returns, likewise.  A task that
    wrote to another task's file, even transiently, or a file rewritten before its own task read it, shows here. *)
Definition sched_points_ok (c : sched_case) : bool :=
  let sts := exec_states sched_task_local (sc_files c) (T_of (sc_oracle c)) no_findings (init (sc_fs0 c)) (sc_trace c) in
  forallb (fun es : ev * state =>
             let '(e, st) := es in
             match e with
             | Read i =>
                 match dget Nat.eqb (rd_slot sched_task_local i) (st_rd st), dget Nat.eqb i (sc_reads c) with
                 | Some m, Some o => ostr_eqb m o
                 | _, _ => false
                 end
             | Write i =>
                 match nth_error (sc_files c) i, dget Nat.eqb i (sc_afters c) with
                 | Some p, Some o => ostr_eqb (lookup (st_fs st) p) o
                 | _, _ => false
                 end
             | Compute _ => true
             end) sts.

(** IMPLEMENTATION = SPEC: the observation is what the schedule-free specification says *)
Definition sched_spec_ok (c : sched_case) : bool :=
  let T := T_of (sc_oracle c) in
  let m := spec_merged (sc_files c) T no_findings (sc_fs0 c) in
  forallb (fun p => ostr_eqb (spec_fs (sc_files c) T no_findings (sc_fs0 c) p) (lookup (sc_fs1 c) p)) (sched_paths c)
  && strs_eqb (r_changesets m) (sc_changed c) && strs_eqb (r_failures m) (sc_failed c).

(* ---------------------------------------------------------------------------------------------- *)
(** The pool of one codemod: --max-workers, cpu count, the bound the executor object reports, and the observed events
    (Submit in input order; Spawn when a thread id is seen for the first time; Take/Done with the thread's index) *)
Definition pool_case := (N * N * N * list pev)%type.
Definition pool_model_ok (c : pool_case) : bool :=
  let '(w, cpu, bound, tr) := c in
  N.eqb (pool_bound pool_size_arg w cpu) bound &&
  match pool_run (pool_bound pool_size_arg w cpu) pool_init tr with Some _ => true | None => false end.
Definition pool_spec_ok (c : pool_case) : bool :=
  let '(w, cpu, bound, tr) := c in (N.of_nat (peak tr) <=? w)%N.

(* ---------------------------------------------------------------------------------------------- *)
(** Registry: entry-point sequence with the loaded collections, the default exclusions, sast_only, the observed
    execution order.  MODEL check only: the exact order is what the code as written produces. *)
Definition reg_case := (list entry_point * list str * bool * list str)%type.

Fixpoint inserts {A} (x : A) (l : list A) : list (list A) :=
  match l with
  | [] => [[x]]
  | y :: r => (x :: l) :: map (cons y) (inserts x r)
  end.
Fixpoint perms {A} (l : list A) : list (list A) :=
  match l with [] => [[]] | x :: r => flat_map (inserts x) (perms r) end.

Definition reg_model_ok (c : reg_case) : bool :=
  let '(eps, excl, sast, obs) := c in
  match entry_point_iteration with
  | Deterministic => strs_eqb (run_order Deterministic (fun n => n) 8 eps excl sast) obs
  | OverSet =>
      (* the seeded hash is not observable: some order of the collections must explain the observation *)
      existsb (fun p => strs_eqb (match_default excl sast (flat_map snd p)) obs) (perms (dedup_eps eps))
  end.

(* ---------------------------------------------------------------------------------------------- *)
(** Path order: the matched paths in enumeration order, the observed task order.  MODEL check only. *)
Definition order_case := (list str * list str)%type.
Definition order_model_ok (c : order_case) : bool :=
  let '(enum, obs) := c in
  match sched_paths_order with
  | SortedPaths => strs_eqb (match_order SortedPaths (fun _ => 0%N) 1 enum) obs
  | SetOrder => strs_eqb (sort_paths enum) (sort_paths obs)   (* the seeded hash is not observable: some order of the same set *)
  end.

(* ---------------------------------------------------------------------------------------------- *)
(** SPEC for orders (task order, execution order, report order): the property asks for CONSTANCY over hash seeds,
    creation orders and schedules, not for one particular order.  A case is the list of the orders observed in the
    runs of one project that differ only in those dimensions. *)
Definition const_case := list (list str).
Definition const_spec_ok (c : const_case) : bool :=
  match c with [] => true | x :: r => forallb (strs_eqb x) r end.
