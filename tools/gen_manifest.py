#!/usr/bin/env python3
"""Regenerate /verif/MANIFEST.json from the table below (kept here so that the manifest is always valid)."""
import json
from pathlib import Path

VERIF = Path(__file__).resolve().parents[1]

COMMON_NOTE = ("Trusted: Coq 8.16.1 kernel + vm_compute; tools/translate.py; the correspondence harness; the hand-written "
               "Gallina model mirrors the named source fragments (modelled, not verified). Print Assumptions of every property "
               "theorem is read back on each run and must be 'Closed under the global context'.")

# id -> (technique, level text, design ref, extra note); only properties listed here are claimed
CLAIMED = {
    "C12": ("Coq proof (union law of |, |=, fold, any order) over a table-indexed model + differential correspondence via vm_compute",
            "Theorems C12_or_total_union, C12_ior_union, C12_family_union_any_order, C12_add_result hold for every family of result "
            "sets (unbounded); the variant of ResultSet the theorems speak about is extracted from result.py on every run; the model is "
            "run against the real classes on generated families (structural equality incl. key order) and the spec against the real output.",
            "DESIGN.md §4.1, §5 C12", ""),
}

REASON_PENDING = "model and theorems for this property are not built yet in this development; no check is registered rather than an unsound one"

ALL = [f"C{i:02d}" for i in range(1, 21)]


def load_entries():
    """manifest_entries/Cxx.json: {"property_id","technique","level_text","design_ref","level_note"} written per property."""
    d = VERIF / "manifest_entries"
    for f in sorted(d.glob("C*.json")) if d.is_dir() else []:
        e = json.loads(f.read_text())
        if (VERIF / "harness" / (e["property_id"].lower() + ".py")).exists():
            CLAIMED[e["property_id"]] = (e["technique"], e["level_text"], e.get("design_ref", "DESIGN.md §5 " + e["property_id"]), e.get("level_note", ""))


def main():
    load_entries()
    checks = []
    for pid, (technique, text, ref, note) in sorted(CLAIMED.items()):
        checks.append({
            "property_id": pid,
            "quick_cmd": f"bin/check {pid} quick",
            "thorough_cmd": f"bin/check {pid} thorough",
            "evidence_file": f"/verif/evidence/{pid}.json",
            "replay_cmd_template": "bin/check replay {path}",
            "engine": "coq-proof+correspondence",
            "level_claimed": {"category": "proof", "text": text, "design_ref": ref},
            "level_note": (COMMON_NOTE + " " + note).strip(),
            "technique": technique,
        })
    man = {
        "version": 1,
        "setup_cmd": "bin/check setup",
        "hooks": {
            "guard": "CODEMODDER_VERIF",
            "enable": "no source hook exists in /repo; checks set CODEMODDER_VERIF=1 in their own environment and install wrappers "
                      "(delays, faults, counters) from the harness process only",
            "baseline_off_cmd": "/venv/bin/python tools/baseline.py /repo",
            "source_commits": [],
            "add_only": True,
        },
        "engines": [{
            "name": "coq-proof+correspondence",
            "path": "/verif/bin/check",
            "serves_properties": sorted(CLAIMED),
            "kind_free_text": "Coq 8.16.1 development (coq/), tables regenerated from /repo by tools/translate.py, differential "
                              "correspondence between the Gallina model (vm_compute) and the implementation (harness/)",
        }],
        "checks": checks,
        "notes": "Fix commits in /repo and known findings are listed in known_findings.json; see DESIGN.md.",
        "not_applicable": [{"property_id": p, "reason": REASON_PENDING} for p in ALL if p not in CLAIMED],
    }
    (VERIF / "MANIFEST.json").write_text(json.dumps(man, indent=1) + "\n")
    try:
        import jsonschema
        jsonschema.validate(man, json.load(open("/root/.vp/MANIFEST.schema.json")))
        print("MANIFEST.json valid;", len(checks), "checks")
    except ImportError:
        print("MANIFEST.json written (jsonschema not available to validate)")


if __name__ == "__main__":
    main()
