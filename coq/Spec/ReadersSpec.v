(** Reference extraction C12 demands: every open issue AND hotspot that carries a location. *)
From CM Require Import Model.Readers.

Definition arr_or_empty (j : json) : list json := match j with JArr l => l | _ => [] end.

Definition is_open (e : json) : bool :=
  match jget s_status e with
  | Some (JStr s) => let l := lower_ascii s in str_eqb l s_open || str_eqb l s_to_review
  | _ => false
  end.

Definition sonar_rule (e : json) : str :=
  match jget s_rule e with
  | Some (JStr (c :: r)) => c :: r
  | _ => match jget s_ruleKey e with Some (JStr r) => r | _ => [] end
  end.

Definition sonar_finding_of (e : json) : list finding :=
  match jget s_textRange e, jget s_component e with
  | Some (JObj ((k, v) :: t)), Some (JStr comp) =>
      let tr := JObj ((k, v) :: t) in
      [{| f_rule := sonar_rule e;
          f_id := match jget s_key e with Some k => k | None => JStr (sonar_rule e) end;
          f_file := last_part 58%N comp;
          f_sl := jget_or_null s_startLine tr; f_sc := jget_or_null s_startOffset tr;
          f_el := jget_or_null s_endLine tr; f_ec := jget_or_null s_endOffset tr |}]
  | _, _ => []
  end.

Definition sonar_spec (doc : json) : list finding :=
  flat_map (fun e => if is_open e then sonar_finding_of e else [])
           (arr_or_empty (jget_or_null s_issues doc) ++ arr_or_empty (jget_or_null s_hotspots doc)).

(** code flows and message, declaratively: `flows`, when present, is a list of objects (or an empty dict/string);
    each flow's `locations`, when present, likewise a list of objects carrying an object textRange and a string component;
    `message`, when present and truthy, is a string. *)
Definition wf_flow_loc (l : json) : bool :=
  match l with
  | JObj _ => match jget s_textRange l, jget s_component l with Some (JObj _), Some (JStr _) => true | _, _ => false end
  | _ => false
  end.
Definition list_of (P : json -> bool) (j : json) : bool :=
  match j with JArr l => forallb P l | JObj [] => true | JStr [] => true | _ => false end.
Definition wf_flow (f : json) : bool :=
  match f with
  | JObj _ => match jget s_locations f with None => true | Some ls => list_of wf_flow_loc ls end
  | _ => false
  end.
Definition wf_flows (e : json) : bool :=
  match jget s_flows e with None => true | Some fl => list_of wf_flow fl end.
Definition wf_message (e : json) : bool :=
  match jget s_message e with
  | None | Some JNull | Some (JStr _) | Some (JBool false) | Some (JArr []) | Some (JObj []) => true
  | Some (JNum z) => Z.eqb z 0
  | Some _ => false
  end.

(** Well-formed Sonar entry: an object with a string status, a non-empty string rule (or ruleKey) containing ':', and
    — when a textRange is present — an object textRange (or a falsy one) and a string component; code flows and message
    as described above. *)
Definition rule_ok (e : json) : bool :=
  match jget s_rule e with
  | Some (JStr (c :: r)) => rule_has_colon (c :: r)
  | Some (JStr []) | Some JNull | None =>
      match jget s_ruleKey e with Some (JStr (c :: r)) => rule_has_colon (c :: r) | _ => false end
  | Some (JBool false) | Some (JArr []) | Some (JObj []) =>
      match jget s_ruleKey e with Some (JStr (c :: r)) => rule_has_colon (c :: r) | _ => false end
  | Some (JNum z) =>
      if Z.eqb z 0 then match jget s_ruleKey e with Some (JStr (c :: r)) => rule_has_colon (c :: r) | _ => false end else false
  | _ => false
  end.
Definition tr_ok (e : json) : bool :=
  match jget s_textRange e with
  | None | Some JNull | Some (JBool false) | Some (JStr []) | Some (JArr []) | Some (JObj []) => true
  | Some (JNum z) => Z.eqb z 0
  | Some (JObj _) => match jget s_component e with Some (JStr _) => true | _ => false end
  | _ => false
  end.
Definition open_parts_ok (e : json) : bool := rule_ok e && tr_ok e && wf_flows e && wf_message e.
Definition wf_entry (e : json) : bool :=
  match e with
  | JObj _ => match jget s_status e with Some (JStr _) => open_parts_ok e | _ => false end
  | _ => false
  end.
(** what the reader needs of an entry in order not to raise on it: closed entries are only looked at for their status *)
Definition readable_entry (e : json) : bool :=
  match e with
  | JObj _ => match jget s_status e with Some (JStr _) => if is_open e then open_parts_ok e else true | _ => false end
  | _ => false
  end.
Definition wf_list (j : json) : bool :=
  match j with JNull => true | JArr l => forallb wf_entry l | _ => false end.
(** container shape only: an object whose issues/hotspots are arrays or absent/null (or another falsy value) *)
Definition wf_seq (j : json) : bool := match j with JArr _ => true | _ => negb (jtruthy j) end.
Definition wf_container (doc : json) : bool :=
  match doc with
  | JObj _ => wf_seq (jget_or_null s_issues doc) && wf_seq (jget_or_null s_hotspots doc)
  | _ => false
  end.
(** reference extraction that tolerates malformed entries: every open issue and hotspot that is individually readable *)
Definition sonar_spec_robust (doc : json) : list finding :=
  flat_map (fun e => if readable_entry e && is_open e then sonar_finding_of e else [])
           (arr_or_empty (jget_or_null s_issues doc) ++ arr_or_empty (jget_or_null s_hotspots doc)).
Definition wf_sonar (doc : json) : bool :=
  match doc with
  | JObj _ => wf_list (jget_or_null s_issues doc) && wf_list (jget_or_null s_hotspots doc)
  | _ => false
  end.
