import libcst as cst
from libcst import matchers as m

from codemodder.codemods.libcst_transformer import LibcstTransformerPipeline
from core_codemods.api import Metadata, ReviewGuidance, SimpleCodemod
from core_codemods.api.core_codemod import CoreCodemod


class FixMutableParamsTransformer(SimpleCodemod):
    change_description = "Replace mutable parameter with `None`."

    _BUILTIN_TO_LITERAL = {
        "list": cst.List(elements=[]),
        "dict": cst.Dict(elements=[]),
    }

    _matches_literal: m.OneOf
    _matches_builtin: m.Call

    def __init__(self, *args, **kwargs):
        super().__init__(*args, **kwargs)
        # Looking for [], {}, or set() (which has no empty literal)
        self._matches_literal = m.OneOf(
            m.List | m.Dict | m.Set,
            m.Call(func=m.Name("set")),
        )
        # Looking for list() or dict()
        self._matches_builtin = m.Call(func=m.Name("list") | m.Name("dict"))

    def _create_annotation(self, orig: cst.Param, updated: cst.Param):
        match orig.annotation:
            case cst.Annotation(annotation=cst.Subscript(sub)):
                match sub:  # type: ignore
                    case cst.Name("Optional"):
                        # Already an Optional, so we can just preserve the original annotation
                        return updated.annotation

        return (
            updated.annotation.with_changes(
                annotation=cst.Subscript(
                    value=cst.Name("Optional"),
                    slice=[
                        cst.SubscriptElement(
                            slice=cst.Index(value=updated.annotation.annotation)
                        )
                    ],
                )
            )
            if orig.annotation is not None and updated.annotation is not None
            else None
        )

    def _gather_and_update_params(
        self, original_node: cst.FunctionDef, updated_node: cst.FunctionDef
    ):
        updated_params = []
        new_var_decls = []
        add_annotation = False

        # Iterate over all original/update parameters in parallel
        for orig, updated in zip(
            original_node.params.params,
            updated_node.params.params,
        ):
            needs_update = False
            if orig.default is not None:
                if m.matches(orig.default, self._matches_literal):
                    # We can reuse the original literal value in this case
                    new_var_decls.append(orig)
                    needs_update = True
                elif m.matches(orig.default, self._matches_builtin):
                    # Try to replace call to builtin with bare literal as long as there are no arguments
                    # Otherwise the safest thing is just to reuse the original value inline
                    new_var_decls.append(
                        orig.with_changes(
                            # Should be a safe attribute access since we've already matched the call
                            default=self._BUILTIN_TO_LITERAL[orig.default.func.value]
                        )
                        if not orig.default.args
                        else orig
                    )
                    needs_update = True

            annotation = (
                self._create_annotation(orig, updated) if needs_update else None
            )
            add_annotation = add_annotation or annotation is not None
            updated_params.append(
                (
                    updated.with_changes(
                        default=cst.Name("None"),
                        annotation=annotation,
                    )
                    if needs_update
                    else updated
                ),
            )

        return updated_params, new_var_decls, add_annotation

    def _build_body_prefix(self, new_var_decls: list[cst.Param]) -> list[cst.Assign]:
        return [
            cst.Assign(
                targets=[cst.AssignTarget(target=var_decl.name)],
                value=cst.IfExp(
                    test=cst.Comparison(
                        left=var_decl.name,
                        comparisons=[cst.ComparisonTarget(cst.Is(), cst.Name("None"))],
                    ),
                    # In the case of list() or dict(), this particular
                    # default value has been updated to use the literal
                    # instead. This does not affect the default
                    # argument in the function itself.
                    body=var_decl.default,
                    orelse=var_decl.name,
                ),
            )
            for var_decl in new_var_decls
        ]

    def _build_new_body(
        self, new_var_decls, body: cst.BaseSuite
    ) -> list[cst.BaseStatement] | list[cst.BaseSmallStatement]:
        offset = 0
        new_body = []
        # Preserve placement of docstring
        if m.matches(
            body.body[0],
            m.Expr(value=m.SimpleString())
            | m.SimpleStatementLine(body=[m.Expr(value=m.SimpleString())]),
        ):
            new_body.append(body.body[0])
            offset = 1
        match body:
            case cst.SimpleStatementSuite():
                new_body.extend(self._build_body_prefix(new_var_decls))
                new_body.extend(body.body[offset:])
            case cst.IndentedBlock():
                new_body.extend(
                    [
                        cst.SimpleStatementLine(body=[stmt])
                        for stmt in self._build_body_prefix(new_var_decls)
                    ]
                )
                new_body.extend(body.body[offset:])
        return new_body

    def _is_abstractmethod(self, node: cst.FunctionDef) -> bool:
        for decorator in node.decorators:
            match decorator.decorator:
                case cst.Name("abstractmethod"):
                    return True

        return False

    def _is_overloaded(self, node: cst.FunctionDef) -> bool:
        for decorator in node.decorators:
            match decorator.decorator:
                case cst.Name("overload"):
                    return True

        return False

    def leave_FunctionDef(
        self,
        original_node: cst.FunctionDef,
        updated_node: cst.FunctionDef,
    ):
        """Transforms function definitions with mutable default parameters"""
        if not self.node_is_selected(original_node):
            return updated_node

        (
            updated_params,
            new_var_decls,
            add_annotation,
        ) = self._gather_and_update_params(original_node, updated_node)

        if new_var_decls:
            # If we're adding statements to the body, we know a change took place
            self.add_change(original_node, self.change_description)
        if add_annotation:
            self.add_needed_import("typing", "Optional")

        # overloaded methods with empty bodies should only change signature
        empty_statement = m.Expr(value=m.Ellipsis()) | m.Pass()
        if self._is_overloaded(updated_node) and m.matches(
            original_node.body,
            m.SimpleStatementSuite(body=[empty_statement])
            | m.IndentedBlock(body=[m.SimpleStatementLine(body=[empty_statement])]),
        ):
            return updated_node.with_changes(
                params=updated_node.params.with_changes(params=updated_params)
            )

        new_body = (
            self._build_new_body(new_var_decls, updated_node.body)
            if not self._is_abstractmethod(original_node)
            else updated_node.body.body
        )

        return updated_node.with_changes(
            params=updated_node.params.with_changes(params=updated_params),
            body=(
                updated_node.body.with_changes(body=new_body)
                if new_body
                else updated_node.body
            ),
        )


FixMutableParams = CoreCodemod(
    metadata=Metadata(
        name="fix-mutable-params",
        summary="Replace Mutable Default Parameters",
        review_guidance=ReviewGuidance.MERGE_WITHOUT_REVIEW,
        references=[],
    ),
    transformer=LibcstTransformerPipeline(FixMutableParamsTransformer),
    detector=None,
)
