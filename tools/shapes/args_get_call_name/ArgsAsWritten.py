def get_call_name(call: cst.Call) -> str:
    """
    Extracts the full name from a function call

    """
    # is it a composite name? e.g. a.b.c
    if matchers.matches(call.func, matchers.Attribute()):
        return call.func.attr.value
    # It's a simple Name
    return call.func.value

