from typing import Union

import libcst as cst

from codemodder.codemods.libcst_transformer import (
    LibcstResultTransformer,
    LibcstTransformerPipeline,
)
from codemodder.codemods.utils_mixin import NameResolutionMixin
from codemodder.utils.utils import full_qualified_name_from_class, list_subclasses
from core_codemods.api import Metadata, Reference, ReviewGuidance
from core_codemods.api.core_codemod import CoreCodemod


class ExceptionWithoutRaiseTransformer(LibcstResultTransformer, NameResolutionMixin):
    change_description = "Raised bare exception statement"

    def leave_SimpleStatementLine(
        self,
        original_node: cst.SimpleStatementLine,
        updated_node: cst.SimpleStatementLine,
    ) -> Union[
        cst.BaseStatement, cst.FlattenSentinel[cst.BaseStatement], cst.RemovalSentinel
    ]:
        if not self.node_is_selected(original_node):
            return updated_node

        match original_node:
            case cst.SimpleStatementLine(
                body=[cst.Expr(cst.Name() | cst.Attribute() as name)]
            ):
                if self._is_subclass_of_base_exception(name):
                    self.report_change(original_node)
                    return updated_node.with_changes(body=[cst.Raise(exc=name)])
            case cst.SimpleStatementLine(
                body=[
                    cst.Expr(
                        cst.Call(func=cst.Name() | cst.Attribute() as name)
                    ) as call
                ]
            ):
                if self._is_subclass_of_base_exception(name):
                    self.report_change(original_node)
                    return updated_node.with_changes(body=[cst.Raise(exc=call)])
        return updated_node

    def _is_subclass_of_base_exception(self, name: cst.Name | cst.Attribute) -> bool:
        true_name = self.find_base_name(name)
        all_exceptions = [
            full_qualified_name_from_class(kls)
            for kls in list_subclasses(BaseException)
        ]
        if true_name in all_exceptions:
            return True
        return False


ExceptionWithoutRaise = CoreCodemod(
    metadata=Metadata(
        name="exception-without-raise",
        summary="Ensure bare exception statements are raised",
        review_guidance=ReviewGuidance.MERGE_WITHOUT_REVIEW,
        references=[
            Reference(
                url="https://docs.python.org/3/tutorial/errors.html#raising-exceptions"
            ),
        ],
    ),
    transformer=LibcstTransformerPipeline(ExceptionWithoutRaiseTransformer),
    detector=None,
)
