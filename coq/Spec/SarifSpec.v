(** Reference extraction for SARIF: every location of every result of every run (of that tool, for CodeQL). *)
From CM Require Import Model.Sarif.

Definition opt_list {A} (o : option (list A)) : list A := match o with Some l => l | None => [] end.
Definition arr_of (o : option json) : list json := match o with Some (JArr l) => l | _ => [] end.

Definition rule_of (run result : json) : str := match extract_rule_id result run with Some r => r | None => [] end.

Definition semgrep_spec (doc : json) : list finding :=
  flat_map (fun run =>
    flat_map (fun result =>
      flat_map (fun loc => match semgrep_location (rule_of run result) loc with Some f => [f] | None => [] end)
               (arr_of (jget s_locations result)))
      (arr_of (jget s_results run)))
    (arr_of (jget s_runs doc)).

Definition is_codeql (run : json) : bool := match codeql_detect run with Some b => b | None => false end.

Definition codeql_spec (scd : sc_default) (doc : json) : list finding :=
  flat_map (fun run =>
    if is_codeql run then
      flat_map (fun result =>
        flat_map (fun loc => match codeql_location scd (rule_of run result) loc with Some f => [f] | None => [] end)
                 (arr_of (jget s_locations result)))
        (arr_of (jget s_results run))
    else [])
    (arr_of (jget s_runs doc)).

Definition dd_spec (doc : json) : list finding :=
  flat_map (fun e => match dd_entry e with Some f => [f] | None => [] end) (arr_of (jget s_results doc)).

(** When do the readers raise?  Exactly when some element is individually unreadable: [readable_*] say, element by
    element, that every run has a results array, every result an extractable rule id and a locations array, every
    location the fields the reader dereferences.  (Nothing is silently skipped: a reader either raises or files all.) *)
Definition all_arr (o : option json) (P : json -> bool) : bool :=
  match o with Some (JArr l) => forallb P l | _ => false end.

Definition readable_semgrep (doc : json) : bool :=
  all_arr (jget s_runs doc) (fun run =>
    all_arr (jget s_results run) (fun result =>
      match extract_rule_id result run with
      | Some rule => all_arr (jget s_locations result) (fun loc => is_some (semgrep_location rule loc))
      | None => false
      end)).

Definition readable_codeql (scd : sc_default) (doc : json) : bool :=
  all_arr (jget s_runs doc) (fun run =>
    match codeql_detect run with
    | Some true =>
        all_arr (jget s_results run) (fun result =>
          match extract_rule_id result run with
          | Some rule => all_arr (jget s_locations result) (fun loc => is_some (codeql_location scd rule loc))
          | None => false
          end)
    | Some false => true
    | None => false
    end).

Definition readable_dd (doc : json) : bool := all_arr (jget s_results doc) (fun e => is_some (dd_entry e)).
