from codemodder.codemods.libcst_transformer import NewArg
from core_codemods.api import Metadata, Reference, ReviewGuidance, SimpleCodemod


class LxmlSafeParserDefaults(SimpleCodemod):
    metadata = Metadata(
        name="safe-lxml-parser-defaults",
        summary="Use Safe Defaults for `lxml` Parsers",
        review_guidance=ReviewGuidance.MERGE_WITHOUT_REVIEW,
        references=[
            Reference(
                url="https://lxml.de/apidoc/lxml.etree.html#lxml.etree.XMLParser"
            ),
            Reference(
                url="https://owasp.org/www-community/vulnerabilities/XML_External_Entity_(XXE)_Processing"
            ),
            Reference(
                url="https://cheatsheetseries.owasp.org/cheatsheets/XML_External_Entity_Prevention_Cheat_Sheet.html"
            ),
        ],
    )
    change_description = "Replace `lxml` parser parameters with safe defaults."
    detector_pattern = """
            rules:
                - patterns:
                  - pattern: lxml.etree.$CLASS(...)
                  - pattern-not: lxml.etree.$CLASS(..., resolve_entities=False, ...)
                  - pattern-not: lxml.etree.$CLASS(..., no_network=True, ..., resolve_entities=False, ...)
                  - pattern-not: lxml.etree.$CLASS(..., dtd_validation=False, ..., resolve_entities=False, ...)
                  - metavariable-pattern:
                      metavariable: $CLASS
                      patterns:
                        - pattern-either:
                          - pattern: XMLParser
                          - pattern: ETCompatXMLParser
                          - pattern: XMLTreeBuilder
                          - pattern: XMLPullParser
                  - pattern-inside: |
                      import lxml.etree
                      ...
        """

    def on_result_found(self, original_node, updated_node):
        new_args = self.replace_args(
            original_node,
            [
                NewArg(name="resolve_entities", value="False", add_if_missing=True),
                NewArg(name="no_network", value="True", add_if_missing=False),
                NewArg(name="dtd_validation", value="False", add_if_missing=False),
            ],
        )
        return self.update_arg_target(updated_node, new_args)
