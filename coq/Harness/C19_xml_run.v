(** Correspondence checkers for C19 (XML half). *)
From CM Require Import Harness.RunBase Base.Dict Model.XmlPipe Spec.XmlPipeSpec Generated.Tables.

Definition attrs_eqb : dict str str -> dict str str -> bool := list_eqb (pair_eqb str_eqb str_eqb).
Definition ostr_eqb : option str -> option str -> bool := option_eqb str_eqb.
Definition item_eqb (a b : item) : bool :=
  match a, b with
  | IStart n x, IStart m y => str_eqb n m && attrs_eqb x y
  | IEnd n, IEnd m => str_eqb n m
  | IText s, IText t => str_eqb s t
  | IPI t d, IPI u e => str_eqb t u && str_eqb d e
  | ISkipped n, ISkipped m => str_eqb n m
  | IComment s, IComment t => str_eqb s t
  | ICDataStart, ICDataStart => true
  | ICDataEnd, ICDataEnd => true
  | IDoctype n p s, IDoctype m q t => str_eqb n m && ostr_eqb p q && ostr_eqb s t
  | _, _ => false
  end.
Definition xchange_eqb (a b : xchange) : bool :=
  N.eqb (xc_line a) (xc_line b) && list_eqb N.eqb (xc_findings a) (xc_findings b).

(** which transformer the pipeline was given *)
Inductive xkind :=
| KAttr (amap : dict str (dict str str)) (results : option (list xresult)) (line_only : bool)
| KNew (news : list new_element).

Definition xobs := (option (str * list xchange) * str * bool * list (N * N))%type.   (* ret, file text, failed, unfixed *)

Record xml_case := {
  xk : xkind;
  x_fc : list xresult;
  x_orig : str;                               (* decoded text, or a code for the bytes when not x_reread_ok *)
  x_reread_ok : bool;                         (* the original decodes as UTF-8 *)
  x_parse : option (list pevent);
  x_diffs : list (str * str);                  (* written text -> create_diff(original lines, its lines) *)
  x_real : option xobs;                       (* None = apply() raised *)
  x_dry : option xobs;
  x_reparsed : option (list event) }.          (* events of the file written by the real run, read back *)

Definition step_of (c : xml_case) : pevent -> list event * list xchange :=
  match xk c with
  | KAttr amap results lo => attr_step (x_fc c) amap results lo
  | KNew news => new_step (x_fc c) news
  end.
Definition xdiff_of (g : list (str * str)) (orig new : str) : option str := dget str_eqb new g.

(** `not diff`: the implementation's diff of (original, new) is the empty string *)
Definition xdiff_empty (d : option str) : bool := match d with Some [] => true | _ => false end.

Definition xout_eqb (m : xapply_out (D := option str)) (o : xobs) : bool :=
  let '(ret, file, failed, unf) := o in
  match xo_ret m, ret with
  | None, None => true
  | Some cs, Some (d, chs) => option_eqb str_eqb (xcs_diff cs) (Some d) && list_eqb xchange_eqb (xcs_changes cs) chs
  | _, _ => false
  end && str_eqb (xo_file m) file && Bool.eqb (xo_failed m) failed && list_eqb (pair_eqb N.eqb N.eqb) (xo_unfixed m) unf.

(** MODEL = IMPLEMENTATION: returned changes, diff, written text byte for byte, failure bookkeeping *)
Definition xobs_matches (m : option (xapply_out (D := option str))) (o : option xobs) : bool :=
  match m, o with
  | None, None => true
  | Some m, Some o => xout_eqb m o
  | _, _ => false
  end.
Definition xml_model_ok (c : xml_case) : bool :=
  xobs_matches (xml_apply_file (x_fc c) (xdiff_of (x_diffs c)) xdiff_empty xml_pipeline_diff_guard (step_of c) false
                               (x_orig c) (x_parse c) (x_reread_ok c)) (x_real c) &&
  xobs_matches (xml_apply_file (x_fc c) (xdiff_of (x_diffs c)) xdiff_empty xml_pipeline_diff_guard (step_of c) true
                               (x_orig c) (x_parse c) (x_reread_ok c)) (x_dry c).

(** the expected stream and changes *)
Definition expected_events (c : xml_case) (evs : list pevent) : list event :=
  match xk c with
  | KAttr amap results lo => retarget_attr amap results lo evs
  | KNew news => retarget_new news evs
  end.
Definition expected_changes (c : xml_case) (evs : list pevent) : list xchange :=
  match xk c with
  | KAttr amap results lo => changes_attr (x_fc c) amap results lo evs
  | KNew news => changes_new (x_fc c) news evs
  end.

(** known deviations, switchable: the content check is run strictly, with all of them, and with all but one *)
Record devs := { d_cdata : bool; d_doctype : bool; d_comment : bool; d_cr : bool }.
Definition dflush (d : devs) (in_cdata : bool) (pending : str) : list item :=
  flush in_cdata (if d_cr d then universal_newlines pending else pending).
Fixpoint canon_dev (d : devs) (in_cdata : bool) (pending : str) (evs : list event) : list item :=
  match evs with
  | [] => dflush d in_cdata pending
  | e :: r =>
      match e with
      | Characters c => canon_dev d in_cdata (pending ++ (if in_cdata && d_cdata d then escape c else c)) r
      | IgnorableWhitespace c => canon_dev d in_cdata (pending ++ c) r
      | StartDocument | EndDocument | EndDTD => canon_dev d in_cdata pending r
      | StartElement n a => dflush d in_cdata pending ++ IStart n a :: canon_dev d in_cdata [] r
      | EndElement n => dflush d in_cdata pending ++ IEnd n :: canon_dev d in_cdata [] r
      | ProcessingInstruction t x => dflush d in_cdata pending ++ IPI t x :: canon_dev d in_cdata [] r
      | SkippedEntity n => dflush d in_cdata pending ++ ISkipped n :: canon_dev d in_cdata [] r
      | Comment c => dflush d in_cdata pending ++ IComment c :: canon_dev d in_cdata (if d_comment d then [10%N] else []) r
      | StartCDATA => dflush d in_cdata pending ++ ICDataStart :: canon_dev d true [] r
      | EndCDATA => dflush d in_cdata pending ++ ICDataEnd :: canon_dev d false [] r
      | StartDTD n p s =>
          dflush d in_cdata pending ++
          (if d_doctype d then IDoctype n (Some (fmt_opt p)) (Some (fmt_opt s)) else IDoctype n p s) :: canon_dev d in_cdata [] r
      end
  end.

(** the expected document serialises to the original text: whether that is reported as a change is C15's business *)
Definition noop_edit (c : xml_case) : bool :=
  match x_parse c with
  | Some evs => str_eqb (universal_newlines (emit_all (expected_events c evs))) (x_orig c)
  | None => false
  end.
Definition no_edit_expected (c : xml_case) : bool :=
  negb (x_reread_ok c) || noop_edit c ||
  match x_parse c with Some evs => match expected_changes c evs with [] => true | _ => false end | None => true end.

(** SPEC on the observation: content of the written document *)
Definition content_ok_with (d : devs) (c : xml_case) : bool :=
  no_edit_expected c ||
  match x_parse c, x_reparsed c with
  | Some evs, Some out => list_eqb item_eqb (canon out) (canon_dev d false [] (expected_events c evs))
  | _, _ => false
  end.
Definition strict := {| d_cdata := false; d_doctype := false; d_comment := false; d_cr := false |}.
Definition xml_content_ok (c : xml_case) : bool :=
  no_edit_expected c ||
  match x_parse c, x_reparsed c with
  | Some evs, Some out => list_eqb item_eqb (canon out) (canon (expected_events c evs))
  | _, _ => false
  end.
Definition xml_content_ok_known := content_ok_with {| d_cdata := true; d_doctype := true; d_comment := true; d_cr := true |}.
Definition xml_content_ok_but_cdata := content_ok_with {| d_cdata := false; d_doctype := true; d_comment := true; d_cr := true |}.
Definition xml_content_ok_but_doctype := content_ok_with {| d_cdata := true; d_doctype := false; d_comment := true; d_cr := true |}.
Definition xml_content_ok_but_comment := content_ok_with {| d_cdata := true; d_doctype := true; d_comment := false; d_cr := true |}.
Definition xml_content_ok_but_cr := content_ok_with {| d_cdata := true; d_doctype := true; d_comment := true; d_cr := false |}.

(** one change per edit, in document order, with the findings whose range contains its line; None iff no edit *)
Definition edits_expected (c : xml_case) : bool :=
  match x_parse c with Some evs => match expected_changes c evs with [] => false | _ => true end | None => false end.

Definition xml_changes_ok (c : xml_case) : bool :=
  match x_real c, x_dry c with
  | Some (ret, _, _, _), Some (retd, _, _, _) =>
      match x_parse c with
      | None => match ret, retd with None, None => true | _, _ => false end
      | Some evs =>
          let e := expected_changes c evs in
          let ok r := match e, r with
                      | [], None => true
                      | _ :: _, Some (_, chs) => x_reread_ok c && list_eqb xchange_eqb chs e
                      | _ :: _, None => negb (x_reread_ok c) || noop_edit c
                      | _, _ => false end in
          ok ret && ok retd
      end
  | _, _ => true          (* raising is reported by xml_isolation_ok *)
  end.

(** dry-run and no-edit and unparsable documents leave the file alone; failure is recorded *)
Definition xml_guards_ok (c : xml_case) : bool :=
  match x_real c, x_dry c with
  | Some (ret, file, failed, _), Some (_, filed, failedd, _) =>
      str_eqb filed (x_orig c) &&
      match ret with None => str_eqb file (x_orig c) | Some _ => true end &&
      (let expect_failed := match x_parse c with None => true | Some _ => edits_expected c && negb (x_reread_ok c) end in
       Bool.eqb failed expect_failed && Bool.eqb failedd expect_failed)
  | _, _ => true
  end.

(** nothing escapes apply(); an edited document that cannot be re-read as UTF-8 is a recorded failure, left untouched,
    with every finding of the file unfixed at line 0 *)
Definition xml_isolation_ok (c : xml_case) : bool :=
  let ok (o : option xobs) :=
    match o with
    | None => negb (edits_expected c && negb (x_reread_ok c))   (* any other exception: model mismatch (tie break) *)
    | Some (ret, file, failed, unf) =>
        if edits_expected c && negb (x_reread_ok c)
        then match ret with None => true | Some _ => false end && str_eqb file (x_orig c) && failed &&
             list_eqb (pair_eqb N.eqb N.eqb) unf (map (fun f => (f, 0%N)) (xall_findings (x_fc c)))
        else true
    end in
  ok (x_real c) && ok (x_dry c).
