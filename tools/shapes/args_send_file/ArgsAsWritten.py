class ReplaceFlaskSendFile:
    def leave_Call(
        self, original_node: cst.Call, updated_node: cst.Call
    ) -> cst.BaseExpression:
        if self.filter_by_path_includes_or_excludes(original_node):
            maybe_base_name = self.find_base_name(original_node)
            if maybe_base_name and maybe_base_name == "flask.send_file":
                maybe_tuple = self.parameterize_path(original_node.args[0])
                if maybe_tuple:
                    new_args = [
                        maybe_tuple[0],
                        maybe_tuple[1],
                        *positional_to_keyword(
                            original_node.args[1:], self.pos_to_key_map
                        ),
                    ]
                    self.report_change(original_node)
                    self.add_needed_import("flask")
                    self.remove_unused_import(original_node)
                    new_func = cst.parse_expression("flask.send_from_directory")
                    return updated_node.with_changes(func=new_func, args=new_args)

        return updated_node
