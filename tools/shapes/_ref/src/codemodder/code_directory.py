import fnmatch
import itertools
from pathlib import Path
from typing import Optional, Sequence

DEFAULT_INCLUDED_PATHS = ["**.py", "**/*.py"]
DEFAULT_EXCLUDED_PATHS = [
    # TODO: test code should eventually only be excluded on a per-codemod basis
    # Some codemods represent fixes that should be applied to test code
    "test/**",
    "tests/**",
    "**/__test__/**",
    "**/__tests__/**",
    "conftest.py",
    "build/**",
    "dist/**",
    "venv/**",
    "**/site-packages/**",
    ".venv/**",
    ".tox/**",
    ".nox/**",
    ".eggs/**",
    ".git/**",
    ".mypy_cache/**",
    ".pytest_cache/**",
    ".hypothesis/**",
    ".coverage*",
]


def file_line_patterns(file_path: str | Path, patterns: Sequence[str]):
    """
    Find the lines included or excluded for a given file_path among the patterns
    """
    return [
        int(result[1])
        for pat in patterns
        if len(result := pat.split(":")) == 2
        and fnmatch.fnmatch(str(file_path), result[0])
    ]


def filter_files(names: list[Path], patterns: Sequence[str], exclude: bool = False):
    patterns = (
        [x.split(":")[0] for x in (patterns or [])]
        if not exclude
        # An excluded line should not cause the entire file to be excluded
        else [x for x in (patterns or []) if ":" not in x]
    )
    return itertools.chain(
        *[fnmatch.filter((str(x) for x in names), pattern) for pattern in patterns]
    )


def files_for_directory(parent_path: Path) -> list[Path]:
    """
    Return list of all (non-symlink) file paths within a directory, recursively.
    """
    return [
        path
        for path in Path(parent_path).rglob("*")
        if Path(path).is_file() and not Path(path).is_symlink()
    ]


def match_files(
    parent_path: Path,
    input_paths: list[Path],
    exclude_paths: Optional[Sequence[str]] = None,
    include_paths: Optional[Sequence[str]] = None,
) -> list[Path]:
    """
    Find pattern-matching files starting at the parent_path, recursively.

    If a file matches any exclude pattern, it is not matched. If any include
    patterns are passed in, a file must match at least one include patterns.

    :param parent_path: str name for starting directory
    :param exclude_paths: list of UNIX glob patterns to exclude, uses DEFAULT_EXCLUDED_PATHS if None
    :param include_paths: list of UNIX glob patterns to exclude, uses DEFAULT_INCLUDED_PATHS if None

    :return: list of <pathlib.PosixPath> files found within (including recursively) the parent directory
    that match the criteria of both exclude and include patterns.
    """
    paths = [p.relative_to(parent_path) for p in input_paths]
    included_files = set(
        filter_files(
            paths,
            include_paths if include_paths is not None else DEFAULT_INCLUDED_PATHS,
        )
    )
    excluded_files = set(
        filter_files(
            paths,
            exclude_paths if exclude_paths is not None else DEFAULT_EXCLUDED_PATHS,
            exclude=True,
        )
    )

    return [
        parent_path.joinpath(p) for p in sorted(list(included_files - excluded_files))
    ]
