# src/codemodder/codemods/semgrep.py at the commit the model was written against (shape reference; not executed)
class SemgrepRuleDetector:
    def get_yaml_files(self, codemod_id: str) -> list[Path]:
        return _create_temp_yaml_file(self.rule, codemod_id)

    def apply(
        self,
        codemod_id: str,
        context: CodemodExecutionContext,
    ) -> ResultSet:
        yaml_files = self.get_yaml_files(codemod_id)
        with context.timer.measure("semgrep"):
            files_to_analyze = context.semgrep_results_for_rule(codemod_id)
            return semgrep_run(context, yaml_files, files_to_analyze)

def _populate_yaml(rule: str, codemod_id: str) -> str:
    rule_yaml = yaml.safe_load(io.StringIO(rule))
    config = {"rules": rule_yaml} if "rules" not in rule_yaml else rule_yaml
    config["rules"][0].setdefault("id", codemod_id)
    config["rules"][0].setdefault("message", "Semgrep found a match")
    config["rules"][0].setdefault("severity", "WARNING")
    config["rules"][0].setdefault("languages", ["python"])
    return yaml.safe_dump(config)

