# src/codemodder/codemods/libcst_transformer.py at HEAD: LibcstResultTransformer.add_change, LibcstResultTransformer.add_change_from_position, LibcstResultTransformer.lineno_for_node, LibcstResultTransformer.report_change, LibcstResultTransformer.report_change_for_line
class LibcstResultTransformer:
    def add_change(self, node, description: str, start: bool = True):
        position = self.node_position(node)
        self.add_change_from_position(position, description, start)

    def add_change_from_position(
        self, position: CodeRange, description: str, start: bool = True
    ):
        line_number = position.start.line if start else position.end.line
        self.report_change_for_line(line_number, description)

    def lineno_for_node(self, node):
        return self.node_position(node).start.line

    def report_change(self, original_node, description: str | None = None):
        line_number = self.lineno_for_node(original_node)
        self.report_change_for_line(line_number, description)

    def report_change_for_line(
        self,
        line_number,
        description: str | None = None,
        findings: list[Finding] | None = None,
    ):
        self.file_context.codemod_changes.append(
            Change(
                lineNumber=line_number,
                description=description or self.change_description,
                findings=findings
                or self.file_context.get_findings_for_location(line_number),
            )
        )
