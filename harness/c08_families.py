"""C08 search over the refactoring codemods that have NO Coq model: closed, deterministic program families per codemod.
Every program is run through the real CLI with only that codemod enabled; if the file changed, original and rewritten
program are executed (`python -I`, own temp cwd, timeout) and (stdout, exception type, exit status) compared.
No theorem covers these codemods: a difference is a VIOLATION with the program as replay (class `kf_unmodelled_<codemod>`);
nothing is proved when there is none."""
from __future__ import annotations

import concurrent.futures
import itertools
import subprocess

from harness import core

WRAP = r'''
import sys, runpy, traceback
try:
    runpy.run_path(sys.argv[1], run_name="__main__")
except SystemExit as ex:
    print("EXIT", ex.code)
except BaseException as ex:
    print("RAISED", type(ex).__name__)
'''

LOG_PRELUDE = "import logging, sys\nlogging.basicConfig(stream=sys.stdout, format='%(levelname)s:%(message)s', level=logging.DEBUG)\n"


def families(rng, quick):
    out = []

    def add(codemod, name, src):
        out.append({"codemod": codemod, "name": name, "source": src})

    # ---- use-walrus-if
    vals = ["0", "5", "''", "'a'", "None", "[]", "[0]"]
    conds = ["x", "x is None", "x is not None", "x == 5", "not x", "x != 'a'"]
    for v, c in itertools.product(vals, conds):
        add("use-walrus-if", f"module:{v}:{c}",
            f"def f():\n    print('called')\n    return {v}\nx = f()\nif {c}:\n    print('then', x)\nelse:\n    print('else', x)\nprint('after', x)\n")
    for v in vals[:4]:
        add("use-walrus-if", f"function:{v}",
            f"def f():\n    return {v}\ndef g():\n    y = f()\n    if y:\n        return ('t', y)\n    return ('f', y)\nprint(g())\n")
        add("use-walrus-if", f"while-after:{v}",
            f"def f():\n    return {v}\nx = f()\nif x:\n    print('t')\nx = 1\nprint(x)\n")
    # ---- remove-unnecessary-f-str
    for body in ["abc", "a{{b}}c", "{{}}", "{{", "}}", "100%", "a\\nb", "it's", 'say \\"hi\\"', "{{{{x}}}}", ""]:
        add("remove-unnecessary-f-str", f"dq:{body}", f'x = 1\nprint(f"{body}")\nprint(len(f"{body}"))\n')
    for body in ["abc", "a{{b}}c", "{{}}", 'q"q']:
        add("remove-unnecessary-f-str", f"sq:{body}", f"print(f'{body}')\nprint(rf'{body}\\d')\n")
    add("remove-unnecessary-f-str", "concat", 'x = 2\nprint(f"a{{" f"{x}" f"}}b")\n')
    # ---- lazy-logging
    msgs = ['"a %s" % x', '"a %s b %s" % (x, y)', '"a %d%%" % y', '"a " + x', '"a " + x + " b " + z', "'q\"q ' + x", '"%s" % (x,)',
            '"a %(k)s" % {"k": x}', 'f"a {x}"', '"a {}".format(x)', '"a %s" % x + " tail"', '"pct % " + x', '"a %s" + x']
    for m in msgs:
        for level in (["info", "error"] if quick else ["debug", "info", "warning", "error", "critical"]):
            add("lazy-logging", f"{level}:{m}", LOG_PRELUDE + f"x, y, z = 'X', 7, 'Z'\nlogging.{level}({m})\nlog = logging.getLogger('n')\nlog.{level}({m})\n")
    # ---- fix-deprecated-logging-warn
    for m in ['"m"', '"m %s", 1', '"m %s" % 1']:
        add("fix-deprecated-logging-warn", m, "import warnings\nwarnings.simplefilter('ignore')\n" + LOG_PRELUDE +
            f"logging.warn({m})\nlogging.getLogger('a').warn({m})\nfrom logging import warn\nwarn({m})\n")
    # ---- remove-future-imports
    for names in ["print_function", "division, print_function", "annotations", "unicode_literals, absolute_import", "generators, nested_scopes"]:
        add("remove-future-imports", names, f"from __future__ import {names}\nprint(7 / 2, 'x'.__class__.__name__)\ndef f(a: 'int') -> 'str':\n    return a\nprint(f.__annotations__)\n")
    # ---- fix-deprecated-abstractproperty
    for imp, dec in [("import abc", "abc.abstractproperty"), ("from abc import abstractproperty", "abstractproperty"), ("import abc as a", "a.abstractproperty")]:
        meta = {"import abc": "abc.ABC", "import abc as a": "a.ABC"}.get(imp, "__import__('abc').ABC")
        add("fix-deprecated-abstractproperty", dec,
            f"{imp}\nclass B({meta}):\n    @{dec}\n    def p(self):\n        return 1\nclass C(B):\n    @property\n    def p(self):\n        return 2\n"
            "print(C().p)\ntry:\n    B()\nexcept TypeError:\n    print('abstract')\nprint(type(B.__dict__['p']).__name__ in ('property', 'abstractproperty'))\n")
    # ---- fix-file-resource-leak
    for mode in ["read", "readline", "loop", "two", "return"]:
        body = {
            "read": "f = open(p)\ndata = f.read()\nprint(data)\n",
            "readline": "f = open(p)\nprint(f.readline())\nprint(f.readline())\n",
            "loop": "f = open(p)\nfor line in f:\n    print(line.strip())\nprint('done')\n",
            "two": "f = open(p)\ng = open(p)\nprint(f.read() == g.read())\n",
            "return": "def h():\n    f = open(p)\n    x = f.read()\n    return x.upper()\nprint(h())\n",
        }[mode]
        add("fix-file-resource-leak", mode, "p = 'data.txt'\nopen(p, 'w').write('l1\\nl2\\n')\n" + body)
    # ---- bad-lock-with-statement
    for cls in ["Lock", "RLock", "Condition", "Semaphore"]:
        add("bad-lock-with-statement", cls, f"import threading\nwith threading.{cls}():\n    print('in')\nprint('out')\n")
        add("bad-lock-with-statement", cls + ":from", f"from threading import {cls}\nwith {cls}():\n    print('in')\nprint('out')\n")
        add("bad-lock-with-statement", cls + ":as", f"import threading\nwith threading.{cls}() as l:\n    print('in', l is not None)\nprint('out')\n")
    # ---- remove-module-global
    add("remove-module-global", "simple", "global x\nx = 1\nx = x + 1\nprint(x)\n")
    add("remove-module-global", "two", "global a, b\na = 1\nb = 2\nprint(a + b)\ndef f():\n    global a\n    a = 5\nf()\nprint(a)\n")
    add("remove-module-global", "in-if", "import sys\nif len(sys.argv) >= 0:\n    global c\n    c = 3\nprint(c)\n")
    # ---- sql-parameterization (benign parameter values)
    sql_pre = ("import sqlite3\nconn = sqlite3.connect(':memory:')\ncur = conn.cursor()\ncur.execute('CREATE TABLE t (name TEXT, n INTEGER)')\n"
               "cur.executemany('INSERT INTO t VALUES (?, ?)', [('bob', 1), ('al', 2), ('bob', 3), (\"o'x\", 4)])\n")
    for val in ["bob", "al", "nobody", ""]:
        for q in ['"SELECT * FROM t WHERE name = \'" + name + "\'"', '"SELECT n FROM t WHERE name = \'" + name + "\' ORDER BY n"',
                  'f"SELECT * FROM t WHERE name = \'{name}\'"', '"SELECT * FROM t WHERE name = \'%s\'" % name',
                  '"SELECT * FROM t WHERE name = \'{}\'".format(name)', '"SELECT * FROM t WHERE name LIKE \'" + name + "%\'"',
                  '"SELECT * FROM t WHERE name = \'" + name + "\' AND n > 0"']:
            add("sql-parameterization", f"{val}:{q}", sql_pre + f"name = {val!r}\ncur.execute({q})\nprint(cur.fetchall())\n")
            add("sql-parameterization", f"fn:{val}:{q}", sql_pre + f"def look(name):\n    cur.execute({q})\n    return cur.fetchall()\nprint(look({val!r}))\n")
    if quick:
        keep = {}
        rng.shuffle(out)
        for p in out:
            keep.setdefault(p["codemod"], [])
            if len(keep[p["codemod"]]) < 14:
                keep[p["codemod"]].append(p)
        out = [p for ps in keep.values() for p in ps]
    return out


def execute(ctx, idx, tag, source):
    d = ctx.scratch / "fam-exec" / f"{idx}-{tag}"
    d.mkdir(parents=True, exist_ok=True)
    (d / "prog.py").write_text(source)
    try:
        p = subprocess.run([core.PY, "-I", "-c", WRAP, "prog.py"], cwd=d, stdout=subprocess.PIPE, stderr=subprocess.DEVNULL, timeout=30,
                           env={"PATH": "/usr/bin:/bin"})
        return (p.stdout.decode(errors="replace"), p.returncode)
    except subprocess.TimeoutExpired:
        return ("TIMEOUT", -9)


def run(ctx):
    progs = families(ctx.rng, ctx.quick())
    by = {}
    for i, p in enumerate(progs):
        by.setdefault(p["codemod"], []).append((i, p))

    def one(cm, items):
        root = ctx.scratch / f"fam-{cm}"
        root.mkdir(parents=True)
        for i, p in items:
            (root / f"p{i:04d}.py").write_text(p["source"])
        r = core.run_cli([str(root), "--output", str(ctx.scratch / f"fam-{cm}.json"), "--codemod-include", f"pixee:python/{cm}"],
                         cwd=ctx.scratch, timeout=900)
        return cm, r, {i: (root / f"p{i:04d}.py").read_text() for i, _ in items}
    with concurrent.futures.ThreadPoolExecutor(max_workers=10) as ex:
        results = list(ex.map(lambda kv: one(*kv), by.items()))
    jobs = []
    for cm, r, after in results:
        ctx.cli_runs += 1
        if r["rc"] != 0:
            ctx.notes.append(f"unmodelled family {cm}: CLI exit {r['rc']}: {r['stderr'][-300:]}")
            continue
        for i, p in by[cm]:
            p["after"] = after[i]
            p["changed"] = after[i] != p["source"]
            ctx.count(f"family:{cm}:" + ("changed" if p["changed"] else "unchanged"))
            if p["changed"]:
                jobs.append((i, p))
    with concurrent.futures.ThreadPoolExecutor(max_workers=12) as ex:
        before = list(ex.map(lambda ip: execute(ctx, ip[0], "a", ip[1]["source"]), jobs))
        afterr = list(ex.map(lambda ip: execute(ctx, ip[0], "b", ip[1]["after"]), jobs))
    for (i, p), b, a in zip(jobs, before, afterr):
        ctx.case({"codemod": p["codemod"], "family": p["name"], "source": p["source"], "rewritten": p["after"], "observed": b},
                 nontrivial_key=("family", p["codemod"], p["source"]), sample=False)
        if b != a:
            ctx.violation("kf_unmodelled_" + p["codemod"].replace("-", "_"),
                          f"{p['codemod']} changes behaviour of program family {p['name']}: {b!r} -> {a!r}",
                          {"codemod": p["codemod"], "family": p["name"], "program": p["source"], "rewritten": p["after"],
                           "observed_original": b, "observed_rewritten": a})
