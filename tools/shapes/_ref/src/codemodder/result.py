from __future__ import annotations

from abc import abstractmethod
from dataclasses import dataclass, field
from pathlib import Path
from typing import TYPE_CHECKING, Any, ClassVar, Type

import libcst as cst
from libcst._position import CodeRange
from typing_extensions import Self

from codemodder.codetf import Finding

from .utils.abc_dataclass import ABCDataclass

if TYPE_CHECKING:
    from codemodder.context import CodemodExecutionContext


@dataclass
class LineInfo:
    line: int
    column: int = -1
    snippet: str | None = None


@dataclass
class Location(ABCDataclass):
    file: Path
    start: LineInfo
    end: LineInfo


class SarifLocation(Location):
    @classmethod
    @abstractmethod
    def from_sarif(cls, sarif_location) -> Self:
        pass


@dataclass
class LocationWithMessage:
    location: Location
    message: str


@dataclass(kw_only=True)
class Result(ABCDataclass):
    rule_id: str
    locations: list[Location]
    codeflows: list[list[Location]] = field(default_factory=list)
    related_locations: list[LocationWithMessage] = field(default_factory=list)
    finding: Finding | None = None

    def match_location(self, pos: CodeRange, node: cst.CSTNode) -> bool:
        del node
        return any(
            same_line(pos, location)
            and (
                pos.start.column
                in ((start_column := location.start.column) - 1, start_column)
            )
            and (
                pos.end.column in ((end_column := location.end.column) - 1, end_column)
            )
            for location in self.locations
        )


@dataclass(kw_only=True)
class SASTResult(Result):
    finding_id: str


@dataclass(kw_only=True)
class SarifResult(SASTResult, ABCDataclass):
    location_type: ClassVar[Type[SarifLocation]]

    @classmethod
    def from_sarif(
        cls, sarif_result, sarif_run, truncate_rule_id: bool = False
    ) -> Self:
        raise NotImplementedError

    @classmethod
    def extract_locations(cls, sarif_result) -> list[Location]:
        return [
            cls.location_type.from_sarif(location)
            for location in sarif_result["locations"]
        ]

    @classmethod
    def extract_related_locations(cls, sarif_result) -> list[LocationWithMessage]:
        return [
            LocationWithMessage(
                message=rel_location.get("message", {}).get("text", ""),
                location=cls.location_type.from_sarif(rel_location),
            )
            for rel_location in sarif_result.get("relatedLocations", [])
        ]

    @classmethod
    def extract_code_flows(cls, sarif_result) -> list[list[Location]]:
        return [
            [
                cls.location_type.from_sarif(locations.get("location"))
                for locations in threadflow.get("locations", {})
            ]
            for codeflow in sarif_result.get("codeFlows", {})
            for threadflow in codeflow.get("threadFlows", {})
        ]

    @classmethod
    def extract_rule_id(cls, result, sarif_run, truncate_rule_id: bool = False) -> str:
        if rule_id := result.get("ruleId"):
            return rule_id.split(".")[-1] if truncate_rule_id else rule_id

        # it may be contained in the 'rule' field through the tool component in the sarif file
        if "rule" in result:
            tool_index = result["rule"]["toolComponent"]["index"]
            rule_index = result["rule"]["index"]
            return sarif_run["tool"]["extensions"][tool_index]["rules"][rule_index][
                "id"
            ]

        raise ValueError("Could not extract rule id from sarif result.")


def same_line(pos: CodeRange, location: Location) -> bool:
    return pos.start.line == location.start.line and pos.end.line == location.end.line


def fuzzy_column_match(pos: CodeRange, location: Location) -> bool:
    """Checks that a result location is within the range of node's `pos` position"""
    return (
        pos.start.column <= location.start.column <= pos.end.column + 1
        and pos.start.column <= location.end.column <= pos.end.column + 1
    )


class ResultSet(dict[str, dict[Path, list[Result]]]):
    def add_result(self, result: Result):
        for loc in result.locations:
            self.setdefault(result.rule_id, {}).setdefault(loc.file, []).append(result)

    def results_for_rule_and_file(
        self, context: CodemodExecutionContext, rule_id: str, file: Path
    ) -> list[Result]:
        """
        Return list of results for a given rule and file.

        :param context: The codemod execution context
        :param rule_id: The rule ID
        :param file: The filename

        Some implementers may need to use the context to compute paths that are relative to the target directory.
        """
        return self.get(rule_id, {}).get(file.relative_to(context.directory), [])

    def files_for_rule(self, rule_id: str) -> list[Path]:
        return list(self.get(rule_id, {}).keys())

    def all_rule_ids(self) -> list[str]:
        return list(self.keys())

    def __or__(self, other):
        result = ResultSet(super().__or__(other))
        for k in result.keys():
            result[k] = list_dict_or(self.get(k, {}), other.get(k, {}))
        return result

    def __ior__(self, other):
        self.update(self | other)
        return self


def list_dict_or(
    dictionary: dict[Any, list[Any]], other: dict[Any, list[Any]]
) -> dict[Path, list[Any]]:
    result_dict = other | dictionary
    for k in result_dict.keys():
        result_dict[k] = dictionary.get(k, []) + other.get(k, [])
    return result_dict
