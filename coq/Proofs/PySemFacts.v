(** Facts about the evaluator: unfolding equations, congruence, and the generic soundness theorem for bottom-up
    transformers ([bu_sound]): if the node function preserves evaluation on every node it sees under the guard, so does
    the whole traversal. *)
From CM Require Import Model.MiniPy Model.PySem Model.Rewrites Spec.RewritesSpec.

(** * Induction principle for the nested AST *)
Section ExprInd.
  Variable P : expr -> Prop.
  Hypothesis HName : forall x, P (EName x).
  Hypothesis HConst : forall c, P (EConst c).
  Hypothesis HType : forall t, P (EType t).
  Hypothesis HTuple : forall es, Forall P es -> P (ETuple es).
  Hypothesis HList : forall es, Forall P es -> P (EList es).
  Hypothesis HSet : forall es, Forall P es -> P (ESet es).
  Hypothesis HMeth : forall r m args, Forall P args -> P (EMeth r m args).
  Hypothesis HCall : forall f args, Forall P args -> P (ECall f args).
  Hypothesis HBool : forall p o l r, P l -> P r -> P (EBool p o l r).
  Hypothesis HNot : forall p a, P a -> P (ENot p a).
  Hypothesis HCmp : forall p l rest, P l -> Forall (fun cb => P (snd cb)) rest -> P (ECmp p l rest).
  Hypothesis HListComp : forall elt x it, P elt -> P it -> P (EListComp elt x it).
  Hypothesis HGen : forall p elt x it, P elt -> P it -> P (EGen p elt x it).
  Hypothesis HFloorDiv : forall l r, P l -> P r -> P (EFloorDiv l r).
  Hypothesis HJuxt : forall n a, P a -> P (EJuxt n a).

  Fixpoint expr_ind' (e : expr) : P e :=
    let all := fix all (es : list expr) : Forall P es :=
      match es with [] => Forall_nil _ | a :: t => Forall_cons a (expr_ind' a) (all t) end in
    match e with
    | EName x => HName x
    | EConst c => HConst c
    | EType t => HType t
    | ETuple es => HTuple es (all es)
    | EList es => HList es (all es)
    | ESet es => HSet es (all es)
    | EMeth r m args => HMeth r m args (all args)
    | ECall f args => HCall f args (all args)
    | EBool p o l r => HBool p o l r (expr_ind' l) (expr_ind' r)
    | ENot p a => HNot p a (expr_ind' a)
    | ECmp p l rest =>
        HCmp p l rest (expr_ind' l)
             ((fix go (rs : list (cmpop * expr)) : Forall (fun cb => P (snd cb)) rs :=
                 match rs with [] => Forall_nil _ | cb :: t => Forall_cons cb (expr_ind' (snd cb)) (go t) end) rest)
    | EListComp elt x it => HListComp elt x it (expr_ind' elt) (expr_ind' it)
    | EGen p elt x it => HGen p elt x it (expr_ind' elt) (expr_ind' it)
    | EFloorDiv l r => HFloorDiv l r (expr_ind' l) (expr_ind' r)
    | EJuxt n a => HJuxt n a (expr_ind' a)
    end.
End ExprInd.

(** * Unfolding equations of [eval] *)
Fixpoint evals (rho : env) (es : list expr) : result + list value :=
  match es with
  | [] => inr []
  | a :: t => match eval rho a with
              | Raise x => inl (Raise x)
              | Val v => match evals rho t with inl r => inl r | inr vs => inr (v :: vs) end
              end
  end.
Fixpoint chain (rho : env) (v : value) (rs : list (cmpop * expr)) : result :=
  match rs with
  | [] => Val v
  | (o, b) :: t =>
      match eval rho b with
      | Raise x => Raise x
      | Val w => match cmp_op o v w with
                 | CX x => Raise x
                 | CB r => match t with
                           | [] => Val (VBool r)
                           | _ :: _ => if r then chain rho w t else Val (VBool false)
                           end
                 end
      end
  end.

Lemma evals_fix rho es :
  (fix evals0 (es : list expr) : result + list value :=
     match es with
     | [] => inr []
     | a :: t => match eval rho a with
                 | Raise x => inl (Raise x)
                 | Val v => match evals0 t with inl r => inl r | inr vs => inr (v :: vs) end
                 end
     end) es = evals rho es.
Proof. induction es as [|a t IH]; cbn; [reflexivity|]. rewrite IH. reflexivity. Qed.
Ltac fold_evals rho := rewrite (evals_fix rho).

Lemma eval_tuple rho es : eval rho (ETuple es) = match evals rho es with inl r => r | inr vs => Val (VTuple vs) end.
Proof. cbn [eval]. fold_evals rho. reflexivity. Qed.
Lemma eval_list rho es : eval rho (EList es) = match evals rho es with inl r => r | inr vs => Val (VList vs) end.
Proof. cbn [eval]. fold_evals rho. reflexivity. Qed.
Lemma eval_set rho es : eval rho (ESet es) = match evals rho es with inl r => r | inr vs => set_of vs [] end.
Proof. cbn [eval]. fold_evals rho. reflexivity. Qed.
Lemma eval_meth rho r m args :
  eval rho (EMeth r m args) =
  match lookup rho r with
  | None => Raise NameError
  | Some (VStr s) => match evals rho args with
                     | inl r => r
                     | inr [a] => sw m s a
                     | inr [] => Raise TypeError
                     | inr _ => Raise OutOfModel
                     end
  | Some (VType _) => Raise OutOfModel
  | Some _ => Raise AttributeError
  end.
Proof. cbn [eval]. destruct (lookup rho r) as [[]|]; try reflexivity. fold_evals rho. reflexivity. Qed.

Definition sole_gen (args : list expr) : bool := match args with [EGen _ _ _ _] => true | _ => false end.
Lemma eval_call_gen rho f p elt x it :
  eval rho (ECall f [EGen p elt x it]) =
  match eval rho it with
  | Raise x => Raise x
  | Val vi => with_seq vi (consume f (fun v => eval (bind x v rho) elt))
  end.
Proof. reflexivity. Qed.
Lemma eval_call rho f args : sole_gen args = false ->
  eval rho (ECall f args) = match evals rho args with inl r => r | inr vs => apply_builtin f vs end.
Proof.
  intros H. cbn [eval].
  destruct args as [|a [|b t]].
  - reflexivity.
  - destruct a; try discriminate; reflexivity.
  - destruct a; cbn; rewrite ?evals_fix; reflexivity.
Qed.
Lemma eval_bool rho p o l r :
  eval rho (EBool p o l r) =
  match eval rho l with
  | Raise x => Raise x
  | Val v => match o with
             | BOr => if truthy v then Val v else eval rho r
             | BAnd => if truthy v then eval rho r else Val v
             end
  end.
Proof. destruct o; cbn [eval]; destruct (eval rho l); reflexivity. Qed.
Lemma eval_not rho p a :
  eval rho (ENot p a) = match eval rho a with Raise x => Raise x | Val v => Val (VBool (negb (truthy v))) end.
Proof. reflexivity. Qed.
Lemma eval_cmp rho p l rest :
  eval rho (ECmp p l rest) = match eval rho l with Raise x => Raise x | Val v => chain rho v rest end.
Proof.
  cbn [eval]. destruct (eval rho l) as [v|x]; [|reflexivity].
  revert v. induction rest as [|[o b] t IH]; intros v; cbn; [reflexivity|].
  destruct (eval rho b) as [w|]; [|reflexivity]. destruct (cmp_op o v w) as [r|]; [|reflexivity].
  destruct t; [reflexivity|]. destruct r; [|reflexivity]. apply IH.
Qed.
Lemma eval_listcomp rho elt x it :
  eval rho (EListComp elt x it) =
  match eval rho it with
  | Raise x => Raise x
  | Val vi => with_seq vi (fun vs => match map_res (fun v => eval (bind x v rho) elt) vs with
                                     | inl r => r
                                     | inr ws => Val (VList ws)
                                     end)
  end.
Proof. reflexivity. Qed.
Lemma eval_floordiv rho l r :
  eval rho (EFloorDiv l r) =
  match eval rho l with
  | Raise x => Raise x
  | Val v => match eval rho r with Raise x => Raise x | Val w => floordiv v w end
  end.
Proof. reflexivity. Qed.

(** the left injection only ever carries an exception *)
Lemma evals_inl rho es r : evals rho es = inl r -> exists x, r = Raise x.
Proof.
  revert r. induction es as [|a t IH]; cbn; intros r H; [discriminate|].
  destruct (eval rho a) as [v|x]; [|injection H as <-; eauto].
  destruct (evals rho t) as [r'|vs]; [|discriminate]. injection H as <-. apply IH. reflexivity.
Qed.
Lemma map_res_inl step vs r : map_res step vs = inl r -> exists x, r = Raise x.
Proof.
  revert r. induction vs as [|v t IH]; cbn; intros r H; [discriminate|].
  destruct (step v) as [w|x]; [|injection H as <-; eauto].
  destruct (map_res step t) as [r'|ws]; [|discriminate]. injection H as <-. apply IH. reflexivity.
Qed.
Lemma to_seq_inl v r : to_seq v = inl r -> exists x, r = Raise x.
Proof.
  destruct v; cbn; intros H; try discriminate; try (injection H as <-; eauto).
  destruct (small_set zs); [discriminate|]. injection H as <-. eauto.
Qed.

(** * Extensionality of the list-level helpers *)
Lemma evals_ext rho es es' :
  Forall2 (fun a b => eval rho a = eval rho b) es es' -> evals rho es = evals rho es'.
Proof. induction 1 as [|a b es es' H _ IH]; cbn; [reflexivity|]. rewrite H, IH. reflexivity. Qed.
Lemma evals_map_ext rho (g : expr -> expr) es :
  Forall (fun a => eval rho (g a) = eval rho a) es -> evals rho (map g es) = evals rho es.
Proof. induction 1 as [|a es H _ IH]; cbn; [reflexivity|]. rewrite H, IH. reflexivity. Qed.
Lemma chain_map_ext rho (g : expr -> expr) rest :
  Forall (fun cb => eval rho (g (snd cb)) = eval rho (snd cb)) rest ->
  forall v, chain rho v (map (fun cb => (fst cb, g (snd cb))) rest) = chain rho v rest.
Proof.
  induction 1 as [|[o b] t H _ IH]; intros v; cbn; [reflexivity|]. cbn in H. rewrite H.
  destruct (eval rho b) as [w|]; [|reflexivity]. destruct (cmp_op o v w) as [r|]; [|reflexivity].
  destruct t as [|cb t]; [reflexivity|]. cbn [map]. destruct r; [|reflexivity]. apply IH.
Qed.
Lemma map_res_ext (s1 s2 : value -> result) vs :
  (forall v, List.In v vs -> s1 v = s2 v) -> map_res s1 vs = map_res s2 vs.
Proof.
  induction vs as [|v t IH]; intros H; cbn; [reflexivity|].
  rewrite (H v) by (left; reflexivity). rewrite IH by (intros; apply H; right; assumption). reflexivity.
Qed.
Lemma lazy_any_ext (s1 s2 : value -> result) vs :
  (forall v, List.In v vs -> s1 v = s2 v) -> lazy_any s1 vs = lazy_any s2 vs.
Proof.
  induction vs as [|v t IH]; intros H; cbn; [reflexivity|].
  rewrite (H v) by (left; reflexivity). rewrite IH by (intros; apply H; right; assumption). reflexivity.
Qed.
Lemma lazy_all_ext (s1 s2 : value -> result) vs :
  (forall v, List.In v vs -> s1 v = s2 v) -> lazy_all s1 vs = lazy_all s2 vs.
Proof.
  induction vs as [|v t IH]; intros H; cbn; [reflexivity|].
  rewrite (H v) by (left; reflexivity). rewrite IH by (intros; apply H; right; assumption). reflexivity.
Qed.
Lemma consume_ext f (s1 s2 : value -> result) vs :
  (forall v, List.In v vs -> s1 v = s2 v) -> consume f s1 vs = consume f s2 vs.
Proof.
  intros H. destruct f; cbn [consume]; try reflexivity;
    try (rewrite (map_res_ext s1 s2 vs H); reflexivity).
  - apply lazy_any_ext, H.
  - apply lazy_all_ext, H.
Qed.

(** * [visit] unfolded *)
Lemma visit_list_fix f rho es :
  (fix vs (es : list expr) : list (env * expr) := match es with [] => [] | a :: t => visit f rho a ++ vs t end) es
  = flat_map (visit f rho) es.
Proof. induction es as [|a t IH]; cbn; [reflexivity|]. rewrite IH. reflexivity. Qed.
Lemma visit_cmp_fix f rho rest :
  (fix go (rs : list (cmpop * expr)) : list (env * expr) :=
     match rs with [] => [] | (_, b) :: t => visit f rho b ++ go t end) rest
  = flat_map (fun cb => visit f rho (snd cb)) rest.
Proof. induction rest as [|[o b] t IH]; cbn; [reflexivity|]. rewrite IH. reflexivity. Qed.

Lemma bu_unfold f e : bu f e = f (rebuild (bu f) e).
Proof. destruct e; reflexivity. Qed.

Lemma forallb_flat_map {A B} (P : B -> bool) (g : A -> list B) l :
  forallb P (flat_map g l) = forallb (fun a => forallb P (g a)) l.
Proof. induction l as [|a t IH]; cbn; [reflexivity|]. rewrite forallb_app, IH. reflexivity. Qed.

(** what the guard says about the children of a node *)
Lemma bguard_node f ok rho e : bguard f ok rho e = true -> ok rho (rebuild (bu f) e) = true.
Proof. unfold bguard. destruct e; cbn [visit forallb fst snd]; intros H; apply andb_true_iff in H; apply H. Qed.

Lemma bguard_children_list f ok rho es :
  forallb (fun rn => ok (fst rn) (snd rn)) (flat_map (visit f rho) es) = true ->
  Forall (fun a => bguard f ok rho a = true) es.
Proof.
  rewrite forallb_flat_map. intros H. apply Forall_forall. intros a Ha.
  rewrite forallb_forall in H. apply H, Ha.
Qed.

Lemma under_binder_forall {A} (P : A -> bool) rho x it (k : env -> list A) vi vals :
  eval rho it = Val vi -> to_seq vi = inr vals ->
  forallb P (under_binder rho x it k) = true -> forall v, List.In v vals -> forallb P (k (bind x v rho)) = true.
Proof.
  intros Hi Hs. unfold under_binder. rewrite Hi, Hs. rewrite forallb_flat_map. intros H v Hv.
  rewrite forallb_forall in H. apply H, Hv.
Qed.

(** * Generic soundness of a bottom-up transformer *)
Section BuSound.
  Variable f : expr -> expr.
  Variable ok : env -> expr -> bool.
  Hypothesis f_sound : forall rho n, ok rho n = true -> eval rho (f n) = eval rho n.
  Hypothesis f_gen : forall p elt x it, exists p', f (EGen p elt x it) = EGen p' elt x it.
  Hypothesis f_not_gen : forall rho n, ok rho n = true -> is_gen n = false -> is_gen (f n) = false.

  Lemma is_gen_rebuild g e : is_gen (rebuild g e) = is_gen e.
  Proof. destruct e; reflexivity. Qed.

  Lemma bu_is_gen rho e : bguard f ok rho e = true -> is_gen (bu f e) = is_gen e.
  Proof.
    intros G. rewrite bu_unfold. destruct (is_gen e) eqn:E.
    - destruct e; try discriminate. cbn [rebuild]. destruct (f_gen par (bu f e1) x (bu f e2)) as [p' ->]. reflexivity.
    - apply (f_not_gen rho); [apply bguard_node, G | rewrite is_gen_rebuild; exact E].
  Qed.

  Lemma sole_gen_map rho args :
    Forall (fun a => bguard f ok rho a = true) args -> sole_gen (map (bu f) args) = sole_gen args.
  Proof.
    intros HF. destruct args as [|a [|b t]]; try reflexivity.
    - inversion HF as [|? ? Ha _]; subst. pose proof (bu_is_gen rho a Ha) as Hg. cbn [map sole_gen].
      destruct (bu f a) eqn:Eb; destruct a; cbn in Hg; try discriminate; reflexivity.
    - cbn [map sole_gen]. destruct (bu f a), a; reflexivity.
  Qed.

  Definition gen_parts (rho : env) (e : expr) : Prop :=
    match e with
    | EGen _ elt x it =>
        eval rho (bu f it) = eval rho it /\
        (forall vi vals, eval rho it = Val vi -> to_seq vi = inr vals ->
                         forall v, List.In v vals -> eval (bind x v rho) (bu f elt) = eval (bind x v rho) elt)
    | _ => True
    end.

  Ltac list_case H G es :=
    apply Forall_forall; intros a Ha; rewrite Forall_forall in H, G; apply H; [exact Ha | apply G, Ha].

  Lemma bu_sound_strong : forall e rho, bguard f ok rho e = true -> eval rho (bu f e) = eval rho e /\ gen_parts rho e.
  Proof.
    induction e using expr_ind'; intros rho G; (split; [|try exact I]);
      try (rewrite bu_unfold; rewrite (f_sound rho _ (bguard_node _ _ _ _ G)); cbn [rebuild]);
      unfold bguard in G; cbn [visit forallb] in G; apply andb_true_iff in G as [_ G];
      rewrite ?visit_list_fix, ?visit_cmp_fix in G.
    - reflexivity.
    - reflexivity.
    - reflexivity.
    - (* ETuple *) apply bguard_children_list in G. rewrite !eval_tuple, (evals_map_ext rho (bu f) es); [reflexivity|].
      apply Forall_forall; intros a Ha; rewrite Forall_forall in H, G; apply H; [exact Ha | apply G, Ha].
    - apply bguard_children_list in G. rewrite !eval_list, (evals_map_ext rho (bu f) es); [reflexivity|].
      apply Forall_forall; intros a Ha; rewrite Forall_forall in H, G; apply H; [exact Ha | apply G, Ha].
    - apply bguard_children_list in G. rewrite !eval_set, (evals_map_ext rho (bu f) es); [reflexivity|].
      apply Forall_forall; intros a Ha; rewrite Forall_forall in H, G; apply H; [exact Ha | apply G, Ha].
    - apply bguard_children_list in G. rewrite !eval_meth, (evals_map_ext rho (bu f) args); [reflexivity|].
      apply Forall_forall; intros a Ha; rewrite Forall_forall in H, G; apply H; [exact Ha | apply G, Ha].
    - (* ECall *)
      apply bguard_children_list in G.
      destruct (sole_gen args) eqn:SG.
      + destruct args as [|a [|b t]]; try discriminate; [|destruct a; discriminate]. destruct a; try discriminate.
        inversion H as [|? ? Ha _]; subst. inversion G as [|? ? Ga _]; subst.
        destruct (Ha rho Ga) as [_ [Hit Helt]].
        cbn [map]. rewrite bu_unfold. cbn [rebuild]. destruct (f_gen par (bu f a1) x (bu f a2)) as [p' ->].
        rewrite !eval_call_gen, Hit.
        destruct (eval rho a2) as [vi|]; [|reflexivity]. unfold with_seq.
        destruct (to_seq vi) as [r|vals] eqn:Es; [reflexivity|].
        apply consume_ext. intros v Hv. apply (Helt vi vals eq_refl Es v Hv).
      + rewrite !eval_call by (try rewrite (sole_gen_map rho args G); exact SG).
        rewrite (evals_map_ext rho (bu f) args); [reflexivity|].
        apply Forall_forall; intros a Ha; rewrite Forall_forall in H, G; apply H; [exact Ha | apply G, Ha].
    - (* EBool *) rewrite forallb_app in G. apply andb_true_iff in G as [G1 G2].
      rewrite !eval_bool. rewrite (proj1 (IHe1 rho G1)), (proj1 (IHe2 rho G2)). reflexivity.
    - (* ENot *) rewrite !eval_not, (proj1 (IHe rho G)). reflexivity.
    - (* ECmp *) rewrite forallb_app in G. apply andb_true_iff in G as [G1 G2].
      rewrite !eval_cmp, (proj1 (IHe rho G1)). destruct (eval rho e) as [v|]; [|reflexivity].
      apply chain_map_ext. rewrite forallb_flat_map in G2. rewrite forallb_forall in G2.
      apply Forall_forall. intros cb Hcb. rewrite Forall_forall in H. apply (H cb Hcb rho). apply G2, Hcb.
    - (* EListComp *) rewrite forallb_app in G. apply andb_true_iff in G as [G1 G2].
      rewrite !eval_listcomp, (proj1 (IHe2 rho G1)). destruct (eval rho e2) as [vi|] eqn:Ei; [|reflexivity].
      unfold with_seq. destruct (to_seq vi) as [r|vals] eqn:Es; [reflexivity|].
      rewrite (map_res_ext (fun v => eval (bind x v rho) (bu f e1)) (fun v => eval (bind x v rho) e1) vals); [reflexivity|].
      intros v Hv. apply IHe1. exact (under_binder_forall _ rho x e2 _ vi vals Ei Es G2 v Hv).
    - (* EGen: as a value *) reflexivity.
    - (* EGen: its parts *) rewrite forallb_app in G. apply andb_true_iff in G as [G1 G2]. cbn [gen_parts]. split.
      + apply IHe2, G1.
      + intros vi vals Ei Es v Hv. apply IHe1. exact (under_binder_forall _ rho x e2 _ vi vals Ei Es G2 v Hv).
    - (* EFloorDiv *) rewrite forallb_app in G. apply andb_true_iff in G as [G1 G2].
      rewrite !eval_floordiv, (proj1 (IHe1 rho G1)), (proj1 (IHe2 rho G2)). reflexivity.
    - reflexivity.
  Qed.

  Theorem bu_sound : forall e rho, bguard f ok rho e = true -> eval rho (bu f e) = eval rho e.
  Proof. intros e rho G. apply bu_sound_strong, G. Qed.
End BuSound.
