import libcst as cst
from libcst import matchers as m

from codemodder.codemods.utils_mixin import NameResolutionMixin
from core_codemods.api import SimpleCodemod


class CombineCallsBaseCodemod(SimpleCodemod, NameResolutionMixin):
    combinable_funcs: list[str] = []
    dedupilcation_attr: str = "value"
    args_to_combine: list[int] = [0]
    args_to_keep_as_is: list[int] = []

    def leave_BooleanOperation(
        self, original_node: cst.BooleanOperation, updated_node: cst.BooleanOperation
    ) -> cst.CSTNode:
        if not self.filter_by_path_includes_or_excludes(
            self.node_position(original_node)
        ):
            return updated_node

        for call_matcher in map(self.make_call_matcher, self.combinable_funcs):
            if self.matches_call_or_call(updated_node, call_matcher):
                self.report_change(original_node)
                return self.combine_calls(updated_node.left, updated_node.right)

            if self.matches_call_or_boolop(updated_node, call_matcher):
                self.report_change(original_node)
                return self.combine_call_or_boolop_fold_right(updated_node)

            if self.matches_boolop_or_call(updated_node, call_matcher):
                self.report_change(original_node)
                return self.combine_boolop_or_call_fold_left(updated_node)

        return updated_node

    def make_call_matcher(self, func_name: str) -> m.Call:
        raise NotImplementedError("Subclasses must implement this method")

    def check_calls_same_instance(
        self, left_call: cst.Call, right_call: cst.Call
    ) -> bool:
        raise NotImplementedError("Subclasses must implement this method")

    def matches_call_or_call(
        self, node: cst.BooleanOperation, call_matcher: m.Call
    ) -> bool:
        call_or_call = m.BooleanOperation(
            left=call_matcher, operator=m.Or(), right=call_matcher
        )
        # True if the node matches the pattern and the calls are the same instance
        return m.matches(node, call_or_call) and self.check_calls_same_instance(
            node.left, node.right
        )

    def matches_call_or_boolop(
        self, node: cst.BooleanOperation, call_matcher: m.Call
    ) -> bool:
        call_or_boolop = m.BooleanOperation(
            left=call_matcher,
            operator=m.Or(),
            right=m.BooleanOperation(left=call_matcher),
        )
        # True if the node matches the pattern and the calls are the same instance
        return m.matches(node, call_or_boolop) and self.check_calls_same_instance(
            node.left, node.right.left
        )

    def matches_boolop_or_call(
        self, node: cst.BooleanOperation, call_matcher: m.Call
    ) -> bool:
        boolop_or_call = m.BooleanOperation(
            left=m.BooleanOperation(right=call_matcher),
            operator=m.Or(),
            right=call_matcher,
        )
        # True if the node matches the pattern and the calls are the same instance
        return m.matches(node, boolop_or_call) and self.check_calls_same_instance(
            node.left.right, node.right
        )

    def combine_calls(self, *calls: cst.Call) -> cst.Call:
        first_call = calls[0]
        new_args = []
        for arg_index in sorted(self.args_to_keep_as_is + self.args_to_combine):
            if arg_index in self.args_to_combine:
                new_args.append(self.combine_args(*calls, arg_index=arg_index))
            else:
                new_args.append(first_call.args[arg_index])

        return cst.Call(func=first_call.func, args=new_args)

    def combine_args(self, *calls: cst.Call, arg_index: int) -> cst.Arg:
        elements = []
        seen_values = set()
        for call in calls:
            arg_value = call.args[arg_index].value
            arg_elements = (
                arg_value.elements
                if isinstance(arg_value, cst.Tuple)
                else (cst.Element(value=arg_value),)
            )

            for element in arg_elements:
                if (
                    value := getattr(element.value, self.dedupilcation_attr, None)
                ) in seen_values:
                    # If an element has a non-None value that has already been seen, continue to avoid duplicates
                    continue
                if value is not None:
                    seen_values.add(value)
                elements.append(element)

        return cst.Arg(value=cst.Tuple(elements=elements))

    @staticmethod
    def _with_spacing_of(
        operator: cst.BaseBooleanOp, outer: cst.BaseBooleanOp
    ) -> cst.BaseBooleanOp:
        return operator.with_changes(
            whitespace_before=outer.whitespace_before,
            whitespace_after=outer.whitespace_after,
        )

    def combine_call_or_boolop_fold_right(
        self, node: cst.BooleanOperation
    ) -> cst.BooleanOperation:
        new_left = self.combine_calls(node.left, node.right.left)
        new_right = node.right.right
        return cst.BooleanOperation(
            left=new_left,
            # the inner operator leaves its parentheses: it may not keep a line break
            operator=self._with_spacing_of(node.right.operator, node.operator),
            right=new_right,
            lpar=node.lpar,
            rpar=node.rpar,
        )

    def combine_boolop_or_call_fold_left(
        self, node: cst.BooleanOperation
    ) -> cst.BooleanOperation:
        new_left = node.left.left
        new_right = self.combine_calls(node.left.right, node.right)
        return cst.BooleanOperation(
            left=new_left,
            operator=self._with_spacing_of(node.left.operator, node.operator),
            right=new_right,
            lpar=node.lpar,
            rpar=node.rpar,
        )
