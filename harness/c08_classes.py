"""Finding classes of C08 for whole programs (the text families of harness/c08_families.py and corpus/C08/programs.json):
decidable predicates over (codemod, program source, observed behaviour before / after).  A behaviour difference that falls
into a class listed in findings/C08.json is a KNOWN-FINDING; every other difference stays a VIOLATION
(`kf_unmodelled_<codemod>` / `kf_line_filter_<codemod>`).  The MiniPy cases of harness/c08.py are classified in Coq
(Spec/RewritesSpec.v); the predicates here re-state the same mechanisms on Python's own `ast` for programs outside MiniPy
(starred arguments, arithmetic operands, statements) and add the mechanisms of the codemods that have no Coq model."""
from __future__ import annotations

import ast
import hashlib
import io
import re
import tokenize

COMBINABLE_METHODS = {"startswith", "endswith"}
COMBINABLE_FUNCS = {"isinstance", "issubclass"}
LOG_METHODS = {"debug", "info", "warning", "warn", "error", "critical", "exception", "log"}


def input_class(source: str) -> str:
    return "kf_input:" + hashlib.sha1(source.encode()).hexdigest()[:10]


def _walk(tree, *types):
    return [n for n in ast.walk(tree) if isinstance(n, types)]


def _combinable(n):
    """(function name, instance text) of a call the combine-* codemods look at"""
    if not isinstance(n, ast.Call):
        return None
    if isinstance(n.func, ast.Attribute) and n.func.attr in COMBINABLE_METHODS and isinstance(n.func.value, ast.Name):
        return (n.func.attr, n.func.value.id)
    if isinstance(n.func, ast.Name) and n.func.id in COMBINABLE_FUNCS and n.args and isinstance(n.args[0], ast.Name):
        return (n.func.id, n.args[0].id)
    return None


def _or_pairs(tree):
    """adjacent operand pairs of every `or` (CPython flattens a or b or c; libcst nests it to the left)"""
    for n in _walk(tree, ast.BoolOp):
        if isinstance(n.op, ast.Or):
            for u, v in zip(n.values, n.values[1:]):
                yield u, v


def combine_regroup(tree):
    for u, v in _or_pairs(tree):
        if _combinable(u) and isinstance(v, ast.BoolOp) and isinstance(v.op, ast.And) and _combinable(v.values[0]) == _combinable(u):
            return True
        if _combinable(v) and isinstance(u, ast.BoolOp) and isinstance(u.op, ast.And) and _combinable(u.values[-1]) == _combinable(v):
            return True
    return False


def _combined_calls(tree):
    for u, v in _or_pairs(tree):
        cu = u.values[-1] if isinstance(u, ast.BoolOp) else u
        cv = v.values[0] if isinstance(v, ast.BoolOp) else v
        if _combinable(cu) and _combinable(cu) == _combinable(cv):
            yield cu, cv


def combine_starred(tree):
    return any(isinstance(a, ast.Starred) for cu, cv in _combined_calls(tree) for c in (cu, cv) for a in c.args)


def combine_name_argument(tree):
    return any(isinstance(c.args[-1], ast.Name) for cu, cv in _combined_calls(tree) for c in (cu, cv)
               if c.args and isinstance(c.func, ast.Attribute))


def _negated_compares(tree):
    for n in _walk(tree, ast.UnaryOp):
        if isinstance(n.op, ast.Not) and isinstance(n.operand, ast.Compare):
            yield n, n.operand


def invert_is_literal(tree):
    return any(len(c.ops) == 1 and isinstance(c.ops[0], ast.Is) and isinstance(c.comparators[0], ast.Constant)
               and c.comparators[0].value in (True, False) and isinstance(c.comparators[0].value, bool) for _, c in _negated_compares(tree))


def invert_is_false_operand(tree):
    """`not <low-precedence expr> is False` used as an operand: the replacement is the bare left operand"""
    parents = {c: p for p in ast.walk(tree) for c in ast.iter_child_nodes(p)}
    for n, c in _negated_compares(tree):
        if len(c.ops) == 1 and isinstance(c.ops[0], ast.Is) and isinstance(c.comparators[0], ast.Constant) and c.comparators[0].value is False \
                and not isinstance(c.left, (ast.Name, ast.Constant, ast.Call, ast.Attribute, ast.Subscript)) \
                and isinstance(parents.get(n), (ast.BinOp, ast.UnaryOp, ast.Compare, ast.Attribute, ast.Subscript, ast.Call)):
            return True
    return False


def _bindings(tree):
    """module-level name -> value node, through simple and tuple assignments"""
    out = {}
    for s in getattr(tree, "body", []):
        if isinstance(s, ast.Assign) and len(s.targets) == 1:
            t, v = s.targets[0], s.value
            if isinstance(t, ast.Name):
                out[t.id] = v
            elif isinstance(t, ast.Tuple) and isinstance(v, ast.Tuple) and len(t.elts) == len(v.elts):
                for a, b in zip(t.elts, v.elts):
                    if isinstance(a, ast.Name):
                        out[a.id] = b
    return out


def _partial_order_value(n, env):
    if isinstance(n, ast.Name) and n.id in env:
        n = env[n.id]
    if isinstance(n, (ast.Set, ast.SetComp)):
        return True
    if isinstance(n, ast.Call) and isinstance(n.func, ast.Name) and n.func.id in ("set", "frozenset"):
        return True
    if isinstance(n, ast.Call) and isinstance(n.func, ast.Name) and n.func.id == "float" and n.args \
            and isinstance(n.args[0], ast.Constant) and str(n.args[0].value).lower().lstrip("+-") == "nan":
        return True
    return isinstance(n, ast.Name) and n.id in ("NAN", "nan")


def invert_partial_order(tree):
    env = _bindings(tree)
    return any(len(c.ops) == 1 and isinstance(c.ops[0], (ast.Lt, ast.LtE, ast.Gt, ast.GtE))
               and (_partial_order_value(c.left, env) or _partial_order_value(c.comparators[0], env)) for _, c in _negated_compares(tree))


def _user_class_names(tree):
    return {c.name for c in _walk(tree, ast.ClassDef)
            if any(isinstance(f, ast.FunctionDef) and f.name in ("__lt__", "__le__", "__gt__", "__ge__") for f in c.body)}


def invert_user_ordering(tree):
    """a negated ordering comparison in a program that defines a class with some (not necessarily all) comparison methods"""
    return bool(_user_class_names(tree)) and any(
        len(c.ops) == 1 and isinstance(c.ops[0], (ast.Lt, ast.LtE, ast.Gt, ast.GtE)) for _, c in _negated_compares(tree))


def set_literal_in_fstring_field(tree):
    """`set([...])` is the whole expression of an f-string replacement field: the display's `{` meets the field's `{`"""
    for fv in _walk(tree, ast.FormattedValue):
        v = fv.value
        if isinstance(v, ast.Call) and isinstance(v.func, ast.Name) and v.func.id == "set" and len(v.args) == 1 \
                and isinstance(v.args[0], ast.List) and v.args[0].elts:
            return True
    return False


def invert_brace_first_in_fstring_field(tree, source):
    """`not <comparison>` is the whole expression of an f-string replacement field and the comparison's text starts with `{`
    (a set/dict display or comprehension as its leftmost operand): without `not ` that `{` meets the field's `{`"""
    for fv in _walk(tree, ast.FormattedValue):
        v = fv.value
        if isinstance(v, ast.UnaryOp) and isinstance(v.op, ast.Not) and isinstance(v.operand, ast.Compare):
            seg = ast.get_source_segment(source, v.operand) or ""
            if seg.startswith("{"):
                return True
    return False


def _gen_calls(tree):
    for n in _walk(tree, ast.Call):
        if isinstance(n.func, ast.Name) and n.func.id in ("any", "all", "sum", "min", "max") and n.args:
            yield n


def generator_starred(tree):
    return any(isinstance(n.args[0], ast.Starred) and isinstance(n.args[0].value, ast.ListComp) for n in _gen_calls(tree))


def generator_shortcircuit(tree):
    """any/all over a list comprehension whose element (or condition) may raise or have an effect: a call, a division, a subscript"""
    for n in _gen_calls(tree):
        if n.func.id in ("any", "all") and isinstance(n.args[0], ast.ListComp):
            parts = [n.args[0].elt] + [i for g in n.args[0].generators for i in g.ifs]
            if any(isinstance(x, (ast.Call, ast.BinOp, ast.Subscript, ast.Attribute, ast.NamedExpr)) for p in parts for x in ast.walk(p)):
                return True
    return False


def generator_await(tree):
    return any(isinstance(n.args[0], ast.ListComp) and (_walk(n.args[0], ast.Await) or any(g.is_async for g in n.args[0].generators))
               for n in _gen_calls(tree))


def set_literal_starred(tree):
    return any(isinstance(n.func, ast.Name) and n.func.id == "set" and len(n.args) == 1 and isinstance(n.args[0], ast.Starred)
               and isinstance(n.args[0].value, ast.List) for n in _walk(tree, ast.Call))


def _assign_then_if(tree):
    """(assign, if) pairs the walrus codemod looks at: `x = v` immediately followed by an `if` whose test mentions x"""
    for n in ast.walk(tree):
        body_lists = [getattr(n, f) for f in ("body", "orelse", "finalbody") if isinstance(getattr(n, f, None), list)]
        for body in body_lists:
            for a, b in zip(body, body[1:]):
                if isinstance(a, ast.Assign) and len(a.targets) == 1 and isinstance(a.targets[0], ast.Name) and isinstance(b, ast.If) \
                        and any(isinstance(x, ast.Name) and x.id == a.targets[0].id for x in ast.walk(b.test)):
                    yield n, a, b


LOW_PRECEDENCE = (ast.BoolOp, ast.Tuple, ast.IfExp, ast.Lambda, ast.Compare, ast.NamedExpr, ast.Yield, ast.YieldFrom, ast.Starred)


def walrus_inline_precedence(tree):
    """the assigned value binds more loosely than the place it is inlined into (`if a or b is None`, `if 1, 2:`)"""
    return any(isinstance(a.value, LOW_PRECEDENCE) or (isinstance(a.value, ast.UnaryOp) and isinstance(a.value.op, ast.Not))
               for _, a, _ in _assign_then_if(tree))


def walrus_nested_scope_read(tree):
    """the assigned name is read from a nested function / lambda / class / comprehension of the scope it is assigned in"""
    for scope, a, _ in _assign_then_if(tree):
        name = a.targets[0].id
        for inner in ast.walk(scope):
            if inner is not scope and isinstance(inner, (ast.FunctionDef, ast.AsyncFunctionDef, ast.Lambda, ast.ClassDef, ast.ListComp,
                                                         ast.SetComp, ast.DictComp, ast.GeneratorExp)):
                if any(isinstance(x, ast.Name) and x.id == name and isinstance(x.ctx, ast.Load) for x in ast.walk(inner)):
                    return True
    return False


def _log_calls(tree):
    for n in _walk(tree, ast.Call):
        if isinstance(n.func, ast.Attribute) and n.func.attr in LOG_METHODS and n.args:
            yield n


def _plus_chain(n):
    if isinstance(n, ast.BinOp) and isinstance(n.op, ast.Add):
        return _plus_chain(n.left) + _plus_chain(n.right)
    return [n]


def lazy_logging_plus(tree):
    return any(isinstance(c.args[0], ast.BinOp) and isinstance(c.args[0].op, ast.Add) for c in _log_calls(tree))


def lazy_logging_stray_percent(tree):
    for c in _log_calls(tree):
        if isinstance(c.args[0], ast.BinOp) and isinstance(c.args[0].op, ast.Add):
            if any(isinstance(p, ast.Constant) and isinstance(p.value, str) and "%" in p.value for p in _plus_chain(c.args[0])):
                return True
    return False


def lazy_logging_tuple_variable(tree):
    """`"%s and %s" % args`: the right operand of % is not a tuple display (it may be bound to a tuple: one logging argument
    instead of several)"""
    for c in _log_calls(tree):
        m = c.args[0]
        if isinstance(m, ast.BinOp) and isinstance(m.op, ast.Mod) and isinstance(m.left, ast.Constant) and isinstance(m.left.value, str):
            n = len(re.findall(r"%(?!%)", m.left.value.replace("%%", "")))
            if not isinstance(m.right, (ast.Tuple, ast.Dict, ast.Constant)) and n >= 1:
                return True
    return False


def lazy_logging_raw_mix(source):
    """a concatenation of raw and non-raw string literals inside a logging call"""
    try:
        toks = list(tokenize.generate_tokens(io.StringIO(source).readline))
    except (tokenize.TokenError, IndentationError, SyntaxError):
        return False
    for line in {t.start[0] for t in toks if t.type == tokenize.STRING}:
        strs = [t.string for t in toks if t.type == tokenize.STRING and t.start[0] == line]
        raw = [bool(re.match(r"(?i)[bfu]*r", s.split("'")[0].split('"')[0])) for s in strs]
        if any(raw) and not all(raw) and any(re.search(r"\b(%s)\s*\(" % "|".join(LOG_METHODS), t.line) for t in toks if t.start[0] == line):
            return True
    return False


def _open_handles(tree):
    for scope in ast.walk(tree):
        for s in getattr(scope, "body", []) if isinstance(getattr(scope, "body", None), list) else []:
            if isinstance(s, ast.Assign) and len(s.targets) == 1 and isinstance(s.targets[0], ast.Name) and isinstance(s.value, ast.Call) \
                    and isinstance(s.value.func, ast.Name) and s.value.func.id == "open":
                yield scope, s.targets[0].id, s


def resource_leak_escaping_handle(tree):
    """the handle is read from a nested function, or put into a tuple / list / dict / set display (and so may outlive the with block)"""
    for scope, name, assign in _open_handles(tree):
        for inner in ast.walk(tree):
            if isinstance(inner, (ast.FunctionDef, ast.AsyncFunctionDef, ast.Lambda)) and inner is not scope \
                    and not any(s is assign for s in ast.walk(inner)):
                if any(isinstance(x, ast.Name) and x.id == name and isinstance(x.ctx, ast.Load) for x in ast.walk(inner)):
                    return True
        for d in _walk(scope, ast.Tuple, ast.List, ast.Dict, ast.Set):
            if any(isinstance(x, ast.Name) and x.id == name and isinstance(x.ctx, ast.Load) for x in ast.iter_child_nodes(d)):
                return True
    return False


def resource_leak_unused_handle(tree):
    for scope, name, assign in _open_handles(tree):
        reads = [x for x in ast.walk(tree) if isinstance(x, ast.Name) and x.id == name and isinstance(x.ctx, ast.Load)]
        if not reads:
            return True
    return False


def _execute_args(tree):
    for n in _walk(tree, ast.Call):
        if isinstance(n.func, ast.Attribute) and n.func.attr in ("execute", "executemany") and n.args:
            yield n.args[0]


def sql_format_spec(tree):
    for a in _execute_args(tree):
        for x in ast.walk(a):
            if isinstance(x, ast.FormattedValue) and (x.format_spec is not None or x.conversion != -1):
                return True
            if isinstance(x, ast.BinOp) and isinstance(x.op, ast.Mod) and isinstance(x.left, ast.Constant) and isinstance(x.left.value, str):
                if any(m != "%s" for m in re.findall(r"%[-#0 +]*\d*(?:\.\d+)?[a-zA-Z]", x.left.value.replace("%%", ""))):
                    return True
    return False


def sql_brace_literal(tree):
    for a in _execute_args(tree):
        if isinstance(a, ast.BinOp) and isinstance(a.op, ast.Add):
            if any(isinstance(p, ast.Constant) and isinstance(p.value, str) and ("{" in p.value or "}" in p.value) for p in _plus_chain(a)):
                return True
    return False


def sql_printf_bare_operand(source):
    """`(<several string pieces>) % value`: the left side of % is not one literal and the right side is a bare value, not a
    tuple / dict display (the `%s` token survives next to the `?`)"""
    import libcst as cst
    import libcst.matchers as m
    try:
        mod = cst.parse_module(source)
    except Exception:
        return False
    for n in m.findall(mod, m.BinaryOperation(operator=m.Modulo())):
        if isinstance(n.left, (cst.ConcatenatedString, cst.BinaryOperation)) and not isinstance(n.right, (cst.Tuple, cst.Dict)):
            return True
    return False


def sql_removed_assignment(tree):
    """the function that holds the query also assigns a call result to a name nobody reads: the clean-up pass removes the statement"""
    for fn in _walk(tree, ast.FunctionDef, ast.AsyncFunctionDef):
        if not list(_execute_args(fn)):
            continue
        for s in fn.body:
            if isinstance(s, ast.Assign) and len(s.targets) == 1 and isinstance(s.targets[0], ast.Name) and _walk(s.value, ast.Call):
                name = s.targets[0].id
                if not any(isinstance(x, ast.Name) and x.id == name and isinstance(x.ctx, ast.Load) for x in ast.walk(fn)):
                    return True
    return False


def order_imports_rebinding(tree):
    """two imports bind the same name, or a star import stands next to another import (their order decides the binding)"""
    bound, star = [], False
    for s in getattr(tree, "body", []):
        if isinstance(s, (ast.Import, ast.ImportFrom)):
            for a in s.names:
                if a.name == "*":
                    star = True
                else:
                    bound.append(a.asname or a.name.split(".")[0])
    return len(bound) != len(set(bound)) or (star and bool(bound))


def abstractproperty_shadowed_abc(tree):
    """the name `abc` is bound to something else than the module (the rewrite writes `abc.abstractmethod`)"""
    for n in ast.walk(tree):
        if isinstance(n, ast.Name) and n.id == "abc" and isinstance(n.ctx, ast.Store):
            return True
        if isinstance(n, (ast.FunctionDef, ast.ClassDef)) and n.name == "abc":
            return True
        if isinstance(n, ast.arg) and n.arg == "abc":
            return True
        if isinstance(n, (ast.Import, ast.ImportFrom)) and any((a.asname or a.name) == "abc" and a.name != "abc" for a in n.names):
            return True
    return False


# a further check on the rewritten text, where the mechanism leaves a recognisable trace there
REWRITE_CHECK = {
    "kf_set_literal_fstring_braces": lambda src, rw: rw is not None and "{{" in rw and "{{" not in src,
    "kf_invert_fstring_braces": lambda src, rw: rw is not None and "{{" in rw and "{{" not in src,
}

RAISES = lambda obs, exc: obs[0].endswith("RAISED %s\n" % exc)

# (class, codemods, predicate(tree, source, before, after)); the first match wins
CLASSES = [
    ("kf_combine_starred_arg", ("combine-startswith-endswith", "combine-isinstance-issubclass"), lambda t, s, b, a: combine_starred(t)),
    ("kf_combine_regroup", ("combine-startswith-endswith", "combine-isinstance-issubclass"), lambda t, s, b, a: combine_regroup(t)),
    ("kf_combine_tuple_name", ("combine-startswith-endswith",), lambda t, s, b, a: combine_name_argument(t) and RAISES(a, "TypeError")),
    # kf_invert_is_false_operand (lost parentheses) was repaired by 745793f; what still differs on those programs is the
    # `not x is False` -> `x` rewrite on a non-bool operand, i.e. kf_invert_is_literal, which is therefore tested first.
    # A return of the parentheses defect flips the translator's invert shape (iv_parens) and is reported through the table.
    ("kf_invert_fstring_braces", ("invert-boolean-check",), lambda t, s, b, a: invert_brace_first_in_fstring_field(t, s)),
    ("kf_invert_is_literal", ("invert-boolean-check",), lambda t, s, b, a: invert_is_literal(t)),
    ("kf_invert_is_false_operand", ("invert-boolean-check",), lambda t, s, b, a: invert_is_false_operand(t)),
    ("kf_invert_partial_order", ("invert-boolean-check",), lambda t, s, b, a: invert_partial_order(t) or invert_user_ordering(t)),
    ("kf_generator_starred_arg", ("use-generator",), lambda t, s, b, a: generator_starred(t)),
    ("kf_generator_await", ("use-generator",), lambda t, s, b, a: generator_await(t)),
    ("kf_generator_shortcircuit", ("use-generator",), lambda t, s, b, a: generator_shortcircuit(t)),
    ("kf_set_literal_starred_arg", ("use-set-literal",), lambda t, s, b, a: set_literal_starred(t)),
    ("kf_set_literal_fstring_braces", ("use-set-literal",), lambda t, s, b, a: set_literal_in_fstring_field(t)),
    ("kf_hasattr_arity", ("fix-hasattr-call",), lambda t, s, b, a: any(
        isinstance(n.func, ast.Name) and n.func.id == "hasattr" and len(n.args) != 2 and n.args
        and isinstance(n.args[-1], ast.Constant) and n.args[-1].value == "__call__" for n in _walk(t, ast.Call))),
    ("kf_walrus_nested_scope_read", ("use-walrus-if",), lambda t, s, b, a: walrus_nested_scope_read(t)),
    ("kf_walrus_inline_precedence", ("use-walrus-if",), lambda t, s, b, a: walrus_inline_precedence(t)),
    ("kf_lazy_logging_nonstr_operand", ("lazy-logging",), lambda t, s, b, a: lazy_logging_plus(t) and RAISES(b, "TypeError")),
    ("kf_lazy_logging_stray_percent", ("lazy-logging",), lambda t, s, b, a: lazy_logging_stray_percent(t)),
    ("kf_lazy_logging_tuple_variable", ("lazy-logging",), lambda t, s, b, a: lazy_logging_tuple_variable(t)),
    ("kf_lazy_logging_raw_mix", ("lazy-logging",), lambda t, s, b, a: lazy_logging_raw_mix(s)),
    ("kf_resource_leak_escaping_handle", ("fix-file-resource-leak",), lambda t, s, b, a: resource_leak_escaping_handle(t)),
    ("kf_resource_leak_unused_handle", ("fix-file-resource-leak",), lambda t, s, b, a: resource_leak_unused_handle(t)),
    ("kf_sql_format_spec", ("sql-parameterization",), lambda t, s, b, a: sql_format_spec(t)),
    ("kf_sql_brace_literal", ("sql-parameterization",), lambda t, s, b, a: sql_brace_literal(t)),
    ("kf_sql_printf_bare_operand", ("sql-parameterization",), lambda t, s, b, a: sql_printf_bare_operand(s)),
    ("kf_sql_removed_assignment", ("sql-parameterization",), lambda t, s, b, a: sql_removed_assignment(t)),
    ("kf_order_imports_rebinding", ("order-imports",), lambda t, s, b, a: order_imports_rebinding(t)),
    ("kf_abstractproperty_shadowed_abc", ("fix-deprecated-abstractproperty",), lambda t, s, b, a: abstractproperty_shadowed_abc(t)),
]


def outcome(obs):
    """('value', stdout) or ('raise', exception type): what the WRAP runner of c08_families printed last"""
    out = obs[0]
    lines = out.rstrip("\n").split("\n")
    if lines and lines[-1].startswith("RAISED "):
        return ("raise", lines[-1][len("RAISED "):])
    return ("value", out)


def _v2v(b, a):
    return outcome(b)[0] == "value" and outcome(a)[0] == "value"


def _to_raise(*types):
    return lambda b, a: outcome(a)[0] == "raise" and outcome(a)[1] in types


def _either(*preds):
    return lambda b, a: any(p(b, a) for p in preds)


# the failure each class predicts: a difference on an input of the class's shape is absorbed only if it looks like this
EXPECTED_FAILURE = {
    "kf_combine_starred_arg": _to_raise("TypeError"),
    "kf_combine_regroup": _v2v,
    "kf_combine_tuple_name": _to_raise("TypeError"),
    "kf_invert_is_literal": _v2v,
    "kf_invert_is_false_operand": _v2v,
    "kf_invert_partial_order": _either(_v2v, _to_raise("TypeError")),
    "kf_generator_starred_arg": _either(_v2v, _to_raise("TypeError"), lambda b, a: outcome(b) == ("raise", "TypeError")),
    "kf_generator_await": _to_raise("TypeError"),
    # elements after the deciding one are no longer evaluated: fewer effects, or an exception that no longer happens
    "kf_generator_shortcircuit": _either(_v2v, lambda b, a: outcome(b)[0] == "raise" and outcome(a)[0] == "value"),
    "kf_set_literal_starred_arg": _either(_v2v, _to_raise("TypeError"), lambda b, a: outcome(b) == ("raise", "TypeError")),
    "kf_set_literal_fstring_braces": _either(_v2v, _to_raise("SyntaxError")),
    "kf_invert_fstring_braces": _either(_v2v, _to_raise("SyntaxError")),
    "kf_hasattr_arity": lambda b, a: outcome(a)[0] == "value",
    "kf_walrus_nested_scope_read": _to_raise("NameError", "UnboundLocalError"),
    "kf_walrus_inline_precedence": _either(_v2v, _to_raise("SyntaxError")),
    "kf_lazy_logging_nonstr_operand": lambda b, a: outcome(b) == ("raise", "TypeError") and outcome(a)[0] == "value",
    "kf_lazy_logging_tuple_variable": _either(_v2v, lambda b, a: outcome(b) == ("raise", "TypeError") and outcome(a)[0] == "value"),
    "kf_lazy_logging_stray_percent": _v2v,
    "kf_lazy_logging_raw_mix": _v2v,
    "kf_resource_leak_escaping_handle": _to_raise("NameError", "ValueError", "UnboundLocalError"),
    "kf_resource_leak_unused_handle": _v2v,
    "kf_sql_format_spec": _v2v,
    "kf_sql_brace_literal": _v2v,
    "kf_sql_printf_bare_operand": _to_raise("OperationalError"),
    "kf_sql_removed_assignment": _v2v,
    "kf_order_imports_rebinding": _v2v,
    "kf_abstractproperty_shadowed_abc": _to_raise("AttributeError", "TypeError"),
}


def classify(codemod, source, before, after, rewritten=None):
    """name of the first finding class whose input predicate holds AND whose predicted failure is the one observed, or None"""
    try:
        tree = ast.parse(source)
    except SyntaxError:
        return None
    for name, codemods, pred in CLASSES:
        if codemod in codemods:
            try:
                if pred(tree, source, before, after) and EXPECTED_FAILURE.get(name, lambda b, a: True)(before, after) \
                        and REWRITE_CHECK.get(name, lambda s, r: True)(source, rewritten):
                    return name
            except Exception:      # a predicate must never hide a difference
                continue
    return None
