class XMLTransformer(XMLGenerator, LexicalHandler):
    """
    Given a XML file, generates the same file but formatted.
    """

    change_description = ""

    def __init__(
        self,
        out,
        file_context: FileContext,
        encoding: str = "utf-8",
        short_empty_elements: bool = False,
        results: list[Result] | None = None,
        line_only_matching=False,
    ) -> None:
        self.file_context = file_context
        self.results = results
        self.changes: list[Change] = []
        self._my_locator = Locator()
        self.line_only_matching = line_only_matching
        super().__init__(out, encoding, short_empty_elements)

    def startElement(self, name, attrs):
        super().startElement(name, attrs)

    def endElement(self, name):
        super().endElement(name)

    def characters(self, content):
        super().characters(content)

    def skippedEntity(self, name: str) -> None:
        super().skippedEntity(name)

    def comment(self, content: str):
        self._write(f"<!--{content}-->\n")  # type: ignore

    def startCDATA(self):
        self._write("<![CDATA[")  # type: ignore

    def endCDATA(self):
        self._write("]]>")  # type: ignore

    def startDTD(self, name: str, public_id: str | None, system_id: str | None):
        self._write(f'<!DOCTYPE {name} PUBLIC "{public_id}" "{system_id}">\n')  # type: ignore
        return super().startDTD(name, public_id, system_id)

    def endDTD(self) -> object:
        return super().endDTD()

    def setDocumentLocator(self, locator: Locator) -> None:
        self._my_locator = locator

    def event_match_result(self) -> bool:
        """
        Returns True if the current event matches any result.
        """
        line = self._my_locator.getLineNumber()
        column = self._my_locator.getColumnNumber()
        return self.match_result(line, column)

    def match_result(self, line, column) -> bool:
        if self.results is None:
            return True
        for result in self.results or []:
            for location in result.locations:
                # No two elements can have the same start but different ends.
                # It suffices to only match the start.
                if (self.line_only_matching and location.start.line == line) or (
                    location.start.line == line and location.start.column - 1 == column
                ):
                    return True
        return False

    def add_change(self, line):
        self.changes.append(
            Change(
                lineNumber=line,
                description=self.change_description or None,
                findings=self.file_context.get_findings_for_location(line),
            )
        )
