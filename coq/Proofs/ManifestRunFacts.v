(** The manifest writers' reported diff has the round trip (premise [HW] of Proofs/RunDiff.v), for [W_manifest]. *)
From CM Require Import Model.Manifest Spec.ManifestSpec Proofs.ManifestFacts Model.ManifestRun.
From CM Require Import Model.Run Spec.DiffSpec Proofs.DiffFacts Proofs.DiffSplit.
From Coq Require Import Lia.

Lemma ends_nl_ends_lf l : ends_nl l = ends_lf l.
Proof.
  induction l as [|c r IH]; [reflexivity|]. destruct r as [|c' r']; [reflexivity|].
  change (ends_nl (c :: c' :: r')) with (ends_nl (c' :: r')). change (ends_lf (c :: c' :: r')) with (ends_lf (c' :: r')). exact IH.
Qed.

Lemma norm_nl_ensure t : norm_nl t = ensure_final_lf t.
Proof. unfold norm_nl, ensure_final_lf. destruct t; [reflexivity|]. now rewrite ends_nl_ends_lf. Qed.

(** lines that are all well-formed and terminated *)
Definition all_term (a : list str) : bool := forallb (fun l => line_ok l && ends_nl l) a.

Lemma all_term_lf_clean a : all_term a = true -> lf_clean a = true.
Proof.
  unfold all_term, lf_clean. intros H. rewrite forallb_forall in H. apply andb_true_iff. split; apply forallb_forall; intros l Hl.
  - specialize (H l Hl). now apply andb_true_iff in H.
  - assert (In l a).
    { clear H. induction a as [|x r IH]; [destruct Hl|]. destruct r as [|y r']; [destruct Hl|].
      cbn [removelast] in Hl. destruct Hl as [->|Hl]; [now left|right; now apply IH]. }
    specialize (H l H0). now apply andb_true_iff in H.
Qed.

Lemma all_term_app a b : all_term (a ++ b) = all_term a && all_term b.
Proof. unfold all_term. apply forallb_app. Qed.

Lemma readlines_lf_line_ok s : forallb line_ok (readlines_lf s) = true.
Proof.
  induction s as [|c r IH]; [reflexivity|]. rewrite readlines_lf_cons.
  destruct (N.eqb_spec c Manifest.LF) as [->|Hne].
  - cbn [forallb]. now rewrite IH.
  - destruct (readlines_lf r) as [|l ls] eqn:E.
    + apply N.eqb_neq in Hne. unfold Manifest.LF in Hne. cbn [forallb]. unfold line_ok. cbn [is_nil negb andb chomp]. rewrite Hne.
      cbn [nl_free forallb]. rewrite Hne. reflexivity.
    + cbn [forallb] in *. apply andb_true_iff in IH as [Hl Hls]. rewrite Hls, andb_true_r.
      unfold line_ok in *. apply andb_true_iff in Hl as [Hn Hf]. cbn [is_nil negb andb].
      assert (l <> []) by (destruct l; [discriminate|discriminate]).
      rewrite chomp_cons_ne by assumption. cbn [nl_free forallb]. fold (nl_free (chomp l)). rewrite Hf, andb_true_r.
      apply N.eqb_neq in Hne. unfold Manifest.LF in Hne. now rewrite Hne.
Qed.

Lemma readlines_lf_all_term s : ends_lf s = true -> all_term (readlines_lf s) = true.
Proof.
  intros He. unfold all_term. apply forallb_forall. intros l Hl.
  pose proof (readlines_lf_line_ok s) as H1. rewrite forallb_forall in H1.
  pose proof (readlines_lf_all_end s He) as H2. rewrite Forall_forall in H2.
  rewrite (H1 l Hl), ends_nl_ends_lf, (H2 l Hl). reflexivity.
Qed.

Lemma req_lines_all_term line_of ds : lines_guard line_of ds = true -> all_term (req_lines (mdeps line_of ds)) = true.
Proof.
  unfold lines_guard. induction ds as [|n r IH]; [reflexivity|]. cbn [forallb mdeps map req_lines dline all_term].
  intros H. apply andb_true_iff in H as [Hn Hr]. apply andb_true_iff in Hn as [Hnl _].
  fold (mdeps line_of r). fold (req_lines (mdeps line_of r)). fold (all_term (req_lines (mdeps line_of r))). rewrite (IH Hr), andb_true_r.
  unfold Manifest.LF. rewrite ends_nl_snoc, andb_true_r. unfold line_ok. rewrite chomp_snoc.
  assert (Hne : is_nil (line_of n ++ [10%N]) = false) by (destruct (line_of n); reflexivity). rewrite Hne. cbn [negb andb].
  unfold nl_free. apply forallb_forall. intros c Hc. apply negb_true_iff. apply N.eqb_neq. intros ->.
  apply (no_nl_no_lf _ Hnl). exact Hc.
Qed.

(** exotic line boundaries and concatenation, for a CR-free left part *)
Lemma has_exotic_app_nocr x y : no_cr x = true -> has_exotic (x ++ y) = has_exotic x || has_exotic y.
Proof.
  unfold no_cr. induction x as [|c r IH]; [reflexivity|]. cbn [existsb app has_exotic].
  intros H. apply negb_true_iff, orb_false_iff in H as [Hc Hr].
  unfold Manifest.CR in Hc. rewrite N.eqb_sym in Hc. rewrite Hc.
  rewrite IH by (now rewrite Hr). destruct (c =? 10)%N; [reflexivity|]. now rewrite orb_assoc.
Qed.

Lemma no_cr_app x y : no_cr (x ++ y) = no_cr x && no_cr y.
Proof. unfold no_cr. rewrite existsb_app, negb_orb. reflexivity. Qed.

Lemma no_nl_no_cr_b s : no_nl s = true -> no_cr s = true.
Proof. intros H. apply no_cr_iff. now apply no_nl_no_cr. Qed.

Lemma req_lines_clean line_of ds : lines_guard line_of ds = true ->
  has_exotic (concat (req_lines (mdeps line_of ds))) = false /\ no_cr (concat (req_lines (mdeps line_of ds))) = true.
Proof.
  unfold lines_guard. induction ds as [|n r IH]; [split; reflexivity|]. cbn [forallb mdeps map req_lines dline concat].
  intros H. apply andb_true_iff in H as [Hn Hr]. apply andb_true_iff in Hn as [Hnl Hex]. apply negb_true_iff in Hex.
  destruct (IH Hr) as [I1 I2]. fold (mdeps line_of r) in *. fold (req_lines (mdeps line_of r)) in *.
  assert (Hc : no_cr (line_of n ++ [Manifest.LF]) = true) by (rewrite no_cr_app, (no_nl_no_cr_b _ Hnl); reflexivity).
  split.
  - rewrite has_exotic_app_nocr by exact Hc. rewrite I1, orb_false_r.
    rewrite has_exotic_app_nocr by (now apply no_nl_no_cr_b). rewrite Hex. reflexivity.
  - rewrite no_cr_app, Hc, I2. reflexivity.
Qed.

Lemma ensure_final_lf_clean b : no_cr b = true -> has_exotic b = false ->
  has_exotic (ensure_final_lf b) = false /\ no_cr (ensure_final_lf b) = true.
Proof.
  intros Hc He. unfold ensure_final_lf. destruct b as [|c r]; [split; reflexivity|].
  destruct (ends_lf (c :: r)); [split; assumption|]. split.
  - rewrite has_exotic_app_nocr by exact Hc. rewrite He. reflexivity.
  - rewrite no_cr_app, Hc. reflexivity.
Qed.

Section HW.
  Variable matcher : list str -> list str -> script.
  Variable line_of : str -> str.
  Variable defined_of : str -> option str.
  Variable lv : cfg_last_line.
  Hypothesis Hvalid : forall a b, a_of (matcher a b) = a /\ b_of (matcher a b) = b.
  Local Notation Wm := (W_manifest matcher line_of defined_of lv).

  Lemma script_roundtrip orig new b :
    lf_clean orig = true -> lf_clean new = true -> norm_nl (concat orig) = norm_nl b ->
    apply_udiff (create_diff (matcher orig new)) b = Some (norm_nl (concat new)).
  Proof.
    intros Ho Hn Hb. destruct (Hvalid orig new) as [Ea Eb].
    pose proof (patch_roundtrip (matcher orig new)) as H. rewrite Ea, Eb in H. specialize (H Ho Hn).
    rewrite <- (apply_udiff_norm_nl _ b), <- Hb, apply_udiff_norm_nl. exact H.
  Qed.

  (** the premise [HW] of Proofs/RunDiff.v, for the two modelled writers *)
  Lemma W_manifest_roundtrip k b ds b' d chs :
    Wm k (Some b) ds = Some (b', d, chs) -> has_exotic b = false ->
    apply_udiff d b = Some (norm_nl b') /\ has_exotic b' = false.
  Proof.
    unfold W_manifest. intros H Hcl.
    destruct (no_cr b) eqn:Hcr; [|discriminate]. destruct (lines_guard line_of ds) eqn:Hg; [|discriminate]. cbn [andb] in H.
    destruct k; try discriminate.
    - (* requirements.txt *)
      destruct (fix_last (readlines b)) as [orig|] eqn:Hf; [|discriminate]. injection H as <- <- <-.
      assert (Hb : b <> []) by (intros ->; discriminate).
      unfold readlines in Hf. rewrite (univ_nl_id b Hcr) in Hf.
      rewrite (fix_last_readlines_lf_lines b Hb) in Hf. injection Hf as <-.
      set (orig := readlines_lf (ensure_final_lf b)).
      assert (Hot : all_term orig = true) by (apply readlines_lf_all_term, ends_lf_ensure, Hb).
      assert (Hco : concat orig = ensure_final_lf b) by apply concat_readlines_lf.
      split.
      + unfold writelines. apply script_roundtrip.
        * now apply all_term_lf_clean.
        * apply all_term_lf_clean. rewrite all_term_app, Hot. now apply req_lines_all_term.
        * rewrite Hco, <- (norm_nl_ensure b). apply norm_nl_idem.
      + unfold writelines. rewrite concat_app, Hco.
        destruct (ensure_final_lf_clean b Hcr Hcl) as [E1 E2]. destruct (req_lines_clean line_of ds Hg) as [E3 _].
        rewrite has_exotic_app_nocr by exact E2. now rewrite E1, E3.
    - (* setup.cfg *)
      destruct (defined_of b) as [df|]; [|discriminate].
      destruct (cfg_build_new_lines (cfg_lines lv b) df (mdeps line_of ds)) as [| |nls new]; try discriminate.
      destruct nls; [|discriminate].
      destruct (negb (is_nil df) && negb (is_nil new) && lf_clean (cfg_lines lv b) && lf_clean new && negb (has_exotic (concat new))) eqn:G;
        [|discriminate].
      injection H as <- <- <-.
      apply andb_true_iff in G as [G Gx]. apply andb_true_iff in G as [G Gn]. apply andb_true_iff in G as [G Go].
      apply negb_true_iff in Gx. split; [|exact Gx].
      unfold writelines. apply script_roundtrip; [exact Go|exact Gn|].
      destruct lv; unfold cfg_lines, readlines; rewrite (univ_nl_id b Hcr).
      + now rewrite concat_readlines_lf.
      + destruct b as [|c r]; [reflexivity|].
        rewrite (fix_last_readlines_lf_lines (c :: r)) by discriminate.
        rewrite concat_readlines_lf, <- (norm_nl_ensure (c :: r)). apply norm_nl_idem.
  Qed.

  (** [W_manifest] is the C14 model of the writers, not a new one *)
  Lemma W_manifest_req_is_model b ds b' d chs :
    Wm SReqTxt (Some b) ds = Some (b', d, chs) ->
    exists nums, req_add_to_file DryGuarded false b (mdeps line_of ds) = (WSome nums, b') /\ chs = changes_of nums.
  Proof.
    unfold W_manifest, req_add_to_file. intros H.
    destruct (no_cr b && lines_guard line_of ds); [|discriminate].
    destruct (fix_last (readlines b)) as [orig|]; [|discriminate]. injection H as <- <- <-.
    eexists. split; reflexivity.
  Qed.

  Lemma W_manifest_cfg_is_model b ds b' d chs :
    Wm SSetupCfg (Some b) ds = Some (b', d, chs) ->
    cfg_add_to_file lv DryGuarded false b (defined_of b) (mdeps line_of ds) = (WSome [], b').
  Proof.
    unfold W_manifest, cfg_add_to_file. intros H.
    destruct (no_cr b && lines_guard line_of ds); [|discriminate].
    destruct (defined_of b) as [df|]; [|discriminate].
    destruct (cfg_build_new_lines (cfg_lines lv b) df (mdeps line_of ds)) as [| |nls new]; try discriminate.
    destruct nls; [|discriminate].
    destruct (negb (is_nil df) && negb (is_nil new) && lf_clean (cfg_lines lv b) && lf_clean new && negb (has_exotic (concat new))) eqn:G;
      [|discriminate].
    injection H as <- <- <-.
    apply andb_true_iff in G as [G _]. apply andb_true_iff in G as [G _]. apply andb_true_iff in G as [G _].
    apply andb_true_iff in G as [Gd Gn]. destruct df; [discriminate|]. destruct new; [discriminate|]. reflexivity.
  Qed.

  Lemma W_manifest_none k ds : Wm k None ds = None.
  Proof. reflexivity. Qed.
End HW.
