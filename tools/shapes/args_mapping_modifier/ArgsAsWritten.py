class MappingImportedCallModifier:
    def update_attribute(self, true_name, original_node, updated_node, new_args):
        if not self.node_is_selected(original_node):
            return updated_node

        import_name = self.matching_functions[true_name]
        self.add_import(import_name)
        RemoveImportsVisitor.remove_unused_import_by_node(self.context, original_node)
        return updated_node.with_changes(
            args=new_args,
            func=cst.Attribute(
                value=cst.parse_expression(import_name),
                attr=cst.Name(value=true_name.split(".")[-1]),
            ),
        )

    def update_simple_name(self, true_name, original_node, updated_node, new_args):
        if not self.node_is_selected(original_node):
            return updated_node

        import_name = self.matching_functions[true_name]
        self.add_import(import_name)
        RemoveImportsVisitor.remove_unused_import_by_node(self.context, original_node)
        return updated_node.with_changes(
            args=new_args,
            func=cst.Attribute(
                value=cst.parse_expression(import_name),
                attr=cst.Name(value=true_name.split(".")[-1]),
            ),
        )

