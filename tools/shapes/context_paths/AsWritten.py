# src/codemodder/context.py at HEAD: CodemodExecutionContext.included_paths, CodemodExecutionContext.files_to_analyze, CodemodExecutionContext.find_and_fix_paths, CodemodExecutionContext.filter_paths
class CodemodExecutionContext:
    @property
    def included_paths(self) -> list[str]:
        return self.path_include or self.registry.default_include_paths

    @cached_property
    def files_to_analyze(self) -> list[Path]:
        return files_for_directory(self.directory)

    @cached_property
    def find_and_fix_paths(self) -> list[Path]:
        return match_files(
            self.directory,
            self.files_to_analyze,
            # None is effectively a sentinel value to indicate that the default include/exclude paths should be used
            self.path_exclude or None,
            self.path_include or None,
        )

    def filter_paths(self, paths: list[Path]) -> list[Path]:
        return match_files(
            self.directory,
            paths,
            self.path_exclude,
            self.included_paths,
        )
