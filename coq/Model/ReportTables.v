(** The model instantiated with the table values extracted from the current source (Generated/Tables.v). *)
From CM Require Export Model.Report.
From CM Require Import Generated.Tables.

Definition the_validators : validators := {| v_line := report_line_validator; v_desc := report_desc_validator |}.
Definition the_tables : tables :=
  {| t_libcst := report_libcst_apply; t_xml := report_xml_apply; t_regex := report_regex_apply; t_fail := report_failure;
     t_val := the_validators |}.
Definition the_rtables : rtables :=
  {| t_pipe := the_tables; t_apply := report_apply_codemods; t_compile := report_compile; t_update := report_update_meta;
     t_build := report_build |}.
