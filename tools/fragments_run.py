# Fragments of the orchestration model (coq/Model/Run.v).  exec'd inside tools/translate.py.
#
# Guard tables: for each transformer pipeline's `apply` the ordered list of guards that are PRESENT in the source
#   TryParse, TryTransform, IfNoChanges, IfNoDiff, IfNotDryWrite
# read structurally (so that removing e.g. `if not context.dry_run:` flips a table value, which flips the
# table-indexed theorems of C04/C10 to their `_refuted` branch), fail-closed on anything else.
# Shapes: apply_codemods, BaseCodemod._apply, _process_file, process_results, process_dependencies (whole-function
# normalised AST compared with tools/shapes/run_*/).
TABLE_IMPORTS.append("From CM Require Import Base.Types_Run.")

_RUN_PROPS = ["C04", "C10", "C09", "C01", "C02", "C07", "C03"]
_GUARD_ORDER = ["TryParse", "TryTransform", "IfNoChanges", "IfNoDiff", "IfNotDryWrite"]


def _calls_in(node):
    out = set()
    for n in ast.walk(node):
        if isinstance(n, ast.Call):
            f = n.func
            if isinstance(f, ast.Attribute):
                out.add(f.attr)
            elif isinstance(f, ast.Name):
                out.add(f.id)
    return out


def _flatten(stmts):
    """`with ...:` blocks (timers, TemporaryFile) are transparent; docstrings and log calls are dropped."""
    out = []
    for s in stmts:
        if _is_docstring(s) or _is_log_call(s):
            continue
        if isinstance(s, ast.With):
            out.extend(_flatten(s.body))
        else:
            out.append(s)
    return out


def _is_return_none(s):
    return isinstance(s, ast.Return) and (s.value is None or (isinstance(s.value, ast.Constant) and s.value.value is None))


def _handler_is_failure(h):
    if h.type is not None and not (isinstance(h.type, ast.Name) and h.type.id in ("Exception", "BaseException")):
        return False
    body = _flatten(h.body)
    return bool(body) and _is_return_none(body[-1]) and any("add_failure" in _calls_in(s) for s in body[:-1])


def _extract_guards(fn, spec, what):
    """spec: parse/transform/write/diff = sets of call names marking the stage; changes = names of the tested value;
    neutral = call names allowed in statements that belong to no stage."""
    if fn is None:
        raise Unrecognised(f"{what}: function not found")
    events = []  # (stage, guarded)

    def stage_of(node):
        c = _calls_in(node)
        st = []
        for stage in ("parse", "transform", "diff", "write"):
            if c & spec[stage]:
                st.append(stage)
        return st, c

    stmts = _flatten(fn.body)
    if not stmts or not isinstance(stmts[-1], ast.Return) or _is_return_none(stmts[-1]):
        raise Unrecognised(f"{what}: does not end with `return <change set>`")
    for s in stmts[:-1]:
        if isinstance(s, ast.Try):
            if s.orelse or s.finalbody or len(s.handlers) != 1 or not _handler_is_failure(s.handlers[0]):
                raise Unrecognised(f"{what}: try block with an unknown handler (expected add_failure; return None)")
            st, _ = stage_of(ast.Module(body=s.body, type_ignores=[]))
            st = [x for x in st if x != "diff"]
            if "write" in st or not st:
                raise Unrecognised(f"{what}: try block around {st or 'nothing known'}")
            for x in st:
                events.append((x, True))
        elif isinstance(s, ast.If):
            if s.orelse or not (isinstance(s.test, ast.UnaryOp) and isinstance(s.test.op, ast.Not)):
                raise Unrecognised(f"{what}: unknown `if` form at line {s.lineno}")
            x = s.test.operand
            body = _flatten(s.body)
            if isinstance(x, ast.NamedExpr) and _calls_in(x.value) & spec["diff"]:
                if not (len(body) == 1 and _is_return_none(body[0])):
                    raise Unrecognised(f"{what}: `if not (diff := ...)` does not just return None")
                events.append(("diff", True))
            elif (isinstance(x, ast.Attribute) and x.attr in spec["changes"]) or (isinstance(x, ast.Name) and x.id in spec["changes"]):
                if not (len(body) == 1 and _is_return_none(body[0])):
                    raise Unrecognised(f"{what}: `if not <changes>` does not just return None")
                events.append(("changes", True))
            elif isinstance(x, ast.Attribute) and x.attr == "dry_run":
                if not body or not all(isinstance(b, ast.Expr) and (_calls_in(b) & spec["write"]) for b in body):
                    raise Unrecognised(f"{what}: `if not dry_run` guards something else than the write")
                events.append(("write", True))
            else:
                raise Unrecognised(f"{what}: unknown `if not ...` test at line {s.lineno}")
        elif isinstance(s, (ast.Assign, ast.AnnAssign, ast.Expr, ast.For)):
            st, c = stage_of(s)
            if isinstance(s, ast.For) and not st:
                raise Unrecognised(f"{what}: a loop outside the known stages at line {s.lineno}")
            if st:
                for x in st:
                    events.append((x, False))
            elif not c <= spec["neutral"]:
                raise Unrecognised(f"{what}: statement at line {s.lineno} calls {sorted(c - spec['neutral'])}")
        else:
            raise Unrecognised(f"{what}: unexpected {type(s).__name__} at line {s.lineno}")
    order = [e[0] for e in events]
    want = [x for x in ("parse", "transform", "changes", "diff", "write") if x in order]
    dedup = [x for i, x in enumerate(order) if x not in order[:i]]
    if dedup != want or order.count("write") != 1 or order.count("transform") != 1 or "parse" not in order:
        raise Unrecognised(f"{what}: stages out of the known order: {events}")
    g = []
    if all(gd for stg, gd in events if stg == "parse"):
        g.append("TryParse")
    if dict(events)["transform"]:
        g.append("TryTransform")
    if ("changes", True) in events:
        g.append("IfNoChanges")
    if ("diff", True) in events:
        g.append("IfNoDiff")
    if ("write", True) in events:
        g.append("IfNotDryWrite")
    return g


def _guards_printer(v):
    return "[" + "; ".join(v) + "]" if v else "([] : list guard)"


_LIBCST_SPEC = dict(parse={"parse_module"}, transform={"transform"}, write={"update_code", "write_bytes", "write_text"},
                    diff={"create_diff_from_tree", "create_diff"}, changes={"codemod_changes"},
                    neutral={"ChangeSet", "str", "relative_to"})
_REGEX_SPEC = dict(parse={"read_bytes", "decode", "splitlines"}, transform={"_apply"}, write={"write_bytes", "write_text"},
                   diff={"create_diff"}, changes={"changes"}, neutral={"ChangeSet", "str", "relative_to"})
# the XML pipeline reads the file twice: SAX inside the try block, then read_bytes().decode("utf-8") for the diff; both belong
# to the parse stage, so TryParse is reported only if BOTH are guarded
_XML_SPEC = dict(parse={"parse", "read_bytes", "decode", "splitlines"}, transform={"xml_transformer"}, write={"write_bytes", "write_text"},
                 diff={"create_diff"}, changes={"changes"},
                 neutral={"ChangeSet", "str", "relative_to", "readlines", "seek"})


def _libcst_guards(tree, repo):
    return _extract_guards(find_def(tree, "LibcstTransformerPipeline.apply"), _LIBCST_SPEC, "LibcstTransformerPipeline.apply")


def _regex_guards(tree, repo):
    return _extract_guards(find_def(tree, "RegexTransformerPipeline.apply"), _REGEX_SPEC, "RegexTransformerPipeline.apply")


def _xml_guards(tree, repo):
    fn = find_def(tree, "XMLTransformerPipeline.apply")
    return _extract_guards(fn, _XML_SPEC, "XMLTransformerPipeline.apply")


custom("libcst_apply_guards", "src/codemodder/codemods/libcst_transformer.py", _RUN_PROPS,
       "libcst_apply_guards", "list guard", _GUARD_ORDER, _libcst_guards, printer=_guards_printer,
       doc="LibcstTransformerPipeline.apply: guards present, in source order")
custom("regex_apply_guards", "src/codemodder/codemods/regex_transformer.py", ["C04", "C10", "C19"],
       "regex_apply_guards", "list guard", ["IfNoChanges", "IfNotDryWrite"], _regex_guards, printer=_guards_printer,
       doc="RegexTransformerPipeline.apply: guards present (no try/except on the pinned tree)")
custom("xml_apply_guards", "src/codemodder/codemods/xml_transformer.py", ["C04", "C10", "C19"],
       "xml_apply_guards", "list guard", ["TryTransform", "IfNoChanges", "IfNotDryWrite"], _xml_guards,
       printer=_guards_printer, doc="XMLTransformerPipeline.apply: guards present (TryParse only if the SAX parse AND the utf-8 re-read are guarded)")


# ---- the four manifest writers: is every file write of add_to_file inside `if not dry_run:` ? -------------------
_WRITERS = [("SReqTxt", "requirements_txt_writer.py", "RequirementsTxtWriter"),
            ("SToml", "pyproject_writer.py", "PyprojectWriter"),
            ("SSetupPy", "setup_py_writer.py", "SetupPyWriter"),
            ("SSetupCfg", "setupcfg_writer.py", "SetupCfgWriter")]


def _is_write_open(call):
    """open(path, "w"...) / path.open("w") / write_text / write_bytes"""
    if not isinstance(call, ast.Call):
        return False
    f = call.func
    name = f.attr if isinstance(f, ast.Attribute) else (f.id if isinstance(f, ast.Name) else "")
    if name in ("write_text", "write_bytes"):
        return True
    if name == "open":
        args = list(call.args) + [k.value for k in call.keywords if k.arg == "mode"]
        return any(isinstance(a, ast.Constant) and isinstance(a.value, str) and ("w" in a.value or "a" in a.value or "+" in a.value)
                   for a in args)
    return False


def _writer_guarded(fn, what):
    if fn is None:
        raise Unrecognised(f"{what}.add_to_file not found")
    if "dry_run" not in [a.arg for a in fn.args.args]:
        raise Unrecognised(f"{what}.add_to_file has no dry_run parameter")
    writes = []

    def walk(node, guarded):
        for child in ast.iter_child_nodes(node):
            g = guarded
            if isinstance(node, ast.If) and child in node.body:
                t = node.test
                if isinstance(t, ast.UnaryOp) and isinstance(t.op, ast.Not) and isinstance(t.operand, ast.Name) and t.operand.id == "dry_run":
                    g = True
            if isinstance(child, ast.Call) and _is_write_open(child):
                writes.append(g)
            walk(child, g)

    walk(fn, False)
    if not writes:
        raise Unrecognised(f"{what}.add_to_file: no file write found")
    return all(writes)


def _writer_guards(tree, repo):
    out = []
    for ctor, fname, cls in _WRITERS:
        f = repo / "src/codemodder/dependency_management" / fname
        try:
            t = ast.parse(f.read_text(encoding="utf-8"))
        except (OSError, SyntaxError) as e:
            raise Unrecognised(f"cannot read {fname}: {e}")
        out.append([ctor, _writer_guarded(find_def(t, f"{cls}.add_to_file"), cls)])
    # DependencyManager.write must hand dry_run to each writer
    dm = find_def(tree, "DependencyManager.write")
    if dm is None:
        raise Unrecognised("DependencyManager.write not found")
    n = 0
    for c in ast.walk(dm):
        if isinstance(c, ast.Call) and isinstance(c.func, ast.Attribute) and c.func.attr == "write":
            if not (len(c.args) == 2 and isinstance(c.args[1], ast.Name) and c.args[1].id == "dry_run"):
                raise Unrecognised("DependencyManager.write: a writer is called without dry_run")
            n += 1
    if n != 4:
        raise Unrecognised(f"DependencyManager.write: {n} writer calls (expected 4)")
    return out


custom("writer_dry_guards", "src/codemodder/dependency_management/dependency_manager.py", ["C04", "C14", "C03"],
       "writer_dry_guards", "list (skind * bool)",
       [[k, True] for k, _, _ in _WRITERS], _writer_guards,
       printer=lambda v: "[" + "; ".join(f"({k}, {'true' if b else 'false'})" for k, b in v) + "]",
       doc="the four *Writer.add_to_file: every file write is inside `if not dry_run:`")


def _writer_catches(fn, what):
    """is every file write of add_to_file inside a `try:` whose handler swallows the exception and returns None?"""
    if fn is None:
        raise Unrecognised(f"{what}.add_to_file not found")
    res = []

    def walk(node, caught):
        for child in ast.iter_child_nodes(node):
            c = caught
            if isinstance(node, ast.Try) and child in node.body:
                c = any((h.type is None or (isinstance(h.type, ast.Name) and h.type.id in ("Exception", "BaseException", "OSError", "IOError")))
                        and h.body and _is_return_none(_flatten(h.body)[-1]) for h in node.handlers)
            if isinstance(child, ast.Call) and _is_write_open(child):
                res.append(c)
            walk(child, c)

    walk(fn, False)
    if not res:
        raise Unrecognised(f"{what}.add_to_file: no file write found")
    return all(res)


def _writer_catch_table(tree, repo):
    out = []
    for ctor, fname, cls in _WRITERS:
        t = ast.parse((repo / "src/codemodder/dependency_management" / fname).read_text(encoding="utf-8"))
        out.append([ctor, _writer_catches(find_def(t, f"{cls}.add_to_file"), cls)])
    return out


custom("writer_catch_table", "src/codemodder/dependency_management/dependency_manager.py", ["C04", "C14", "C03"],
       "writer_catch_table", "list (skind * bool)",
       [["SReqTxt", True], ["SToml", False], ["SSetupPy", False], ["SSetupCfg", True]], _writer_catch_table,
       printer=lambda v: "[" + "; ".join(f"({k}, {'true' if b else 'false'})" for k, b in v) + "]",
       doc="the four *Writer.add_to_file: the file write sits in a try block that swallows the error and returns None")

# ---- whole-function shapes -----------------------------------------------------------------------------------------
shape("run_apply_codemods", "src/codemodder/codemodder.py", ["C09", "C10", "C04", "C15"],
      "apply_codemods_shape", "apply_codemods_form", "SequentialApplyThenDeps", ["apply_codemods"],
      doc="apply_codemods: sequential loop apply -> process_dependencies per codemod")
shape("run_apply", "src/codemodder/codemods/base_codemod.py", ["C09", "C10", "C04"],
      "apply_shape", "apply_form", "MapAllThenMergeInOrder", ["BaseCodemod._apply", "BaseCodemod.apply"],
      doc="BaseCodemod._apply (both ThreadPoolExecutor argument forms; the argument itself is C11's)")
shape("run_process_file", "src/codemodder/codemods/base_codemod.py", ["C09", "C10", "C04"],
      "process_file_shape", "process_file_form", "ShortCircuitThenPipeline", ["BaseCodemod._process_file"],
      doc="BaseCodemod._process_file (forms before/after fix 18b42d9)")
shape("run_process_results", "src/codemodder/context.py", ["C09", "C10", "C04", "C15"],
      "process_results_shape", "process_results_form", "MergeFourAggregatesById",
      ["CodemodExecutionContext.process_results", "CodemodExecutionContext.add_changesets",
       "CodemodExecutionContext.add_failures", "CodemodExecutionContext.add_dependencies",
       "CodemodExecutionContext.add_unfixed_findings"],
      doc="process_results and the four add_* aggregators keyed by codemod id")
shape("run_process_dependencies", "src/codemodder/context.py", ["C09", "C04", "C14"],
      "process_deps_shape", "process_deps_form", "FirstStoreWinsBreak", ["CodemodExecutionContext.process_dependencies", "CodemodExecutionContext._writable_package_stores"],
      doc="process_dependencies: first store that yields a change set wins")
shape("run_add_failure", "src/codemodder/file_context.py", ["C10", "C15"],
      "add_failure_shape", "add_failure_form", "AllFindingsUnfixedLine0",
      ["FileContext.add_failure", "FileContext.add_unfixed_findings", "FileContext.get_all_findings"],
      doc="FileContext.add_failure marks every finding unfixed with line 0")


shape("run_find_semgrep_results", "src/codemodder/codemodder.py", ["C09"],
      "find_semgrep_results_shape", "find_semgrep_form", "OneRunAllRules", ["find_semgrep_results"],
      doc="find_semgrep_results: one semgrep run with the rules of every semgrep-detected codemod of the run")
shape("run_semgrep_detector", "src/codemodder/context.py", ["C09", "C10"],
      "semgrep_scope_shape", "semgrep_scope_form", "PrefilterFilesOrDirectory", ["CodemodExecutionContext.semgrep_results_for_rule"],
      doc="semgrep_results_for_rule: the prefilter's files for the rule (pinned form; form that drops vanished files), [] when there is no prefilter")
shape("run_semgrep_detector_apply", "src/codemodder/codemods/semgrep.py", ["C09", "C10"],
      "semgrep_detector_shape", "semgrep_detector_form", "ScanPrefilterFiles", ["SemgrepRuleDetector.apply"],
      doc="SemgrepRuleDetector.apply: semgrep over semgrep_results_for_rule(id) (or the directory)")


def _prefilter_form(tree, repo):
    """codemodder.run: `context.semgrep_prefilter_results = find_semgrep_results(...)` exactly once, before the single
    call of apply_codemods; nothing else assigns it in run / apply_codemods / base_codemod._apply."""
    run = find_def(tree, "run")
    if run is None:
        raise Unrecognised("codemodder.run not found")
    assigns, calls = [], []
    for i, s in enumerate(run.body):
        for n in ast.walk(s):
            if isinstance(n, ast.Assign) and any(isinstance(t, ast.Attribute) and t.attr == "semgrep_prefilter_results" for t in n.targets):
                if not (isinstance(n.value, ast.Call) and isinstance(n.value.func, ast.Name) and n.value.func.id == "find_semgrep_results"):
                    raise Unrecognised("semgrep_prefilter_results assigned from something else than find_semgrep_results")
                assigns.append(i)
            if isinstance(n, ast.Call) and isinstance(n.func, ast.Name) and n.func.id == "apply_codemods":
                calls.append(i)
    if len(assigns) != 1 or len(calls) != 1 or not assigns[0] < calls[0]:
        raise Unrecognised(f"prefilter assignment/apply_codemods call sites: {assigns}/{calls}")
    for other, qn in (("src/codemodder/codemods/base_codemod.py", "BaseCodemod._apply"), ("src/codemodder/codemodder.py", "apply_codemods")):
        t = ast.parse((repo / other).read_text(encoding="utf-8"))
        d = find_def(t, qn)
        if d is None:
            raise Unrecognised(f"{qn} not found")
        for n in ast.walk(d):
            if isinstance(n, (ast.Assign, ast.AugAssign)):
                tg = n.targets if isinstance(n, ast.Assign) else [n.target]
                if any(isinstance(x, ast.Attribute) and x.attr == "semgrep_prefilter_results" for x in tg):
                    raise Unrecognised(f"{qn} reassigns semgrep_prefilter_results (refreshed prefilter: not a modelled form)")
    return "OnceBeforeAnyRewrite"


custom("run_prefilter", "src/codemodder/codemodder.py", ["C09"],
       "prefilter_shape", "prefilter_form", "OnceBeforeAnyRewrite", _prefilter_form,
       doc="the semgrep prefilter is computed once, before any rewrite")


# ---- every write-capable call of the runtime sources is one of the modelled writers (REVIEW_A 14) ------------------------------
# Model/Run.v has exactly two kinds of writes under the target: a pipeline's write of the transformed file and a manifest writer's
# write.  This fragment scans src/codemodder (without codemods/test and scripts) and src/core_codemods for calls that can create,
# modify or delete a file and fails closed when the set differs from the known sites below.
_WRITE_SITES = {
    ("src/codemodder/codemods/libcst_transformer.py", "update_code", ".write_bytes"),                     # pipeline write (libcst)
    ("src/codemodder/codemods/regex_transformer.py", "RegexTransformerPipeline.apply", ".write_bytes"),   # pipeline write (regex)
    ("src/codemodder/codemods/xml_transformer.py", "XMLTransformerPipeline.apply", ".write_bytes"),       # pipeline write (xml)
    ("src/codemodder/codemods/xml_transformer.py", "XMLTransformerPipeline.apply", "TemporaryFile"),      # scratch buffer, outside the target
    ("src/codemodder/dependency_management/pyproject_writer.py", "PyprojectWriter.add_to_file", "open(w)"),
    ("src/codemodder/dependency_management/requirements_txt_writer.py", "RequirementsTxtWriter.add_to_file", "open(w)"),
    ("src/codemodder/dependency_management/requirements_txt_writer.py", "RequirementsTxtWriter.add_to_file", ".writelines"),
    ("src/codemodder/dependency_management/setup_py_writer.py", "SetupPyWriter.add_to_file", "open(w)"),
    ("src/codemodder/dependency_management/setupcfg_writer.py", "SetupCfgWriter.add_to_file", "open(w)"),
    ("src/codemodder/dependency_management/setupcfg_writer.py", "SetupCfgWriter.add_to_file", ".writelines"),
    ("src/codemodder/codetf.py", "CodeTF.write_report", "open(w)"),                                       # the report (--output), C20's
    ("src/codemodder/codemods/semgrep.py", "_create_temp_yaml_file", "tempfile.mkstemp"),                 # rule file in the temp dir
    ("src/codemodder/codemods/semgrep.py", "_create_temp_yaml_file", "os.fdopen"),
    ("src/codemodder/semgrep.py", "run", "NamedTemporaryFile"),                                           # semgrep's SARIF output, temp dir
    ("src/codemodder/semgrep.py", "run", "subprocess.run"),                                               # the semgrep scan (read-only on the target)
}
_W_ATTRS = {"write_text", "write_bytes", "unlink", "rename", "rmdir", "mkdir", "touch", "symlink_to", "hardlink_to", "chmod", "writelines", "truncate"}
_W_MODS = {"os": {"remove", "unlink", "rename", "replace", "rmdir", "mkdir", "makedirs", "symlink", "link", "chmod", "truncate", "open", "fdopen", "system", "popen"},
           "shutil": None, "tempfile": None, "subprocess": {"run", "call", "check_call", "check_output", "Popen"}}
_W_NAMES = {"mkstemp", "NamedTemporaryFile", "TemporaryFile", "mkdtemp", "rmtree", "copy", "copyfile", "move", "copytree"}


def _mode_writes(call, skip_first):
    args = list(call.args[(1 if skip_first else 0):(2 if skip_first else 1)]) + [k.value for k in call.keywords if k.arg == "mode"]
    return any(isinstance(a, ast.Constant) and isinstance(a.value, str) and any(c in a.value for c in "wax+") for a in args)


def _write_calls(tree):
    out = []

    def walk(node, qual):
        for ch in ast.iter_child_nodes(node):
            q = qual
            if isinstance(ch, (ast.FunctionDef, ast.AsyncFunctionDef, ast.ClassDef)):
                q = (qual + "." + ch.name) if qual else ch.name
            if isinstance(ch, ast.Call):
                fn, name = ch.func, None
                if isinstance(fn, ast.Name):
                    if fn.id == "open" and _mode_writes(ch, True):
                        name = "open(w)"
                    elif fn.id in _W_NAMES:
                        name = fn.id
                elif isinstance(fn, ast.Attribute):
                    if fn.attr == "open" and _mode_writes(ch, False):
                        name = ".open(w)"
                    elif fn.attr in _W_ATTRS:
                        name = "." + fn.attr
                    elif fn.attr == "replace" and len(ch.args) == 1 and not ch.keywords:      # Path.replace(target); str.replace has two arguments
                        name = ".replace"
                    if isinstance(fn.value, ast.Name) and fn.value.id in _W_MODS and (_W_MODS[fn.value.id] is None or fn.attr in _W_MODS[fn.value.id]):
                        name = fn.value.id + "." + fn.attr
                if name:
                    out.append((qual or "<module>", name))
            walk(ch, q)

    walk(tree, "")
    return out


def _write_sites(tree, repo):
    found = set()
    for base in ("src/codemodder", "src/core_codemods"):
        for f in sorted((repo / base).rglob("*.py")):
            rel = f.relative_to(repo)
            if "test" in rel.parts or "scripts" in rel.parts or "docs" in rel.parts:
                continue
            try:
                t = ast.parse(f.read_text(encoding="utf-8"))
            except (OSError, SyntaxError) as e:
                raise Unrecognised(f"cannot parse {rel}: {e}")
            for qual, name in _write_calls(t):
                found.add((str(rel), qual, name))
    extra, missing = sorted(found - _WRITE_SITES), sorted(_WRITE_SITES - found)
    if extra or missing:
        raise Unrecognised(f"write-capable calls differ from the modelled writers: new {extra}; gone {missing}")
    return "OnlyKnownWriteSites"


custom("run_write_sites", "src/codemodder/codemods/libcst_transformer.py", ["C04", "C05", "C10", "C03"],
       "write_sites_shape", "write_sites_form", "OnlyKnownWriteSites", _write_sites,
       doc="every call that can create/modify/delete a file in src/codemodder + src/core_codemods is a modelled writer (or a temp-dir/report write)")

custom("run_tables_v", "src/codemodder/codemods/libcst_transformer.py", _RUN_PROPS,
       "run_tables_v", "run_tables", "tables", lambda tree, repo: "tables",
       printer=lambda v: "{| t_libcst := libcst_apply_guards; t_regex := regex_apply_guards; "
                         "t_xml := xml_apply_guards; t_writers := writer_dry_guards; t_diff := diff_source |}",
       doc="the orchestration tables bundled for Model/Run.v")
