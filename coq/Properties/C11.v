(** C11 — results do not depend on scheduling, worker count, hash seed or sibling files; no more than
    --max-workers files are processed at the same time.

    Full statement: for all projects D, codemod selections, worker counts w >= 1, per-file delay schedules s, hash
    seeds h and file creation orders o: normalise(run(D; w, s, h, o)) is constant; run(D)|f = run({f})|f for
    sibling-independent codemods; max in-flight files <= w.

    What is proved here, for the model of Model/Sched.v (one codemod over its file list; the whole run is the
    sequential composition of such steps, apply_codemods):
    - C11_schedule_free / C11_schedule_free_spec: EVERY interleaving of the per-file tasks [Read i; Compute i; Write i]
      (any number of threads, any scheduler, any completion order) over distinct files ends with the same file system
      (pointwise [lookup]) and the same merged aggregates as the sequential run, and touches no path outside the list.
      Assumption carried by the model, read off the source by the translator (sched_task_local, sched_results_in_order):
      a task touches only its own file and its own FileContext; the run context is updated after the pool is drained.
    - C11_merge_in_input_order (indexed by sched_collect): the aggregates are the per-file results in INPUT order.
    - C11_sibling_free: with a detector that looks at one file at a time, outcome and final text of f in D equal
      those in the project {f}.
    - C11_inflight (indexed by pool_size_arg): in-flight <= w after every prefix of every admissible pool trace;
      refuted for ThreadPoolExecutor() (w = 2, 12 files in flight).  The admission rule is the contract of
      concurrent.futures.ThreadPoolExecutor (oracle; measured by the harness).
    - C11_registry_order (indexed by entry_point_iteration): the order in which codemods run and are reported in the
      default / SAST selection is a function of the entry-point sequence only; refuted for iteration over a set.
    - C11_enumeration_free (indexed by sched_paths_order): the task order is the same for every enumeration order
      of the same set of matched paths and every hash seed; refuted for the iteration order of a set of str.
    Not modelled (observed by the harness only): preemption inside libcst, the GIL, the file system's own
    atomicity, Python's set iteration order as a function of PYTHONHASHSEED (any key function [h] stands for it). *)
From CM Require Import Base.Dict Model.Sched Spec.SchedSpec Proofs.SchedFacts Generated.Tables.
From Coq Require Import Permutation.

(* ---------------------------------------------------------------------------------------------- *)
Theorem C11_schedule_free :
  forall (T : transformer) (fnd : path -> findings) (files : list path) (fs0 : fsys) (tr : list ev),
    List.NoDup files -> interleaving (tasks (length files)) tr ->
    let st := exec files T fnd fs0 tr in
    let sq := exec files T fnd fs0 (sequential (length files)) in
    (forall p, lookup (st_fs st) p = lookup (st_fs sq) p) /\
    merged MapInputOrder (length files) tr st = merged MapInputOrder (length files) (sequential (length files)) sq /\
    (forall p, ~ In p files -> lookup (st_fs st) p = lookup fs0 p).
Proof. exact schedule_free. Qed.
Print Assumptions C11_schedule_free.

(** The same, against the schedule-free specification: each file holds what its own pipeline makes of its ORIGINAL text. *)
Theorem C11_schedule_free_spec :
  forall (T : transformer) (fnd : path -> findings) (files : list path) (fs0 : fsys) (tr : list ev),
    List.NoDup files -> interleaving (tasks (length files)) tr ->
    (forall p, lookup (st_fs (exec files T fnd fs0 tr)) p = spec_fs files T fnd fs0 p) /\
    merged MapInputOrder (length files) tr (exec files T fnd fs0 tr) = spec_merged files T fnd fs0.
Proof. exact exec_spec. Qed.
Print Assumptions C11_schedule_free_spec.

(** The sequential run is one of the interleavings (the quantification above is not empty). *)
Theorem C11_sequential_is_a_schedule : forall n, interleaving (tasks n) (sequential n).
Proof. exact sequential_interleaving. Qed.
Print Assumptions C11_sequential_is_a_schedule.

(* ---------------------------------------------------------------------------------------------- *)
(** witnesses *)
Definition w_a : str := [97]%N.
Definition w_b : str := [98]%N.
Definition w_T : transformer :=
  fun p _ c => (match c with Some t => Some (t ++ [33]%N) | None => None end,
                {| r_changesets := [p]; r_failures := []; r_deps := []; r_unfixed := [] |}).
Definition w_fnd : path -> findings := fun _ => [].
Definition w_fs : fsys := [(w_a, [120]%N); (w_b, [121]%N); ([99]%N, [122]%N)].
Definition w_reversed : list ev := [Read 1; Compute 1; Write 1; Read 0; Compute 0; Write 0].
Definition w_overlapped : list ev := [Read 1; Read 0; Compute 0; Compute 1; Write 1; Write 0].

Definition C11_merge_statement (v : collect_form) : Prop :=
  match v with
  | MapInputOrder =>
      forall (T : transformer) (fnd : path -> findings) (files : list path) (fs0 : fsys) (tr : list ev),
        List.NoDup files -> interleaving (tasks (length files)) tr ->
        merged v (length files) tr (exec files T fnd fs0 tr) = spec_merged files T fnd fs0
  | CompletionOrder =>
      exists (T : transformer) (fnd : path -> findings) (files : list path) (fs0 : fsys) (tr1 tr2 : list ev),
        List.NoDup files /\ interleaving (tasks (length files)) tr1 /\ interleaving (tasks (length files)) tr2 /\
        merged v (length files) tr1 (exec files T fnd fs0 tr1) <> merged v (length files) tr2 (exec files T fnd fs0 tr2)
  end.
Lemma C11_merge_all v : C11_merge_statement v.
Proof.
  destruct v; simpl.
  - intros. now apply exec_spec.
  - exists w_T, w_fnd, [w_a; w_b], w_fs, (sequential 2), w_reversed.
    split; [|split; [|split]].
    + repeat constructor; simpl; intuition discriminate.
    + apply sequential_interleaving.
    + apply check_il_sound. vm_compute. reflexivity.
    + vm_compute. discriminate.
Qed.
Theorem C11_merge_in_input_order : C11_merge_statement sched_collect.
Proof. exact (C11_merge_all sched_collect). Qed.
Print Assumptions C11_merge_in_input_order.

(* ---------------------------------------------------------------------------------------------- *)
Theorem C11_sibling_free :
  forall (T : transformer) (D : detector) (files : list path) (fs0 : fsys) (f : path) (i : nat) (tr tr1 : list ev),
    List.NoDup files -> nth_error files i = Some f -> sibling_independent D ->
    interleaving (tasks (length files)) tr -> interleaving (tasks 1) tr1 ->
    let st := run_codemod files T D fs0 tr in
    let st1 := run_codemod [f] T D (only_file fs0 f) tr1 in
    lookup (st_fs st) f = lookup (st_fs st1) f /\ res_of st i = res_of st1 0.
Proof. exact sibling_free. Qed.
Print Assumptions C11_sibling_free.

(* ---------------------------------------------------------------------------------------------- *)
Definition C11_inflight_statement (a : option pool_arg) : Prop :=
  match a with
  | Some MaxWorkersArg =>
      forall (w cpu : N) (pre post : list pev),
        admissible (pool_bound a w cpu) [] [] (pre ++ post) = true ->
        (N.of_nat (inflight pre) <= w)%N /\ (N.of_nat (max_inflight (pre ++ post)) <= w)%N
  | None =>
      exists (w cpu : N) (pre post : list pev),
        admissible (pool_bound a w cpu) [] [] (pre ++ post) = true /\ (w < N.of_nat (inflight pre))%N
  end.
Lemma C11_inflight_all a : C11_inflight_statement a.
Proof.
  destruct a as [[]|]; simpl.
  - intros w cpu pre post H. split; [eapply inflight_le; eauto | now apply max_inflight_le].
  - exists 2%N, 16%N, (map Start (seq 0 12)), (map Finish (seq 0 12)). split; vm_compute; reflexivity.
Qed.
Theorem C11_inflight : C11_inflight_statement pool_size_arg.
Proof. exact (C11_inflight_all pool_size_arg). Qed.
Print Assumptions C11_inflight.

(* ---------------------------------------------------------------------------------------------- *)
Definition w_eps : list entry_point :=
  [(0%N, [([115; 111; 110; 97; 114; 58; 97]%N, false)]); (1%N, [([115; 101; 109; 103; 114; 101; 112; 58; 98]%N, false)]);
   (2%N, [([112; 105; 120; 101; 101; 58; 99]%N, true)])].

Definition C11_registry_statement (v : iter_form) : Prop :=
  match v with
  | Deterministic =>
      forall (h h' : N -> N) (eps : list entry_point) (excluded : list str) (sast_only : bool),
        run_order v h eps excluded sast_only = run_order v h' eps excluded sast_only /\
        run_order v h eps excluded sast_only = spec_run_order eps excluded sast_only
  | OverSet =>
      exists (h h' : N -> N) (eps : list entry_point) (excluded : list str) (sast_only : bool),
        run_order v h eps excluded sast_only <> run_order v h' eps excluded sast_only
  end.
Lemma C11_registry_all v : C11_registry_statement v.
Proof.
  destruct v; simpl.
  - exists (fun n => n), (fun n => (10 - n)%N), w_eps, [], true. vm_compute. discriminate.
  - intros. split; reflexivity.
Qed.
Theorem C11_registry_order : C11_registry_statement entry_point_iteration.
Proof. exact (C11_registry_all entry_point_iteration). Qed.
Print Assumptions C11_registry_order.

(* ---------------------------------------------------------------------------------------------- *)
Definition C11_enumeration_statement (v : order_form) : Prop :=
  match v with
  | SortedPaths => forall (h h' : str -> N) l l', Permutation l l' -> match_order v h l = match_order v h' l'
  | SetOrder => exists (h h' : str -> N) l, match_order v h l <> match_order v h' l
  end.
Lemma C11_enumeration_all v : C11_enumeration_statement v.
Proof.
  destruct v; simpl.
  - intros h h' l l' HP. now apply sort_paths_perm_eq.
  - exists (fun s => hd 0%N s), (fun s => (200 - hd 0 s)%N), [w_a; w_b]. vm_compute. discriminate.
Qed.
Theorem C11_enumeration_free : C11_enumeration_statement sched_paths_order.
Proof. exact (C11_enumeration_all sched_paths_order). Qed.
Print Assumptions C11_enumeration_free.

(* ---------------------------------------------------------------------------------------------- *)
(** Non-vacuity: a non-sequential schedule of two rewriting tasks meets the hypotheses, and the result is computed. *)
Example C11_schedule_free_example :
  List.NoDup [w_a; w_b] /\ interleaving (tasks 2) w_overlapped /\
  lookup (st_fs (exec [w_a; w_b] w_T w_fnd w_fs w_overlapped)) w_a = Some [120; 33]%N /\
  lookup (st_fs (exec [w_a; w_b] w_T w_fnd w_fs w_overlapped)) w_b = Some [121; 33]%N /\
  lookup (st_fs (exec [w_a; w_b] w_T w_fnd w_fs w_overlapped)) [99]%N = Some [122]%N /\
  r_changesets (merged MapInputOrder 2 w_overlapped (exec [w_a; w_b] w_T w_fnd w_fs w_overlapped)) = [w_a; w_b].
Proof.
  split; [repeat constructor; simpl; intuition discriminate|].
  split; [apply check_il_sound; vm_compute; reflexivity|].
  vm_compute. repeat split; reflexivity.
Qed.

(** an admissible pool trace under bound 2 that reaches 2 in flight; a sibling-independent detector *)
Example C11_inflight_example :
  admissible (pool_bound (Some MaxWorkersArg) 2 16) [] [] ([Start 0; Start 1] ++ [Finish 0; Start 2; Finish 2; Finish 1]) = true /\
  inflight [Start 0; Start 1] = 2.
Proof. split; vm_compute; reflexivity. Qed.

Example C11_sibling_example :
  sibling_independent (fun fs p => match lookup fs p with Some c => c | None => [] end).
Proof. intros fs fs' p H. now rewrite H. Qed.
