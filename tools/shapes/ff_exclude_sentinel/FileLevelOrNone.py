# src/codemodder/context.py (proposed_fixes/line-only-exclude-keeps-defaults.diff): CodemodExecutionContext.find_and_fix_paths
class CodemodExecutionContext:
    @cached_property
    def find_and_fix_paths(self) -> list[Path]:
        # A `path:line` pattern never excludes a whole file, so only file-level
        # patterns replace the default excludes
        file_level_excludes = [pat for pat in self.path_exclude if ":" not in pat]
        return match_files(
            self.directory,
            self.files_to_analyze,
            # None is effectively a sentinel value to indicate that the default include/exclude paths should be used
            file_level_excludes or None,
            self.path_include or None,
        )
