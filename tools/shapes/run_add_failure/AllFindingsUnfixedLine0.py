# src/codemodder/file_context.py @ HEAD
class FileContext:
    def add_failure(self, filename: Path, reason: str):
        self.failures.append(filename)
        self.add_unfixed_findings(self.get_all_findings(), reason, 0)

    def add_unfixed_findings(
        self, findings: list[Finding], reason: str, line_number: int | None = None
    ):
        self.unfixed_findings.extend(
            [
                finding.to_unfixed_finding(
                    path=str(self.file_path.relative_to(self.base_directory)),
                    line_number=line_number,
                    reason=reason,
                )
                for finding in findings
            ]
        )

    def get_all_findings(self):
        return [
            result.finding
            for result in (self.results or [])
            if result.finding is not None
        ]
