(** Whole-tree facts about the rewrite kernels (every site, nested ones included), so that the run-level lifting theorems can
    be instantiated with them (Proofs/LiftKernels.v):
      - names:  names (rw e) ⊆ names e ∪ B        (B = the builtin names the kernel may introduce)
      - syntax: wfc e -> wfc (rw e), where [wfc] = [wf] + "operands of comparisons and of // are atoms or carry their own
                parentheses" (what a parser yields for those positions; without it `2 // x == []` would be a well-formed
                TEXT that is not the tree it is printed from)
    proved once for the two traversal combinators ([td], [bu]) from a hypothesis about the node function, then instantiated. *)
From CM Require Import Model.MiniPy Model.PySem Model.Rewrites Spec.RewritesSpec Proofs.PySemFacts Proofs.RewriteFacts Proofs.LiftKernels.

Lemma td_unfold f e : td f e = match f e with Some e' => e' | None => rebuild (td f) e end.
Proof. destruct e; cbn [td rebuild]; destruct (f _); reflexivity. Qed.

(** * names *)
Lemma In_remove_str y s l : List.In y (remove_str s l) <-> List.In y l /\ y <> s.
Proof.
  induction l as [|a t IH]; cbn; [tauto|]. destruct (str_eqb_spec s a) as [->|Hne].
  - rewrite IH. split; [tauto|]. intros [[<-|H] Hn]; [congruence|tauto].
  - cbn. rewrite IH. split.
    + intros [<-|[H Hn]]; [split; [tauto|congruence]|tauto].
    + intros [[<-|H] Hn]; tauto.
Qed.
Definition is_name (e : expr) : bool := match e with EName _ => true | _ => false end.

Section Names.
  Variable B : list str.
  (** [a] (new) uses no name beyond those of [b] (old) and [B]; a name stays the same name, and no non-name becomes one
      (the text of [EJuxt n (EName x)] is itself a name) *)
  Definition Rn (a b : expr) : Prop :=
    incl_str (names a) (names b ++ B) /\ (is_name a = true \/ is_name b = true -> a = b).
  Lemma Rn_refl e : Rn e e.
  Proof. split; [intros y Hy; apply in_or_app; left; exact Hy|reflexivity]. Qed.
  Lemma Rn_trans a b c : Rn a b -> Rn b c -> Rn a c.
  Proof.
    intros [I1 N1] [I2 N2]. split.
    - intros y Hy. apply I1 in Hy. apply in_app_or in Hy as [Hy|Hy]; [apply I2, Hy|apply in_or_app; right; exact Hy].
    - intros [Ha|Hc].
      + pose proof (N1 (or_introl Ha)) as E. subst b. apply N2. left. exact Ha.
      + pose proof (N2 (or_intror Hc)) as E. subst c. apply N1. right. exact Hc.
  Qed.
  Lemma nms_fix es :
    (fix nms (es : list expr) : list str := match es with [] => [] | a :: t => names a ++ nms t end) es = flat_map names es.
  Proof. induction es as [|a t IH]; cbn; [reflexivity|]. rewrite IH. reflexivity. Qed.
  Lemma nms_cmp_fix rest :
    (fix go (rs : list (cmpop * expr)) : list str := match rs with [] => [] | (_, b) :: t => names b ++ go t end) rest
    = flat_map (fun cb => names (snd cb)) rest.
  Proof. induction rest as [|[c b] t IH]; cbn; [reflexivity|]. rewrite IH. reflexivity. Qed.
  Lemma incl_flat_map g es :
    Forall (fun c => Rn (g c) c) es -> incl_str (flat_map names (map g es)) (flat_map names es ++ B).
  Proof.
    induction 1 as [|a t [Ha _] _ IH]; cbn; [intros y []|]. intros y Hy. apply in_app_or in Hy as [Hy|Hy].
    - apply Ha in Hy. apply in_app_or in Hy as [Hy|Hy]; apply in_or_app; [left; apply in_or_app; left; exact Hy|right; exact Hy].
    - apply IH in Hy. apply in_app_or in Hy as [Hy|Hy]; apply in_or_app; [left; apply in_or_app; right; exact Hy|right; exact Hy].
  Qed.
  Lemma incl_flat_map_cmp g (rest : list (cmpop * expr)) :
    Forall (fun cb => Rn (g (snd cb)) (snd cb)) rest ->
    incl_str (flat_map (fun cb => names (snd cb)) (map (fun cb => (fst cb, g (snd cb))) rest)) (flat_map (fun cb => names (snd cb)) rest ++ B).
  Proof.
    induction 1 as [|[c b] t [Ha _] _ IH]; cbn; [intros y []|]. cbn in Ha. intros y Hy. apply in_app_or in Hy as [Hy|Hy].
    - apply Ha in Hy. apply in_app_or in Hy as [Hy|Hy]; apply in_or_app; [left; apply in_or_app; left; exact Hy|right; exact Hy].
    - apply IH in Hy. apply in_app_or in Hy as [Hy|Hy]; apply in_or_app; [left; apply in_or_app; right; exact Hy|right; exact Hy].
  Qed.
  Ltac split_in := repeat match goal with
    | H : List.In _ (_ ++ _) |- _ => apply in_app_or in H as [H|H]
    end.
  Ltac solve_in := repeat (first [assumption | apply in_or_app; (left; solve_in) || (right; solve_in) | left; reflexivity | right]).

  (** a node rebuilt from children that satisfy [Rn] *)
  Lemma rebuild_Rn g e :
    Forall (fun c => Rn (g c) c) (children e) -> Rn (rebuild g e) e.
  Proof.
    intros HF. split; [|destruct e; cbn; intros [H|H]; try discriminate H; reflexivity].
    destruct e; cbn [rebuild children names] in *; rewrite ?nms_fix, ?nms_cmp_fix;
      try (intros y Hy; apply in_or_app; left; exact Hy).
    - apply incl_flat_map, HF.
    - apply incl_flat_map, HF.
    - apply incl_flat_map, HF.
    - intros y [<-|Hy]; [apply in_or_app; left; left; reflexivity|].
      apply (incl_flat_map g args HF) in Hy. apply in_app_or in Hy as [Hy|Hy]; apply in_or_app; [left; right; exact Hy|right; exact Hy].
    - intros y [<-|Hy]; [apply in_or_app; left; left; reflexivity|].
      apply (incl_flat_map g args HF) in Hy. apply in_app_or in Hy as [Hy|Hy]; apply in_or_app; [left; right; exact Hy|right; exact Hy].
    - inversion HF as [|? ? [H1 _] HF']; subst. inversion HF' as [|? ? [H2 _] _]; subst.
      intros y Hy. apply in_app_or in Hy as [Hy|Hy]; [apply H1 in Hy|apply H2 in Hy]; apply in_app_or in Hy as [Hy|Hy];
        apply in_or_app; solve [left; apply in_or_app; tauto | right; exact Hy].
    - inversion HF as [|? ? [H1 _] _]; subst. exact H1.
    - inversion HF as [|? ? [H1 _] HF']; subst.
      assert (HR : Forall (fun cb => Rn (g (snd cb)) (snd cb)) rest).
      { clear -HF'. induction rest as [|[c b] t IH]; constructor; inversion HF'; subst; [assumption|apply IH; assumption]. }
      intros y Hy. apply in_app_or in Hy as [Hy|Hy].
      + apply H1 in Hy. apply in_app_or in Hy as [Hy|Hy]; apply in_or_app; [left; apply in_or_app; left; exact Hy|right; exact Hy].
      + apply (incl_flat_map_cmp g rest HR) in Hy. apply in_app_or in Hy as [Hy|Hy]; apply in_or_app; [left; apply in_or_app; right; exact Hy|right; exact Hy].
    - (* EListComp *) inversion HF as [|? ? [H1 _] HF']; subst. inversion HF' as [|? ? [H2 _] _]; subst.
      intros y Hy. apply in_app_or in Hy as [Hy|Hy].
      + apply H2 in Hy. apply in_app_or in Hy as [Hy|Hy]; apply in_or_app; [left; apply in_or_app; left; exact Hy|right; exact Hy].
      + apply In_remove_str in Hy as [Hy Hn]. apply H1 in Hy. apply in_app_or in Hy as [Hy|Hy]; apply in_or_app;
          [left; apply in_or_app; right; apply In_remove_str; split; assumption|right; exact Hy].
    - (* EGen *) inversion HF as [|? ? [H1 _] HF']; subst. inversion HF' as [|? ? [H2 _] _]; subst.
      intros y Hy. apply in_app_or in Hy as [Hy|Hy].
      + apply H2 in Hy. apply in_app_or in Hy as [Hy|Hy]; apply in_or_app; [left; apply in_or_app; left; exact Hy|right; exact Hy].
      + apply In_remove_str in Hy as [Hy Hn]. apply H1 in Hy. apply in_app_or in Hy as [Hy|Hy]; apply in_or_app;
          [left; apply in_or_app; right; apply In_remove_str; split; assumption|right; exact Hy].
    - inversion HF as [|? ? [H1 _] HF']; subst. inversion HF' as [|? ? [H2 _] _]; subst.
      intros y Hy. apply in_app_or in Hy as [Hy|Hy]; [apply H1 in Hy|apply H2 in Hy]; apply in_app_or in Hy as [Hy|Hy];
        apply in_or_app; solve [left; apply in_or_app; tauto | right; exact Hy].
    - (* EJuxt *) inversion HF as [|? ? [H1 N1] _]; subst.
      destruct (is_name (g e) || is_name e) eqn:E.
      + apply orb_true_iff in E. rewrite (N1 E). intros y Hy. apply in_or_app. left. exact Hy.
      + apply orb_false_iff in E as [E1 E2].
        destruct (g e) eqn:G; try discriminate E1; destruct e; try discriminate E2; exact H1.
  Qed.

  Lemma children_Forall (P : expr -> Prop) e :
    (match e with
     | ETuple es | EList es | ESet es => Forall P es
     | EMeth _ _ args | ECall _ args => Forall P args
     | EBool _ _ l r | EFloorDiv l r => P l /\ P r
     | ENot _ a | EJuxt _ a => P a
     | ECmp _ l rest => P l /\ Forall (fun cb => P (snd cb)) rest
     | EListComp elt _ it | EGen _ elt _ it => P elt /\ P it
     | _ => True
     end) -> Forall P (children e).
  Proof.
    destruct e; cbn [children]; intros H; try exact H; try (apply Forall_nil);
      try (destruct H as [H1 H2]); try (repeat (apply Forall_cons; [assumption|]); apply Forall_nil).
    apply Forall_cons; [exact H1|]. induction H2 as [|cb t Hc _ IHr]; cbn [map]; [apply Forall_nil|apply Forall_cons; assumption].
  Qed.
  Theorem td_Rn f : (forall n e', f n = Some e' -> Rn e' n) -> forall e, Rn (td f e) e.
  Proof.
    intros Hf. induction e using expr_ind'; rewrite td_unfold;
      (destruct (f _) as [e'|] eqn:F; [apply (Hf _ _ F)|]); apply rebuild_Rn; apply children_Forall; auto.
  Qed.
  Theorem bu_Rn f : (forall n, Rn (f n) n) -> forall e, Rn (bu f e) e.
  Proof.
    intros Hf. induction e using expr_ind'; rewrite bu_unfold; (eapply Rn_trans; [apply Hf|]);
      apply rebuild_Rn; apply children_Forall; auto.
  Qed.
End Names.

(** * syntax *)
Fixpoint ops_closed (e : expr) : bool :=
  let all := fix all (es : list expr) : bool := match es with [] => true | a :: t => ops_closed a && all t end in
  match e with
  | EName _ | EConst _ | EType _ => true
  | ETuple es | EList es | ESet es => all es
  | EMeth _ _ args | ECall _ args => all args
  | EBool _ _ l r => ops_closed l && ops_closed r
  | ENot _ a | EJuxt _ a => ops_closed a
  | ECmp _ l rest => closed l && ops_closed l &&
                     (fix go (rs : list (cmpop * expr)) : bool :=
                        match rs with [] => true | (_, b) :: t => closed b && ops_closed b && go t end) rest
  | EListComp elt _ it | EGen _ elt _ it => ops_closed elt && ops_closed it
  | EFloorDiv l r => closed l && closed r && ops_closed l && ops_closed r
  end.
(** well-formed, and the operands of comparisons and of // are atoms or parenthesised *)
Definition wfc (e : expr) : bool := wf e && ops_closed e.

Definition ops_all (es : list expr) : bool := forallb ops_closed es.
Definition ops_rest (rs : list (cmpop * expr)) : bool := forallb (fun cb => closed (snd cb) && ops_closed (snd cb)) rs.
Lemma ops_all_fix es :
  (fix all (es : list expr) : bool := match es with [] => true | a :: t => ops_closed a && all t end) es = ops_all es.
Proof. induction es as [|a t IH]; cbn; [reflexivity|]. rewrite IH. reflexivity. Qed.
Lemma ops_rest_fix rs :
  (fix go (rs : list (cmpop * expr)) : bool := match rs with [] => true | (_, b) :: t => closed b && ops_closed b && go t end) rs
  = ops_rest rs.
Proof. induction rs as [|[c b] t IH]; cbn; [reflexivity|]. rewrite IH. reflexivity. Qed.

Lemma closed_not_swn e : closed e = true -> starts_with_not e = false.
Proof. destruct e; cbn; try reflexivity; intros ->; reflexivity. Qed.

(** [a] (new) may stand wherever [b] (old) stood: same generator-parenthesisation, closed if [b] was, well-formed if [b] was;
    a string literal stays the same literal (an implicit concatenation [EJuxt] is only well-formed around a literal) *)
Definition Rw (a b : expr) : Prop :=
  gen_par a = gen_par b /\ (closed b = true -> closed a = true) /\ (wfc b = true -> wfc a = true) /\ (is_strlit b = true -> a = b).
Lemma Rw_refl e : Rw e e. Proof. repeat split; auto. Qed.
Lemma Rw_trans a b c : Rw a b -> Rw b c -> Rw a c.
Proof.
  intros [G1 [C1 [W1 S1]]] [G2 [C2 [W2 S2]]]. repeat split; [congruence|auto|auto|].
  intros Hc. pose proof (S2 Hc) as E. subst c. apply S1, Hc.
Qed.

Lemma wfc_split e : wfc e = true <-> wf e = true /\ ops_closed e = true.
Proof. unfold wfc. apply andb_true_iff. Qed.

Lemma all_Rw g es : Forall (fun c => Rw (g c) c) es -> wf_all es = true -> ops_all es = true ->
  wf_all (map g es) = true /\ ops_all (map g es) = true.
Proof.
  induction 1 as [|a t [G [_ [W _]]] _ IH]; [auto|]. cbn [map]. rewrite !wf_all_cons. cbn [ops_all forallb].
  rewrite !andb_true_iff. intros [[H1 H2] H3] [H4 H5]. destruct (IH H3 H5) as [I1 I2].
  assert (Wa : wfc (g a) = true) by (apply W, wfc_split; auto). apply wfc_split in Wa as [Wa Oa].
  rewrite G. repeat split; auto.
Qed.
Lemma args_Rw g es : Forall (fun c => Rw (g c) c) es -> wf_args es = true -> ops_all es = true ->
  wf_args (map g es) = true /\ ops_all (map g es) = true.
Proof.
  intros HF. destruct es as [|a [|b t]]; [auto| |].
  - inversion HF as [|? ? [G [_ [W _]]] _]; subst. cbn [wf_args map ops_all forallb]. rewrite !andb_true_r. intros H1 H2.
    assert (Wa : wfc (g a) = true) by (apply W, wfc_split; auto). apply wfc_split in Wa. exact Wa.
  - intros H1 H2. exact (all_Rw g _ HF H1 H2).
Qed.
Lemma rest_Rw g rs : Forall (fun cb => Rw (g (snd cb)) (snd cb)) rs -> wf_rest rs = true -> ops_rest rs = true ->
  wf_rest (map (fun cb => (fst cb, g (snd cb))) rs) = true /\ ops_rest (map (fun cb => (fst cb, g (snd cb))) rs) = true.
Proof.
  induction 1 as [|[c b] t [G [C [W _]]] _ IH]; [auto|]. cbn [map fst snd] in *. rewrite !wf_rest_cons. cbn [ops_rest forallb snd].
  rewrite !andb_true_iff. intros [[[H1 H2] H3] H4] [[H5 H6] H7]. destruct (IH H4 H7) as [I1 I2].
  assert (Wa : wfc (g b) = true) by (apply W, wfc_split; auto). apply wfc_split in Wa as [Wa Oa].
  rewrite G, (closed_not_swn _ (C H5)). repeat split; auto.
Qed.

Lemma Forall_children_cmp (P : expr -> Prop) l (rest : list (cmpop * expr)) :
  Forall P (l :: map snd rest) -> P l /\ Forall (fun cb => P (snd cb)) rest.
Proof.
  intros H. inversion H as [|? ? Hl Hr]; subst. split; [exact Hl|].
  clear -Hr. induction rest as [|cb t IH]; cbn [map] in *; constructor; inversion Hr; subst; auto.
Qed.

Lemma rebuild_Rw g e : Forall (fun c => Rw (g c) c) (children e) -> Rw (rebuild g e) e.
Proof.
  intros HF. split; [destruct e; reflexivity|]. split; [destruct e; cbn; auto|]. split; [|destruct e; cbn; intros H; try discriminate H; reflexivity].
  intros W. apply wfc_split in W as [W O]. apply wfc_split.
  destruct e; cbn [rebuild children] in *; try (split; assumption).
  - rewrite wf_ETuple in *. cbn [ops_closed] in *. rewrite ops_all_fix in *. exact (all_Rw g es HF W O).
  - rewrite wf_EList in *. cbn [ops_closed] in *. rewrite ops_all_fix in *. exact (all_Rw g es HF W O).
  - rewrite wf_ESet in *. cbn [ops_closed] in *. rewrite ops_all_fix in *. destruct es as [|a t]; [discriminate W|].
    exact (all_Rw g (a :: t) HF W O).
  - rewrite wf_EMeth in *. cbn [ops_closed] in *. rewrite ops_all_fix in *. exact (args_Rw g args HF W O).
  - rewrite wf_ECall in *. cbn [ops_closed] in *. rewrite ops_all_fix in *. exact (args_Rw g args HF W O).
  - inversion HF as [|? ? [G1 [_ [W1 _]]] HF']; subst. inversion HF' as [|? ? [G2 [_ [W2 _]]] _]; subst.
    rewrite wf_EBool in *. cbn [ops_closed] in *. rewrite !andb_true_iff in *. destruct W as [[[A1 A2] A3] A4], O as [O1 O2].
    assert (X1 : wfc (g e1) = true) by (apply W1, wfc_split; auto). assert (X2 : wfc (g e2) = true) by (apply W2, wfc_split; auto).
    apply wfc_split in X1 as [? ?], X2 as [? ?]. rewrite G1, G2. repeat split; auto.
  - inversion HF as [|? ? [G1 [_ [W1 _]]] _]; subst. rewrite wf_ENot in *. cbn [ops_closed] in *. rewrite !andb_true_iff in *.
    destruct W as [A1 A2]. assert (X1 : wfc (g e) = true) by (apply W1, wfc_split; auto). apply wfc_split in X1 as [? ?].
    rewrite G1. repeat split; auto.
  - (* ECmp *)
    apply Forall_children_cmp in HF as [[G1 [C1 [W1 _]]] HR].
    rewrite wf_ECmp in *. cbn [ops_closed] in *. rewrite ops_rest_fix in *. rewrite !andb_true_iff in *.
    destruct W as [[[A1 A2] A3] A4], O as [[O1 O2] O3].
    assert (X1 : wfc (g e) = true) by (apply W1, wfc_split; auto). apply wfc_split in X1 as [? ?].
    destruct (rest_Rw g rest HR A4 O3) as [R1 R2]. rewrite G1. repeat split; auto.
    destruct rest; [discriminate A3|reflexivity].
  - inversion HF as [|? ? [G1 [_ [W1 _]]] HF']; subst. inversion HF' as [|? ? [G2 [_ [W2 _]]] _]; subst.
    rewrite wf_EListComp in *. cbn [ops_closed] in *. rewrite !andb_true_iff in *. destruct W as [[[A1 A2] A3] A4], O as [O1 O2].
    assert (X1 : wfc (g e1) = true) by (apply W1, wfc_split; auto). assert (X2 : wfc (g e2) = true) by (apply W2, wfc_split; auto).
    apply wfc_split in X1 as [? ?], X2 as [? ?]. rewrite G1, G2. repeat split; auto.
  - inversion HF as [|? ? [G1 [_ [W1 _]]] HF']; subst. inversion HF' as [|? ? [G2 [_ [W2 _]]] _]; subst.
    rewrite wf_EGen in *. cbn [ops_closed] in *. rewrite !andb_true_iff in *. destruct W as [[[A1 A2] A3] A4], O as [O1 O2].
    assert (X1 : wfc (g e1) = true) by (apply W1, wfc_split; auto). assert (X2 : wfc (g e2) = true) by (apply W2, wfc_split; auto).
    apply wfc_split in X1 as [? ?], X2 as [? ?]. rewrite G1, G2. repeat split; auto.
  - inversion HF as [|? ? [G1 [C1 [W1 _]]] HF']; subst. inversion HF' as [|? ? [G2 [C2 [W2 _]]] _]; subst.
    rewrite wf_EFloorDiv in *. cbn [ops_closed] in *. rewrite !andb_true_iff in *.
    destruct W as [[[[A1 A2] A3] A4] A5], O as [[[O1 O2] O3] O4].
    assert (X1 : wfc (g e1) = true) by (apply W1, wfc_split; auto). assert (X2 : wfc (g e2) = true) by (apply W2, wfc_split; auto).
    apply wfc_split in X1 as [? ?], X2 as [? ?]. rewrite G1, G2, (closed_not_swn _ (C2 O2)). repeat split; auto.
  - (* EJuxt: only a string literal may stand there, and a string literal stays the same literal *)
    inversion HF as [|? ? [G1 [C1 [W1 S1]]] _]; subst.
    destruct e as [|c| | | | | | | | | | | | |]; try discriminate W. destruct c; try discriminate W.
    rewrite (S1 eq_refl). split; assumption.
Qed.

Theorem td_Rw f : (forall n e', f n = Some e' -> Rw e' n) -> forall e, Rw (td f e) e.
Proof.
  intros Hf. induction e using expr_ind'; rewrite td_unfold;
    (destruct (f _) as [e'|] eqn:F; [apply (Hf _ _ F)|]); apply rebuild_Rw; apply children_Forall; auto.
Qed.
Theorem bu_Rw f : (forall n, Rw (f n) n) -> forall e, Rw (bu f e) e.
Proof.
  intros Hf. induction e using expr_ind'; rewrite bu_unfold; (eapply Rw_trans; [apply Hf|]);
    apply rebuild_Rw; apply children_Forall; auto.
Qed.

(** * Instances *)
Notation BN := builtin_names.
Ltac not_names := intros [H|H]; discriminate H.

(** ** fix-hasattr-call *)
Lemma hasattr_step_Rn cfg n : Rn BN (hasattr_step cfg n) n.
Proof.
  destruct n; try apply Rn_refl. destruct f; try apply Rn_refl. destruct args as [|a rest]; [apply Rn_refl|].
  split; [apply C02_kernel_hasattr_step_names|]. cbn [hasattr_step]. destruct (hasattr_fires cfg a rest); not_names.
Qed.
Lemma wf_args_head a rest : wf_args (a :: rest) = true -> wf a = true.
Proof.
  destruct rest; [auto|]. cbn [wf_args]. rewrite wf_all_cons, !andb_true_iff. tauto.
Qed.
Lemma hasattr_step_Rw cfg n : Rw (hasattr_step cfg n) n.
Proof.
  destruct n; try apply Rw_refl. destruct f; try apply Rw_refl. destruct args as [|a rest]; [apply Rw_refl|].
  cbn [hasattr_step]. destruct (hasattr_fires cfg a rest); [|apply Rw_refl].
  repeat split; auto; try discriminate. intros W. apply wfc_split in W as [W O]. apply wfc_split.
  rewrite wf_ECall in *. cbn [ops_closed] in *. rewrite ops_all_fix in *. cbn [ops_all forallb] in *.
  apply andb_true_iff in O as [O _]. rewrite O. split; [exact (wf_args_head a rest W)|reflexivity].
Qed.
Theorem hasattr_names cfg e : incl_str (names (rw_hasattr cfg e)) (names e ++ BN).
Proof. apply (bu_Rn BN (hasattr_step cfg) (hasattr_step_Rn cfg) e). Qed.
Theorem hasattr_wfc cfg e : wfc e = true -> wfc (rw_hasattr cfg e) = true.
Proof. apply (bu_Rw (hasattr_step cfg) (hasattr_step_Rw cfg) e). Qed.

(** ** fix-empty-sequence-comparison *)
Lemma empty_seq_new_not_name cfg n : is_name (empty_seq_new cfg (empty_seq_action false n) n) = is_name n.
Proof.
  destruct n as [| | | | | | | | | |p l rest| | | |]; try reflexivity. destruct rest as [|[o c] [|? ?]]; try reflexivity.
  unfold empty_seq_action. destruct (is_empty_seq l || is_empty_seq c); [|reflexivity].
  destruct o; try reflexivity. destruct (has_value_attr _); reflexivity.
Qed.
Lemma empty_seq_f_Rn cfg n e' : empty_seq_f cfg n = Some e' -> Rn BN e' n.
Proof.
  destruct n as [| | | | | | | | | |p l rest| | | |]; try discriminate. unfold empty_seq_f. intros H. injection H as <-.
  split; [exact (C02_kernel_empty_seq_names cfg false (ECmp p l rest))|].
  change (is_name (empty_seq_new cfg (empty_seq_action false (ECmp p l rest)) (ECmp p l rest)) = true \/ is_name (ECmp p l rest) = true -> empty_seq_new cfg (empty_seq_action false (ECmp p l rest)) (ECmp p l rest) = ECmp p l rest).
  rewrite empty_seq_new_not_name. not_names.
Qed.
Lemma ops_cmp_single p l o c : ops_closed (ECmp p l [(o, c)]) = true ->
  closed l = true /\ ops_closed l = true /\ closed c = true /\ ops_closed c = true.
Proof. cbn [ops_closed]. rewrite !andb_true_iff. tauto. Qed.
Lemma empty_seq_f_Rw cfg n e' : es_parens cfg = true -> empty_seq_f cfg n = Some e' -> Rw e' n.
Proof.
  intros Hp. destruct n as [| | | | | | | | | |p l rest| | | |]; try discriminate. unfold empty_seq_f. intros H. injection H as <-.
  assert (Self : Rw (ECmp p l rest) (ECmp p l rest)) by apply Rw_refl.
  destruct rest as [|[o c] [|? ?]]; try exact Self. unfold empty_seq_action.
  destruct (is_empty_seq l || is_empty_seq c) eqn:He; [|exact Self].
  assert (Wf : forall a, wf (ECmp p l [(o, c)]) = true -> a = empty_seq_action false (ECmp p l [(o, c)]) ->
               wf (empty_seq_new cfg a (ECmp p l [(o, c)])) = true)
    by (intros a W ->; apply C01_kernel_empty_seq_wf, W).
  unfold empty_seq_action in Wf. rewrite He in Wf.
  destruct o; try exact Self.
  - (* == -> not x *)
    cbn [empty_seq_new]. rewrite Hp. cbn [andb]. repeat split; auto; try discriminate.
    intros W. apply wfc_split in W as [W O]. apply wfc_split. split; [exact (Wf _ W eq_refl)|].
    destruct (ops_cmp_single _ _ _ _ O) as (C1 & O1 & C2 & O2). cbn [ops_closed]. destruct (is_empty_seq l); assumption.
  - (* != -> bool(x) *)
    destruct (has_value_attr (if is_empty_seq l then c else l)) eqn:HV; [|exact Self].
    cbn [empty_seq_new]. repeat split; auto; try discriminate.
    intros W. apply wfc_split in W as [W O]. apply wfc_split. specialize (Wf _ W eq_refl). rewrite ?HV in Wf. split; [exact Wf|].
    destruct (ops_cmp_single _ _ _ _ O) as (C1 & O1 & C2 & O2). cbn [ops_closed]. destruct (is_empty_seq l); rewrite ?O1, ?O2; reflexivity.
Qed.
Theorem empty_seq_names cfg in_test e : incl_str (names (empty_seq_file cfg in_test e)) (names e ++ BN).
Proof.
  unfold empty_seq_file. destruct (empty_seq_crashes in_test e); [intros y Hy; apply in_or_app; left; exact Hy|].
  unfold rw_empty_seq. destruct e; try apply (td_Rn BN (empty_seq_f cfg) (empty_seq_f_Rn cfg)).
  apply C02_kernel_empty_seq_names.
Qed.
(** (expression context: as the test of an `if` the replacement may be the bare operand) *)
Theorem empty_seq_wfc cfg e : es_parens cfg = true -> wfc e = true -> wfc (empty_seq_file cfg false e) = true.
Proof.
  intros Hp W. unfold empty_seq_file. destruct (empty_seq_crashes false e); [exact W|].
  assert (H : rw_empty_seq cfg false e = td (empty_seq_f cfg) e) by (destruct e; reflexivity).
  rewrite H. apply (td_Rw (empty_seq_f cfg) (fun n e' => empty_seq_f_Rw cfg n e' Hp) e), W.
Qed.

(** ** literal-or-new-object-identity *)
Lemma identity_f_Rn n e' : identity_f n = Some e' -> Rn BN e' n.
Proof.
  intros F. split; [rewrite (C02_kernel_identity_names n e' F); intros y Hy; apply in_or_app; left; exact Hy|].
  destruct n as [| | | | | | | | | |p l rest| | | |]; try discriminate. destruct rest as [|[o c] [|? ?]]; try discriminate.
  cbn [identity_f] in F. destruct (is_literal_or_new l || is_literal_or_new c); [|discriminate].
  destruct o; try discriminate; injection F as <-; not_names.
Qed.
Lemma identity_f_Rw n e' : identity_f n = Some e' -> Rw e' n.
Proof.
  destruct n as [| | | | | | | | | |p l rest| | | |]; try discriminate. destruct rest as [|[o c] [|? ?]]; try discriminate.
  cbn [identity_f]. destruct (is_literal_or_new l || is_literal_or_new c); [|discriminate].
  destruct o; try discriminate; intros F; injection F as <-; repeat split; auto; discriminate.
Qed.
Theorem identity_names e : incl_str (names (rw_identity e)) (names e ++ BN).
Proof. apply (td_Rn BN identity_f identity_f_Rn e). Qed.
Theorem identity_wfc e : wfc e = true -> wfc (rw_identity e) = true.
Proof. apply (td_Rw identity_f identity_f_Rw e). Qed.

(** ** use-set-literal, as a top-down transformer *)
Definition set_literal_f (e : expr) : option expr :=
  match e with
  | ECall BSet [EList es] => Some (match es with [] => ECall BSet [] | _ :: _ => ESet es end)
  | _ => None
  end.
Lemma rw_set_literal_unfold e :
  rw_set_literal e = match set_literal_f e with Some e' => e' | None => rebuild rw_set_literal e end.
Proof.
  destruct e; try reflexivity. destruct f; try reflexivity.
  destruct args as [|a [|b t]]; try reflexivity; destruct a; reflexivity.
Qed.
Lemma rw_set_literal_td : forall e, rw_set_literal e = td set_literal_f e.
Proof.
  induction e using expr_ind'; rewrite rw_set_literal_unfold, td_unfold; destruct (set_literal_f _); try reflexivity;
    cbn [rebuild]; try (f_equal; apply map_ext_in; intros a Ha; rewrite Forall_forall in H; apply H, Ha);
    try (rewrite IHe1, IHe2; reflexivity); try (rewrite IHe; reflexivity).
  rewrite IHe. f_equal. apply map_ext_in. intros cb Hcb. rewrite Forall_forall in H. rewrite (H cb Hcb). reflexivity.
Qed.
Lemma set_literal_f_shape n e' : set_literal_f n = Some e' ->
  exists es, n = ECall BSet [EList es] /\ e' = match es with [] => ECall BSet [] | _ :: _ => ESet es end.
Proof.
  destruct n; try discriminate. destruct f; try discriminate. destruct args as [|a [|b t]]; try discriminate; destruct a; try discriminate.
  cbn. intros H. injection H as <-. eauto.
Qed.
Lemma set_literal_f_Rn n e' : set_literal_f n = Some e' -> Rn BN e' n.
Proof.
  intros F. destruct (set_literal_f_shape n e' F) as [es [-> ->]]. split.
  - intros y Hy. apply in_or_app. left. apply (C02_kernel_set_literal_site es). exact Hy.
  - destruct es; not_names.
Qed.
Lemma set_literal_f_Rw n e' : set_literal_f n = Some e' -> Rw e' n.
Proof.
  intros F. destruct (set_literal_f_shape n e' F) as [es [-> ->]].
  repeat split; try (destruct es; reflexivity); try discriminate; try (intros _; destruct es; reflexivity).
  intros W. apply wfc_split in W as [W O]. apply wfc_split.
  rewrite wf_ECall in W. cbn [wf_args] in W. rewrite wf_EList in W. cbn [ops_closed] in O. rewrite ?ops_all_fix in O.
  cbn [ops_all forallb ops_closed] in O. rewrite ?ops_all_fix, ?andb_true_r in O.
  destruct es as [|a t]; [split; reflexivity|]. rewrite wf_ESet. cbn [ops_closed]. rewrite ops_all_fix. split; assumption.
Qed.
Theorem set_literal_names e : incl_str (names (rw_set_literal e)) (names e ++ BN).
Proof. rewrite rw_set_literal_td. apply (td_Rn BN set_literal_f set_literal_f_Rn e). Qed.
Theorem set_literal_wfc e : wfc e = true -> wfc (rw_set_literal e) = true.
Proof. rewrite rw_set_literal_td. apply (td_Rw set_literal_f set_literal_f_Rw e). Qed.

(** ** use-generator in the current form (nested rewrites kept, generator built from the updated comprehension): bottom-up *)
Definition gen_step (cfg : generator_cfg) (e : expr) : expr :=
  match e with
  | ECall f args => if gen_hit cfg f args then gen_call cfg f args else e
  | _ => e
  end.
Lemma rw_generator_bu cfg : ug_nested cfg = true -> ug_updated_parts cfg = true ->
  forall e, rw_generator cfg e = bu (gen_step cfg) e.
Proof.
  intros Hn Hp. induction e using expr_ind'; cbn [rw_generator bu gen_step]; rewrite ?Hn, ?Hp; try reflexivity;
    try (f_equal; apply map_ext_in; intros a Ha; rewrite Forall_forall in H; apply H, Ha);
    try (rewrite IHe1, IHe2; reflexivity); try (rewrite IHe; reflexivity).
  - (* ECall *)
    assert (E : map (rw_generator cfg) args = map (bu (gen_step cfg)) args)
      by (apply map_ext_in; intros a Ha; rewrite Forall_forall in H; apply H, Ha).
    rewrite <- E, gen_hit_map. destruct (gen_hit cfg f args); reflexivity.
  - rewrite IHe. f_equal. apply map_ext_in. intros cb Hcb. rewrite Forall_forall in H. rewrite (H cb Hcb). reflexivity.
Qed.
Lemma gen_hit_shape cfg f args : gen_hit cfg f args = true -> exists elt x it rest, args = EListComp elt x it :: rest.
Proof. destruct args as [|a rest]; [discriminate|]. destruct a; try discriminate. eauto. Qed.
Lemma gen_step_Rn cfg n : Rn BN (gen_step cfg n) n.
Proof.
  destruct n; try apply Rn_refl. cbn [gen_step]. destruct (gen_hit cfg f args) eqn:Hit; [|apply Rn_refl].
  destruct (gen_hit_shape _ _ _ Hit) as (elt & x & it & rest & ->). split.
  - intros y Hy. apply in_or_app. left. apply (C02_kernel_generator_site cfg f elt x it rest), Hy.
  - rewrite (gen_call_hit' cfg f elt x it rest Hit). not_names.
Qed.
Lemma gen_step_Rw cfg n : Rw (gen_step cfg n) n.
Proof.
  destruct n; try apply Rw_refl. cbn [gen_step]. destruct (gen_hit cfg f args) eqn:Hit; [|apply Rw_refl].
  destruct (gen_hit_shape _ _ _ Hit) as (elt & x & it & rest & ->).
  pose proof (gen_call_wf cfg f (EListComp elt x it :: rest)) as Wf.
  rewrite (gen_call_hit' cfg f elt x it rest Hit) in *.
  repeat split; auto; try discriminate.
  intros W. apply wfc_split in W as [W O]. apply wfc_split. split; [exact (Wf W)|].
  cbn [ops_closed] in *. rewrite !ops_all_fix in *. cbn [ops_all forallb ops_closed] in *.
  apply andb_true_iff in O as [O _]. rewrite O. reflexivity.
Qed.
Theorem generator_names cfg e : ug_nested cfg = true -> ug_updated_parts cfg = true ->
  incl_str (names (generator_file cfg e)) (names e ++ BN).
Proof.
  intros Hn Hp. unfold generator_file. destruct (generator_crashes cfg e); [intros y Hy; apply in_or_app; left; exact Hy|].
  rewrite (rw_generator_bu cfg Hn Hp). apply (bu_Rn BN (gen_step cfg) (gen_step_Rn cfg) e).
Qed.
Theorem generator_wfc cfg e : ug_nested cfg = true -> ug_updated_parts cfg = true ->
  wfc e = true -> wfc (generator_file cfg e) = true.
Proof.
  intros Hn Hp W. unfold generator_file. destruct (generator_crashes cfg e); [exact W|].
  rewrite (rw_generator_bu cfg Hn Hp). apply (bu_Rw (gen_step cfg) (gen_step_Rw cfg) e), W.
Qed.
