# with proposed_fixes/semgrep-skip-unreadable-targets.diff
def _scannable(path: Path) -> bool:
    """Semgrep refuses an explicit target that is missing or lacks the owner-read
    permission bit and then fails the whole scan."""
    try:
        return path.is_dir() or (
            os.access(path, os.R_OK) and bool(path.stat().st_mode & stat.S_IRUSR)
        )
    except OSError:
        return False


def run(
    execution_context: CodemodExecutionContext,
    yaml_files: Iterable[Path],
    files_to_analyze: Optional[Iterable[Path]] = None,
) -> SemgrepResultSet:
    """
    Runs Semgrep and outputs a dict with the results organized by rule_id.
    """
    if not yaml_files:
        raise ValueError("No Semgrep rules were provided")

    with NamedTemporaryFile(prefix="semgrep", suffix=".sarif") as temp_sarif_file:
        command = [
            "semgrep",
            "scan",
            "--no-error",
            "--dataflow-traces",
            "--sarif",
            "-o",
            temp_sarif_file.name,
        ]
        command.extend(
            itertools.chain.from_iterable(
                map(lambda f: ["--config", str(f)], yaml_files)
            )
        )
        targets = [Path(f) for f in files_to_analyze or [execution_context.directory]]
        if unreadable := [t for t in targets if not _scannable(t)]:
            # One unreadable file must not abort the scan of all the others
            logger.warning(
                "skipping unreadable file(s) in semgrep scan: %s",
                ", ".join(map(str, unreadable)),
            )
            targets = [t for t in targets if t not in unreadable]
            if not targets:
                return InternalSemgrepResultSet()
        command.extend(map(str, targets))
        logger.debug("semgrep command: `%s`", " ".join(command))
        call = subprocess.run(
            command,
            shell=False,
            check=False,
            stdout=None if execution_context.verbose else subprocess.PIPE,
            stderr=None if execution_context.verbose else subprocess.PIPE,
        )
        if call.returncode != 0:
            if not execution_context.verbose:
                logger.error("captured semgrep stderr: %s", call.stderr)
            try:
                logger.error("semgrep sarif output: %s", temp_sarif_file.read())
            except Exception as e:
                logger.error("failed to read semgrep sarif output: %s", e)

            raise subprocess.CalledProcessError(call.returncode, command)
        # semgrep prepends the folders into the rule-id, we want the base name only
        results = InternalSemgrepResultSet.from_sarif(
            temp_sarif_file.name, truncate_rule_id=True
        )
        return results
