"""Search over the refactoring codemods that have no Coq model (closed program families)."""
def run(ctx):
    return
