"""C01 / C02 / C07: search over seed programs x structural variants x every registered codemod, through the real
codemod application route, with the oracles of harness/e2e.py.  One engine, three verdicts."""
from __future__ import annotations

import glob
import json

from harness import core, e2e


def corpus_jobs(prop):
    jobs = []
    for f in sorted(glob.glob(str(core.VERIF / "corpus" / prop / "*.json"))):
        s = json.loads(open(f).read())
        if "codemod" not in s or "code" not in s:
            continue
        jobs.append({"codemod": s["codemod"], "corpus": f, "class": s.get("class"),
                     "subprojects": [{"files": {s["filename"]: s["code"]}, "meta": {s["filename"]: {"variant": "corpus:" + s.get("class", "")}},
                                      "tool": s["tool"], "results": s["results"]}]})
    return jobs


_INPUT_CLASSES = None


def _input_classes():
    """corpus entries whose class is `kf_input:<sha1 prefix>` identify a known finding by its exact input"""
    global _INPUT_CLASSES
    if _INPUT_CLASSES is None:
        import hashlib
        _INPUT_CLASSES = {}
        for f in glob.glob(str(core.VERIF / "corpus" / "C0[127]" / "*.json")):
            e = json.loads(open(f).read())
            if str(e.get("class", "")).startswith("kf_input:"):
                _INPUT_CLASSES[(e["codemod"], hashlib.sha1(e["code"].encode()).hexdigest()[:12])] = e["class"]
    return _INPUT_CLASSES


def _dropped_binding_class(codemod, before, after1):
    """C02 classes for bindings that the rewrite drops although they are still read:
    (a) the name is read from another function scope than the one that assigns it; (b) extra targets of a chained assignment."""
    import ast
    name = codemod.split("/")[-1]
    ub, ua = e2e.unresolved(before), e2e.unresolved(after1)
    if ub is None or ua is None:
        return None
    new = ua - ub
    try:
        tree = ast.parse(before)
    except SyntaxError:
        return None
    chained = set()
    for n in ast.walk(tree):
        if isinstance(n, ast.Assign) and len(n.targets) >= 2:
            chained |= {t.id for t in n.targets[1:] if isinstance(t, ast.Name)}
    if new and new <= chained:
        return f"kf_chained_assignment_target_dropped:{name}"
    # names assigned in scope S and loaded inside a function nested in (or other than) S
    parent = {}

    def scopes(node, cur, acc):
        for ch in ast.iter_child_nodes(node):
            if isinstance(ch, (ast.FunctionDef, ast.AsyncFunctionDef, ast.Lambda)):
                parent[ch] = cur
                scopes(ch, ch, acc)
            else:
                if isinstance(ch, ast.Name):
                    acc.append((ch.id, type(ch.ctx).__name__, cur))
                scopes(ch, cur, acc)

    def nested_in(inner, outer):
        while inner in parent:
            inner = parent[inner]
            if inner is outer:
                return True
        return False
    acc = []
    scopes(tree, tree, acc)
    cross = set()
    for nm in new:
        stores = {sc for (i, c, sc) in acc if i == nm and c == "Store"}
        loads = {sc for (i, c, sc) in acc if i == nm and c == "Load"}
        # the known defect: the binding of scope S is dropped although a scope NESTED IN S still reads the name
        # (two sibling functions that happen to use the same local name are not that)
        if any(nested_in(ld, st) for ld in loads for st in stores):
            cross.add(nm)
    if new and new <= cross:
        return f"kf_binding_read_from_nested_scope_dropped:{name}"
    return None


def _syntax_error_line(text):
    """line of the SyntaxError CPython reports for `text` (None if it compiles)"""
    import warnings
    try:
        with warnings.catch_warnings():
            warnings.simplefilter("ignore")
            compile(text, "<after>", "exec", dont_inherit=True)
    except SyntaxError as e:
        return e.lineno or 0
    except (ValueError, RecursionError):
        return 0
    return None


def _map_line(before, after, line):
    """the (1-based) line range of `after` that corresponds to line `line` of `before` (by a line diff)"""
    import difflib
    a, b = before.splitlines(), after.splitlines()
    for tag, i1, i2, j1, j2 in difflib.SequenceMatcher(None, a, b, autojunk=False).get_opcodes():
        if i1 <= line - 1 < i2:
            if tag == "equal":
                return (j1 + (line - 1 - i1) + 1, j1 + (line - 1 - i1) + 1)
            return (j1 + 1, max(j2, j1 + 1))
    return (len(b), len(b))


def _error_at(before, after, lines, slack=1):
    """does the syntax error of `after` sit on (within `slack` lines of) the image of one of the given lines of `before`?
    A known C01 class only absorbs a failure that is WHERE the class says it is."""
    err = _syntax_error_line(after or "")
    if err is None:
        return False
    for ln in lines:
        lo, hi = _map_line(before, after, ln)
        if lo - slack <= err <= hi + slack:
            return True
    return False


def _second_run_confined(after1, after2, spans):
    """are all lines that the second run changed inside one of the given line spans of after1?
    Import lines and blank lines are left out of the comparison altogether: the import that the completed rewrite makes
    necessary / unnecessary may come or go along with it, wherever it stands relative to the call."""
    import difflib

    def items(text):
        return [(i + 1, l) for i, l in enumerate(text.splitlines())
                if l.strip() and not l.strip().startswith(("import ", "from "))]
    a, b = items(after1), items(after2 or "")
    for tag, i1, i2, j1, j2 in difflib.SequenceMatcher(None, [t for _, t in a], [t for _, t in b], autojunk=False).get_opcodes():
        if tag == "equal":
            continue
        if i2 > i1:
            lo, hi = a[i1][0], a[i2 - 1][0]
            if any(s <= lo and hi <= e for s, e in spans):
                continue
            return False
        # pure insertion: it must sit next to (inside) a span
        near = [a[k][0] for k in (i1 - 1, i1) if 0 <= k < len(a)]
        if any(s <= ln <= e for ln in near for s, e in spans):
            continue
        return False
    return True


def classify(prop, codemod, before, after1, after2):
    """Finding classes (narrow, decidable on the input); text that cannot even be analysed (e.g. surrogate-escaped bytes of a
    legacy-encoded file) belongs to no known class."""
    try:
        return _classify(prop, codemod, before, after1, after2)
    except (UnicodeError, ValueError, RecursionError):
        return f"unlisted_{prop}_{codemod.split('/')[-1]}"


def _classify(prop, codemod, before, after1, after2):
    name = codemod.split("/")[-1]
    import hashlib
    hit = _input_classes().get((codemod, hashlib.sha1(before.encode("utf-8", "surrogateescape")).hexdigest()[:12]))
    if hit:
        return hit
    if prop == "C02" and name == "timezone-aware-datetime":
        import re as _re
        if _re.search(r"from\s+datetime\s+import\s+[^\n]*\bdatetime\s+as\s+\w+", before):
            return "kf_timezone_aliased_datetime"
    if prop == "C02" and after1 is not None:
        c = _dropped_binding_class(codemod, before, after1)
        if c:
            return c
    if prop == "C01" and name == "lazy-logging":
        # some un-prefixed string literal whose raw content cannot stand between double quotes as it is
        # (the complement of the guard of theorem C01_requote_lexes; same predicate as Model/StrLit.v dq_safe)
        import io, tokenize
        from harness.c01_strlit import dq_safe
        try:
            bad_lines = []
            for t in tokenize.generate_tokens(io.StringIO(before).readline):
                if t.type == tokenize.STRING and t.string[0] in "'\"":
                    q = t.string[:3] if t.string[:3] in ("'''", '"""') else t.string[:1]
                    if not dq_safe(t.string[len(q):-len(q)]):
                        bad_lines += list(range(t.start[0], t.end[0] + 1))
            # ... and the output breaks exactly there (the re-quoted literal), not somewhere else in the file
            if bad_lines and _error_at(before, after1, bad_lines, slack=1):
                return "kf_lazy_logging_quote"
        except Exception:
            pass
    if prop == "C01" and name == "remove-debug-breakpoint":
        # the removed call is the ONLY statement of its block and carries a trailing comment on its line
        import ast
        try:
            src_lines = before.splitlines()
            for n in ast.walk(ast.parse(before)):
                for field in ("body", "orelse", "finalbody"):
                    blk = getattr(n, field, None)
                    if isinstance(blk, list) and len(blk) == 1 and isinstance(blk[0], ast.Expr) and isinstance(blk[0].value, ast.Call) \
                            and not isinstance(n, ast.Module):
                        st = blk[0]
                        if "#" in src_lines[st.end_lineno - 1][st.end_col_offset:] and _error_at(before, after1, [st.lineno, st.end_lineno], slack=2):
                            return "kf_remove_breakpoint_sole_stmt_trailing_comment"
                for h in getattr(n, "handlers", []) or []:
                    blk = h.body
                    if len(blk) == 1 and isinstance(blk[0], ast.Expr) and isinstance(blk[0].value, ast.Call):
                        st = blk[0]
                        if "#" in src_lines[st.end_lineno - 1][st.end_col_offset:] and _error_at(before, after1, [st.lineno, st.end_lineno], slack=2):
                            return "kf_remove_breakpoint_sole_stmt_trailing_comment"
        except SyntaxError:
            pass
    if prop == "C01" and name == "use-walrus-if":
        import ast
        try:
            for n in ast.walk(ast.parse(before)):
                if isinstance(n, ast.Assign) and isinstance(n.value, ast.Tuple):
                    seg = ast.get_source_segment(before, n.value) or ""
                    if not seg.startswith("(") and _error_at(before, after1, [n.lineno, n.end_lineno, n.end_lineno + 1], slack=2):
                        return "kf_walrus_tuple_rhs"
        except SyntaxError:
            pass
    if prop == "C01" and name == "sql-parameterization":
        import ast
        try:
            for n in ast.walk(ast.parse(before)):
                if isinstance(n, ast.BinOp) and isinstance(n.op, ast.Add):
                    for side, other in ((n.right, n.left), (n.left, n.right)):
                        if isinstance(side, ast.Constant) and side.value == "" and other.end_lineno != other.lineno \
                                and _error_at(before, after1, list(range(n.lineno, n.end_lineno + 1)), slack=2):
                            return "kf_sql_cleanup_multiline_concat"
        except SyntaxError:
            pass
    if prop == "C07" and name == "flask-enable-csrf-protection":
        import ast
        try:
            tree = ast.parse(before)
            for n in ast.walk(tree):
                if isinstance(n, ast.Assign) and len(n.targets) >= 2 and isinstance(n.value, ast.Call) \
                        and (after2 or "").count("CSRFProtect(") > (after1 or "").count("CSRFProtect("):
                    # (whatever name Flask was imported under) the second run adds the protection once more
                    return "kf_flask_csrf_chained_targets"
            for n in ast.walk(tree):
                if isinstance(n, ast.ImportFrom) and (n.module or "").startswith("flask_wtf") and any(a.name == "CSRFProtect" for a in n.names):
                    return "kf_flask_csrf_preexisting_import"
        except SyntaxError:
            pass
    if prop == "C07" and name == "django-receiver-on-top":
        import ast
        try:
            for n in ast.walk(ast.parse(before)):
                if isinstance(n, (ast.FunctionDef, ast.AsyncFunctionDef)):
                    recv = [d for d in n.decorator_list if "receiver" in ast.dump(d.func if isinstance(d, ast.Call) else d)]
                    if len(recv) >= 2:
                        return "kf_django_receiver_two_receivers"
        except SyntaxError:
            pass
    if prop == "C07" and name == "flask-json-response-type":
        import ast
        try:
            k = 0
            for n in ast.walk(ast.parse(before)):
                if isinstance(n, ast.Return) and isinstance(n.value, ast.Call) and ast.dump(n.value.func).count("dumps"):
                    k += 1
            if k >= 2:
                return "kf_flask_json_several_routes"
        except SyntaxError:
            pass
    if prop == "C07" and after1 is not None:
        import ast
        try:
            tree = ast.parse(before)
        except SyntaxError:
            return f"kf_{prop}_{name}"
        # a call nested inside an argument of another call to the same callee expression
        nested_in_input = False
        for n in ast.walk(tree):
            if isinstance(n, ast.Call):
                outer = ast.dump(n.func)
                for a in list(n.args) + [k.value for k in n.keywords]:
                    for m in ast.walk(a):
                        if isinstance(m, ast.Call) and ast.dump(m.func) == outer:
                            nested_in_input = True
        if nested_in_input:
            # per codemod: the defect is known for the transformers that rebuild the outer call from original_node; the
            # same behaviour appearing in another codemod is a new violation.  And by OBSERVATION: what the second run
            # changes must lie inside such an outer call of the first run's output (the inner fix that was discarded),
            # otherwise the non-idempotence is something else that merely shares the file.
            spans = []
            try:
                for n in ast.walk(ast.parse(after1)):
                    if isinstance(n, ast.Call):
                        inner_calls = [m for a in list(n.args) + [k.value for k in n.keywords] for m in ast.walk(a) if isinstance(m, ast.Call)]
                        if inner_calls:
                            spans.append((n.lineno, n.end_lineno))
            except SyntaxError:
                spans = []
            if spans and _second_run_confined(after1, after2, spans):
                return "kf_nested_selected_calls:" + name
    return f"unlisted_{prop}_{name}"


def run(ctx: core.Ctx, prop: str):
    rng = ctx.rng
    if ctx.quick():
        per, nv = 3, 3
    else:
        per, nv = 14, 10
    if getattr(ctx, "deep", False):
        per, nv = per * 2, nv + 2
    # the variant families that matter most for the property are always generated, the others are sampled
    priority = {"C01": ("ctx_", "own_block", "comment_above"),
                "C02": ("second_use", "twin_import", "aliased_twin", "nested_reader", "chained_assign", "aliased_import_renamed", "module_alias_renamed"),
                "C07": ("nested_call", "twin_import", "ctx_tuple", "mixin_base")}[prop]
    jobs = corpus_jobs(prop) + e2e.build_jobs(rng, per_codemod=per, variants_per_seed=nv, priority=priority)
    outs = e2e.run_jobs(ctx, jobs)
    n_changed = 0
    for job, o in zip(jobs, outs):
        cm = o["codemod"]
        if o.get("worker_error"):
            ctx.notes.append(f"worker error for {cm}: {o['worker_error'][-200:]}")
            ctx.mismatch("e2e worker", f"worker failed for {cm}", {"codemod": cm, "error": o["worker_error"][-500:]})
            continue
        for s in o["subprojects"]:
            if s["error"]:
                # an exception escaping codemod.apply is a C10 matter; for this property it means NO OBSERVATION of a
                # program the search was meant to look at: the correspondence is broken, not passed
                ctx.count("apply_raised")
                ctx.notes.append(f"{cm}: apply raised: {s['error'][-200:]}")
                ctx.mismatch("e2e run of " + cm, "codemod.apply raised, nothing observed for this subproject",
                             {"codemod": cm, "error": s["error"][-800:], "files": {k: v for k, v in list(s.get("before", {}).items())[:3]}})
                continue
            rep1, rep2 = s["pass1"]["report"], s["pass2"]["report"]
            for f, before in s["before"].items():
                if not f.endswith(".py"):
                    continue
                variant = s["meta"].get(f, {}).get("variant", "?")
                a1, a2 = s["after1"].get(f), s["after2"].get(f)
                changed = a1 != before
                n_changed += changed
                ctx.count(f"variant:{variant.split(':')[0]}")
                ctx.count("origin:" + cm.split(":")[0])
                ctx.case({"codemod": cm, "variant": variant, "before": before[:400], "after": (a1 or "")[:400]},
                         nontrivial_key=(cm, before) if changed else None, sample=changed and variant not in ("identity",))
                replay = {"codemod": cm, "filename": f, "variant": variant, "before": before, "after_first_run": a1,
                          "after_second_run": a2, "tool": s["tool"]}
                cb, ca = s.get("compiles_before", {}).get(f), s.get("compiles_after1", {}).get(f)
                if prop == "C01" and cb is True and ca is False and not (changed and e2e.parses(before) and not e2e.parses(a1)):
                    # judged on the BYTES (coding cookie / BOM honoured): the text-level test below cannot see re-encoding damage
                    ctx.violation(classify(prop, cm, before, a1, a2), f"{cm} left a file CPython can no longer decode/compile (variant {variant})",
                                  {**replay, "expected": "compile(bytes after) succeeds when compile(bytes before) did"})
                if prop == "C01" and changed and e2e.parses(before) and not e2e.parses(a1):
                    ctx.violation(classify(prop, cm, before, a1, a2), f"{cm} left a file that no longer parses (variant {variant})",
                                  {**replay, "expected": "compile(after) succeeds"})
                if prop == "C02" and changed:
                    ub, ua = e2e.unresolved(before), e2e.unresolved(a1)
                    if ub is not None and ua is not None and not ua <= ub:
                        ctx.violation(classify(prop, cm, before, a1, a2),
                                      f"{cm} introduced unresolved names {sorted(ua - ub)} (variant {variant})",
                                      {**replay, "new_unresolved": sorted(ua - ub), "expected": "unresolved(after) is a subset of unresolved(before)"})
                if prop == "C07" and a2 != a1:
                    ctx.violation(classify(prop, cm, before, a1, a2), f"second run of {cm} changed the file again (variant {variant})",
                                  {**replay, "expected": "run(run(P)) == run(P)"})
            if prop == "C07":
                changed2 = any(s["after2"].get(f) != s["after1"].get(f) for f in s["before"])
                if rep2["changeset"] and not changed2:
                    ctx.violation(f"unlisted_C07_report_{cm.split('/')[-1]}", f"second run of {cm} reports a changeset although no file changed",
                                  {"codemod": cm, "second_report": rep2, "files": s["after1"], "expected": "second report has no changeset"})
                dep2 = [c for c in rep2["changeset"] if not c["path"].endswith(".py")]
                if dep2:
                    ctx.violation(f"unlisted_C07_dependency_{cm.split('/')[-1]}", f"second run of {cm} updated a manifest again",
                                  {"codemod": cm, "second_report": rep2, "expected": "no dependency added by the second run"})
    ctx.count("files_changed_by_first_run", n_changed)
    if n_changed == 0:
        ctx.mismatch("e2e search", "no file was changed by any codemod in this run: the search observed nothing", {"jobs": len(jobs)})
    if prop == "C02":
        run_local_import_round(ctx, jobs, outs)
    if prop in ("C01", "C02"):
        run_line_filter_round(ctx, jobs, outs, prop)
    if prop in ("C07", "C01"):
        run_present_keyword_round(ctx, jobs, outs, prop)


def _added_keywords(before: str, after: str):
    """[(call node in `before`, [keyword names the run added to it])] — calls paired by callee text, in source order"""
    import ast
    try:
        tb, ta = ast.parse(before), ast.parse(after)
    except (SyntaxError, ValueError):
        return []
    def calls(t):
        out = {}
        for n in sorted((n for n in ast.walk(t) if isinstance(n, ast.Call)), key=lambda n: (n.lineno, n.col_offset)):
            out.setdefault(ast.dump(n.func), []).append(n)
        return out
    cb, ca = calls(tb), calls(ta)
    res = []
    for k, lb in cb.items():
        la = ca.get(k, [])
        if len(la) != len(lb):
            continue
        for nb, na in zip(lb, la):
            kb = {x.arg for x in nb.keywords if x.arg}
            added = [x.arg for x in na.keywords if x.arg and x.arg not in kb]
            if added:
                res.append((nb, added))
    return res


def run_present_keyword_round(ctx, jobs, outs, prop="C07"):
    """Second round for C07 and C01: the keywords a hardening codemod adds are already spelled out on the call -- all of them, or
    only some (a prefix, a suffix, the first, the last of the list it adds), with a value it does not expect (None / a name):
    whatever the first run makes of it, the file must still parse (no keyword twice) and a second run must leave it alone."""
    derived = {}
    for job, o in zip(jobs, outs):
        if o.get("worker_error"):
            continue
        for s in o["subprojects"]:
            if s["error"] or s["tool"] is not None:
                continue
            for f, before in s["before"].items():
                a1 = s["after1"].get(f)
                if not f.endswith(".py") or a1 is None or a1 == before:
                    continue
                for node, added in _added_keywords(before, a1)[:2]:
                    blines = [l.encode("utf-8") for l in before.splitlines(keepends=True)]
                    pos = sum(len(b) for b in blines[:node.end_lineno - 1]) + node.end_col_offset - 1
                    data = before.encode("utf-8")
                    if data[pos:pos + 1] != b")":
                        continue
                    subsets = [("all", list(added))]
                    if len(added) >= 2:
                        subsets += [("prefix", added[:-1]), ("suffix", added[1:]), ("first", added[:1]), ("last", added[-1:])]
                    for which, keys in subsets:
                        for val in ("None", "DEFAULT_VALUE"):
                            if which != "all" and val == "DEFAULT_VALUE":
                                continue
                            ins = ", ".join(f"{k}={val}" for k in keys)
                            sep = "" if not (node.args or node.keywords) else ", "
                            text = (data[:pos] + (sep + ins).encode() + data[pos:]).decode("utf-8")
                            if val == "DEFAULT_VALUE":
                                text = "DEFAULT_VALUE = None\n" + text if not text.startswith("from __future__") else text
                            if e2e.parses(text):
                                lst = derived.setdefault(o["codemod"], [])
                                if len(lst) < (8 if ctx.quick() else 24) and text not in [t for _, t in lst]:
                                    lst.append((f"present_keyword_{which}_{val}", text))
    jobs2 = []
    for cm, lst in sorted(derived.items()):
        files = {f"k{i}.py": t for i, (_, t) in enumerate(lst)}
        meta = {f"k{i}.py": {"variant": lab} for i, (lab, _) in enumerate(lst)}
        jobs2.append({"codemod": cm, "subprojects": [{"files": files, "meta": meta, "tool": None, "results": None}]})
    if not jobs2:
        return
    for job, o in zip(jobs2, e2e.run_jobs(ctx, jobs2)):
        cm = o["codemod"]
        if o.get("worker_error"):
            continue
        for s in o["subprojects"]:
            if s["error"]:
                continue
            for f, before in s["before"].items():
                a1, a2 = s["after1"].get(f), s["after2"].get(f)
                if not f.endswith(".py") or a1 is None:
                    continue
                variant = s["meta"].get(f, {}).get("variant", "?")
                ctx.count(f"variant:{variant}")
                ctx.case({"codemod": cm, "variant": variant, "before": before[:400], "after": a1[:400]},
                         nontrivial_key=(cm, before) if a1 != before else None, sample=a1 != before)
                if prop == "C07" and a2 != a1:
                    ctx.violation(classify("C07", cm, before, a1, a2), f"second run of {cm} changed the file again (variant {variant})",
                                  {"codemod": cm, "filename": f, "variant": variant, "before": before, "after_first_run": a1,
                                   "after_second_run": a2, "expected": "run(run(P)) == run(P)"})
                if prop == "C01" and a1 != before and not e2e.parses(a1):
                    ctx.violation(classify("C01", cm, before, a1, a2), f"{cm} left a file that no longer parses (variant {variant})",
                                  {"codemod": cm, "filename": f, "variant": variant, "before": before, "after_first_run": a1,
                                   "expected": "the rewritten file parses"})


def _added_imports(before: str, after: str):
    """import statements (source text, single line) present at module level after the run but not before"""
    import ast
    try:
        tb, ta = ast.parse(before), ast.parse(after)
    except (SyntaxError, ValueError):
        return []
    have = {ast.dump(n) for n in tb.body if isinstance(n, (ast.Import, ast.ImportFrom))}
    out = []
    for n in ta.body:
        if isinstance(n, (ast.Import, ast.ImportFrom)) and ast.dump(n) not in have:
            seg = ast.get_source_segment(after, n)
            if seg and "\n" not in seg and getattr(n, "module", "") != "__future__":
                out.append(seg)
    return out


def run_local_import_round(ctx, jobs, outs):
    """Second round for C02: the import a codemod adds already exists in the file, but only as a function-local (or
    class-body) import elsewhere — the module-level name must still be bound after the rewrite."""
    derived = {}
    for job, o in zip(jobs, outs):
        if o.get("worker_error"):
            continue
        for s in o["subprojects"]:
            if s["error"] or s["tool"] is not None:
                continue
            for f, before in s["before"].items():
                a1 = s["after1"].get(f)
                if not f.endswith(".py") or a1 is None or a1 == before:
                    continue
                imps = _added_imports(before, a1)
                if not imps:
                    continue
                body = "".join(f"    {i}\n" for i in imps)
                base = before if before.endswith("\n") else before + "\n"
                for label, text in (("local_import_in_function", base + "\n\ndef _local_import_holder():\n" + body + "    return None\n"),
                                    ("local_import_in_class", base + "\n\nclass _LocalImportHolder:\n" + body + "    attr = None\n")):
                    if e2e.parses(text):
                        lst = derived.setdefault(o["codemod"], [])
                        if len(lst) < (4 if ctx.quick() else 16):
                            lst.append((label, text))
    jobs2 = []
    for cm, lst in sorted(derived.items()):
        files = {f"d{i}.py": t for i, (_, t) in enumerate(lst)}
        meta = {f"d{i}.py": {"variant": lab} for i, (lab, _) in enumerate(lst)}
        jobs2.append({"codemod": cm, "subprojects": [{"files": files, "meta": meta, "tool": None, "results": None}]})
    if not jobs2:
        return
    for job, o in zip(jobs2, e2e.run_jobs(ctx, jobs2)):
        cm = o["codemod"]
        if o.get("worker_error"):
            continue
        for s in o["subprojects"]:
            if s["error"]:
                continue
            for f, before in s["before"].items():
                a1 = s["after1"].get(f)
                if not f.endswith(".py") or a1 is None:
                    continue
                variant = s["meta"].get(f, {}).get("variant", "?")
                changed = a1 != before
                ctx.count(f"variant:{variant}")
                ctx.case({"codemod": cm, "variant": variant, "before": before[:400], "after": a1[:400]},
                         nontrivial_key=(cm, before) if changed else None, sample=changed)
                if changed:
                    ub, ua = e2e.unresolved(before), e2e.unresolved(a1)
                    if ub is not None and ua is not None and not ua <= ub:
                        ctx.violation(classify("C02", cm, before, a1, None),
                                      f"{cm} introduced unresolved names {sorted(ua - ub)} (variant {variant})",
                                      {"codemod": cm, "filename": f, "variant": variant, "before": before, "after_first_run": a1,
                                       "new_unresolved": sorted(ua - ub), "expected": "unresolved(after) is a subset of unresolved(before)"})


def run_line_filter_round(ctx, jobs, outs, prop):
    """Second round for C01/C02: the same programs twice in one file, run with a `path:line` exclude (and, separately, include)
    naming the line of ONE reported change.  Whatever a codemod does with line filters (C13's matter), what it leaves on disk
    must still parse and bind its names: a transformer that honours the filter in one visitor method and not in another
    (the assignment removed, the `if` left alone) shows up here and nowhere else."""
    derived = {}
    for job, o in zip(jobs, outs):
        if o.get("worker_error"):
            continue
        for s in o["subprojects"]:
            if s["error"] or s["tool"] is not None:
                continue
            changes = {c["path"]: [ch["lineNumber"] for ch in c.get("changes", [])] for c in s["pass1"]["report"].get("changeset", [])}
            for f, before in s["before"].items():
                lines = sorted(set(changes.get(f, [])))
                if not f.endswith(".py") or not lines or s["after1"].get(f) in (None, before):
                    continue
                base = before if before.endswith("\n") else before + "\n"
                text = base + "\n" + base
                if not e2e.parses(text):
                    continue
                # programs that were clean in the first round come first: a program that already shows a known finding
                # would absorb whatever the line filter adds
                a1 = s["after1"].get(f)
                ub, ua = e2e.unresolved(before), e2e.unresolved(a1)
                clean = e2e.parses(a1) and ub is not None and ua is not None and ua <= ub
                derived.setdefault(o["codemod"], []).append((not clean, len(text), text, lines[0], lines[0] + base.count("\n") + 1))
                # the same two copies, each inside its own function: a name bound by one copy does not resolve in the other
                # (the oracle is flow-insensitive: at module level the second copy's binding would hide a loss in the first)
                import textwrap
                n = base.count("\n")
                ftext = "def _first_copy():\n" + textwrap.indent(base, "    ") + "\ndef _second_copy():\n" + textwrap.indent(base, "    ")
                if e2e.parses(ftext):
                    derived[o["codemod"]].append((not clean, len(text), ftext, lines[0] + 1, lines[0] + n + 3))
    jobs2 = []
    for cm, cands in sorted(derived.items()):
        lst = [(t, l1, l2) for (_, _, t, l1, l2) in sorted(cands)[: (4 if ctx.quick() else 9)]]
        subs = []
        for i, (text, l1, l2) in enumerate(lst):
            for label, inc, exc in (("line_excluded_first", (), (f"d{i}.py:{l1}",)), ("line_excluded_second", (), (f"d{i}.py:{l2}",)),
                                    ("line_included_first", (f"d{i}.py:{l1}",), ())):
                subs.append({"files": {f"d{i}.py": text}, "meta": {f"d{i}.py": {"variant": label}}, "tool": None, "results": None,
                             "path_include": list(inc), "path_exclude": list(exc)})
        for k in range(0, len(subs), 9):          # small jobs: each subproject costs two applications of the codemod
            jobs2.append({"codemod": cm, "subprojects": subs[k:k + 9]})
    if not jobs2:
        return
    for job, o in zip(jobs2, e2e.run_jobs(ctx, jobs2, timeout=2400)):
        cm = o["codemod"]
        if o.get("worker_error"):
            ctx.mismatch("e2e worker", f"worker failed for {cm} (line-filter round)", {"codemod": cm, "error": o["worker_error"][-500:]})
            continue
        for s, sub in zip(o["subprojects"], job["subprojects"]):
            if s["error"]:
                ctx.mismatch("e2e run of " + cm, "codemod.apply raised in the line-filter round", {"codemod": cm, "error": s["error"][-800:]})
                continue
            for f, before in s["before"].items():
                a1 = s["after1"].get(f)
                if not f.endswith(".py") or a1 is None:
                    continue
                variant = s["meta"].get(f, {}).get("variant", "?")
                changed = a1 != before
                ctx.count(f"variant:{variant}")
                ctx.case({"codemod": cm, "variant": variant, "before": before[:400], "after": a1[:400]},
                         nontrivial_key=(cm, variant, before) if changed else None, sample=False)
                if not changed:
                    continue
                replay = {"codemod": cm, "filename": f, "variant": variant, "before": before, "after_first_run": a1,
                          "path_include": sub["path_include"], "path_exclude": sub["path_exclude"]}
                if prop == "C01" and not e2e.parses(a1):
                    ctx.violation(classify("C01", cm, before, a1, None), f"{cm} left a file that no longer parses (variant {variant})",
                                  {**replay, "expected": "the rewritten file parses"})
                if prop == "C02":
                    ub, ua = e2e.unresolved(before), e2e.unresolved(a1)
                    if ub is not None and ua is not None and not ua <= ub:
                        ctx.violation(classify("C02", cm, before, a1, None),
                                      f"{cm} introduced unresolved names {sorted(ua - ub)} (variant {variant})",
                                      {**replay, "new_unresolved": sorted(ua - ub), "expected": "unresolved(after) is a subset of unresolved(before)"})


def replay(ctx: core.Ctx, body, prop):
    job = {"codemod": body["codemod"], "subprojects": [{"files": {body["filename"]: body["before"]}, "meta": {}, "tool": body.get("tool"),
                                                        "results": body.get("results"), "path_include": body.get("path_include"),
                                                        "path_exclude": body.get("path_exclude")}]}
    o = e2e.run_jobs(ctx, [job])[0]
    s = o["subprojects"][0]
    print("error:", s.get("error"))
    print("after first run :", repr(s.get("after1", {}).get(body["filename"])))
    print("after second run:", repr(s.get("after2", {}).get(body["filename"])))
    print("expected:", body.get("expected"))
    return 0


# ------------------------------------------------------------------------------------------------
# sequences K1;K2(;K3) in ONE real CLI run on files that trigger several codemods (C01 / C02: "alone or in sequence")
# ------------------------------------------------------------------------------------------------
def _concat_ok(a: str, b: str):
    head_b, body_b = e2e._split_future(b)
    if "from __future__" in head_b:
        return None
    text = (a if a.endswith("\n") else a + "\n") + "\n" + b
    return text if e2e.parses(text) else None


def run_sequences(ctx: core.Ctx, prop: str, n_projects: int):
    import json as _json
    from concurrent.futures import ThreadPoolExecutor
    rng = ctx.rng
    seeds = [s for s in e2e.load_seeds() if s["expect_change"] and s["tool"] is None and s["filename"] == "code.py"
             and s["codemod"].startswith("pixee:") and not s.get("lines_to_exclude")]
    by = {}
    for s in seeds:
        by.setdefault(s["codemod"], []).append(s)
    ids = sorted(by)
    projects = []
    for i in range(n_projects):
        k = rng.choice([2, 2, 3])
        cms = rng.sample(ids, k)
        files = {}
        # one file per codemod plus one file concatenating all triggers
        texts = [rng.choice(by[c])["code"] for c in cms]
        for j, t in enumerate(texts):
            files[f"pkg/m{j}.py"] = t
        cat = texts[0]
        for t in texts[1:]:
            c2 = _concat_ok(cat, t)
            if c2:
                cat = c2
        files["pkg/all_in_one.py"] = cat
        files["requirements.txt"] = "requests==2.31.0\n"
        order = list(cms)
        rng.shuffle(order)
        projects.append((order, files))

    def one(idx_proj):
        idx, (order, files) = idx_proj
        root = ctx.scratch / f"seq{idx}"
        root.mkdir()
        core.write_tree(root, files)
        out = ctx.scratch / f"seq{idx}.codetf.json"
        r = core.run_cli([str(root), "--codemod-include", ",".join(order), "--output", str(out)], timeout=600)
        after = core.read_tree(root)
        rep = None
        if out.exists():
            try:
                rep = _json.loads(out.read_text())
            except Exception:
                rep = None
        return order, files, r, after, rep

    with ThreadPoolExecutor(max_workers=8) as ex:
        results = list(ex.map(one, enumerate(projects)))
    for order, files, r, after, rep in results:
        ctx.cli_runs += 1
        ctx.count(f"sequence_len:{len(order)}")
        if r["rc"] != 0:
            ctx.notes.append(f"sequence {order}: CLI exit {r['rc']}: {r['stderr'][-200:]}")
            ctx.mismatch("e2e sequence run", f"CLI exit {r['rc']} for sequence {order}: nothing observed",
                         {"sequence": order, "stderr": r["stderr"][-800:]})
            continue
        executed = [x["codemod"] for x in (rep or {}).get("results", [])]
        for f, before in files.items():
            if not f.endswith(".py"):
                continue
            a = after.get(f, b"").decode("utf-8", errors="replace")
            changed = a != before
            ctx.case({"sequence": order, "file": f, "before": before[:300], "after": a[:300]},
                     nontrivial_key=("seq", tuple(order), before) if changed else None, sample=changed and f.endswith("all_in_one.py"))
            replay = {"sequence": order, "files": files, "filename": f, "after": a, "executed": executed}
            if prop == "C01" and changed and e2e.parses(before) and not e2e.parses(a):
                ctx.violation("unlisted_C01_sequence_" + "+".join(x.split("/")[-1] for x in order),
                              f"sequence {order} left {f} unparseable", {**replay, "expected": "compile(after) succeeds"})
            if prop == "C02" and changed:
                ub, ua = e2e.unresolved(before), e2e.unresolved(a)
                if ub is not None and ua is not None and not ua <= ub:
                    ctx.violation("unlisted_C02_sequence_" + "+".join(x.split("/")[-1] for x in order),
                                  f"sequence {order} introduced unresolved names {sorted(ua - ub)} in {f}",
                                  {**replay, "new_unresolved": sorted(ua - ub), "expected": "unresolved(after) subset of unresolved(before)"})
