import libcst as cst

from codemodder.codemods.libcst_transformer import (
    LibcstResultTransformer,
    LibcstTransformerPipeline,
    NewArg,
)
from codemodder.codemods.utils import is_zero
from codemodder.codemods.utils_mixin import NameAndAncestorResolutionMixin
from core_codemods.api import Metadata, Reference, ReviewGuidance
from core_codemods.api.core_codemod import CoreCodemod


class FixMathIsCloseTransformer(
    LibcstResultTransformer,
    NameAndAncestorResolutionMixin,
):
    change_description = "Add `abs_tol` to `math.isclose` call"

    def leave_Call(self, original_node: cst.Call, updated_node: cst.Call):
        if (
            not self.node_is_selected(original_node)
            or self.find_base_name(original_node.func) != "math.isclose"
            or len(original_node.args) < 2
        ):
            return updated_node

        if self.at_least_one_zero_arg(original_node.args):
            for arg in original_node.args[2:]:
                match arg:
                    case cst.Arg(keyword=cst.Name(value="abs_tol")) as matched_arg:
                        # A `abs_tol` kwarg set to not 0 is acceptable if comparing to 0
                        if not is_zero(matched_arg.value):
                            return updated_node

            new_args = self.replace_args(
                original_node,
                [NewArg(name="abs_tol", value="1e-09", add_if_missing=True)],
            )

            self.report_change(original_node)
            return self.update_arg_target(updated_node, new_args)

        return updated_node

    def at_least_one_zero_arg(self, original_args: list[cst.Arg]):
        first_arg = self.resolve_expression(original_args[0].value)
        second_arg = self.resolve_expression(original_args[1].value)
        return is_zero(first_arg) or is_zero(second_arg)


FixMathIsClose = CoreCodemod(
    metadata=Metadata(
        name="fix-math-isclose",
        summary="Add `abs_tol` to `math.isclose` Call",
        review_guidance=ReviewGuidance.MERGE_AFTER_REVIEW,
        references=[
            Reference(url="https://docs.python.org/3/library/math.html#math.isclose"),
        ],
    ),
    transformer=LibcstTransformerPipeline(FixMathIsCloseTransformer),
    detector=None,
)
