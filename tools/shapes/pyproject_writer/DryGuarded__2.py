class PyprojectWriter:
    def add_to_file(
        self, dependencies: list[Dependency], dry_run: bool = False
    ) -> Optional[ChangeSet]:
        pyproject = self._parse_file()
        original = deepcopy(pyproject)

        if pyproject.get("tool", {}).get("poetry", {}):
            # It's unlikely and bad practice to declare dependencies under [project].dependencies
            # and [tool.poetry.dependencies] but if it happens, we will give priority to poetry
            # and add dependencies under its system.
            self._update_poetry(pyproject, dependencies)
        else:
            try:
                pyproject["project"]["dependencies"].extend(
                    [f"{dep.requirement}" for dep in dependencies]
                )
            except tomlkit.exceptions.NonExistentKey:
                logger.debug("Unable to add dependencies to pyproject.toml file.")
                return None

        diff, added_line_nums = create_diff_and_linenums(
            tomlkit.dumps(original).split("\n"), tomlkit.dumps(pyproject).split("\n")
        )

        if not diff:
            # Nothing was added: every dependency is already present in the document,
            # e.g. a poetry entry whose version (`*`, a table) the store could not parse.
            logger.debug("No dependencies to add to pyproject.toml file.")
            return None

        if not dry_run:
            with open(self.path, "w", encoding="utf-8") as f:
                tomlkit.dump(pyproject, f)

        changes = self.build_changes(
            dependencies, added_line_nums_strategy, added_line_nums
        )
        return ChangeSet(
            path=str(self.path.relative_to(self.parent_directory)),
            diff=diff,
            changes=changes,
        )
    def _parse_file(self):
        with open(self.path, encoding="utf-8") as f:
            return tomlkit.load(f)
