(** Reference definitions of what C14 demands of a manifest update, independent of how the writers do it. *)
From CM Require Export Model.Manifest.

(** Which of the requested dependencies are needed: those whose PEP 503 canonical name is not declared yet,
    each name once (first request wins). [seen] = canonical names already declared. *)
Fixpoint needed_spec (seen : list str) (deps : list dep) : list dep :=
  match deps with
  | [] => []
  | d :: r =>
      let k := canon (dname d) in
      if mem_str k seen then needed_spec seen r else d :: needed_spec (k :: seen) r
  end.

(** A text file keeps its content; only a missing final newline is supplied. *)
Definition ensure_final_lf (t : str) : str :=
  match t with [] => [] | _ => if ends_lf t then t else t ++ [LF] end.

(** requirements.txt after the update: the old text byte for byte (plus a missing final newline), then one line
    per needed dependency. *)
Definition req_after_spec (text : str) (needed : list dep) : str :=
  ensure_final_lf text ++ concat (req_lines needed).

(** setup.cfg after the update, in lines: [k] is the index of the LAST line of the value of
    [options] install_requires (newline-separated form); the new lines follow it with its indentation;
    everything before and after is untouched. *)
Definition cfg_after_spec (orig : list str) (k : nat) (needed : list dep) : list str :=
  firstn (S k) orig ++ map (fun d => leading_ws (nth k orig []) ++ dline d ++ [LF]) needed ++ skipn (S k) orig.

(** The guard of C14_cfg_insert_after_last: no earlier line has the same stripped text as line [k]. *)
Definition unique_stripped (orig : list str) (k : nat) : bool :=
  forallb (fun l => negb (str_eqb (strip l) (strip (nth k orig [])))) (firstn k orig).

(** How many of [l] carry the same compared name as [n]. *)
Definition count_name (v : name_cmp) (n : str) (l : list dep) : nat :=
  length (List.filter (fun e => str_eqb (name_key v (dname e)) (name_key v n)) l).

(** Decidable guards on the inputs. *)
Definition no_cr (s : str) : bool := negb (existsb (N.eqb CR) s).
Definition no_nl (s : str) : bool := negb (existsb (fun c => N.eqb c CR || N.eqb c LF) s).
