# src/codemodder/result.py at the commit the model was written against (shape reference; not executed)
class ResultSet:
    def results_for_rule_and_file(
        self, context: CodemodExecutionContext, rule_id: str, file: Path
    ) -> list[Result]:
        """
        Return list of results for a given rule and file.

        :param context: The codemod execution context
        :param rule_id: The rule ID
        :param file: The filename

        Some implementers may need to use the context to compute paths that are relative to the target directory.
        """
        return self.get(rule_id, {}).get(file.relative_to(context.directory), [])

    def add_result(self, result: Result):
        for loc in result.locations:
            self.setdefault(result.rule_id, {}).setdefault(loc.file, []).append(result)

class SarifResult:
    @classmethod
    def extract_rule_id(cls, result, sarif_run, truncate_rule_id: bool = False) -> str:
        if rule_id := result.get("ruleId"):
            return rule_id.split(".")[-1] if truncate_rule_id else rule_id

        # it may be contained in the 'rule' field through the tool component in the sarif file
        if "rule" in result:
            tool_index = result["rule"]["toolComponent"]["index"]
            rule_index = result["rule"]["index"]
            return sarif_run["tool"]["extensions"][tool_index]["rules"][rule_index][
                "id"
            ]

        raise ValueError("Could not extract rule id from sarif result.")

def same_line(pos: CodeRange, location: Location) -> bool:
    return pos.start.line == location.start.line and pos.end.line == location.end.line

def fuzzy_column_match(pos: CodeRange, location: Location) -> bool:
    """Checks that a result location is within the range of node's `pos` position"""
    return (
        pos.start.column <= location.start.column <= pos.end.column + 1
        and pos.start.column <= location.end.column <= pos.end.column + 1
    )

