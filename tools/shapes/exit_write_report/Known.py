class CodeTF:
    def write_report(self, outfile):
        try:
            with open(outfile, "w", encoding="utf-8") as f:
                f.write(self.model_dump_json(exclude_none=True))
        except Exception:
            logger.exception("failed to write report file.")
            # Any issues with writing the output file should exit status 2.
            return 2
        logger.debug("wrote report to %s", outfile)
        return 0
