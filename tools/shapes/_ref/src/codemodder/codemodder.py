import datetime
import itertools
import logging
import os
import sys
from pathlib import Path
from typing import DefaultDict, Sequence

from codemodder import __version__, providers, registry
from codemodder.cli import parse_args
from codemodder.codemods.api import BaseCodemod
from codemodder.codemods.semgrep import SemgrepRuleDetector
from codemodder.codetf import CodeTF
from codemodder.context import CodemodExecutionContext
from codemodder.dependency import Dependency
from codemodder.llm import MisconfiguredAIClient
from codemodder.logging import configure_logger, log_list, log_section, logger
from codemodder.project_analysis.file_parsers.package_store import PackageStore
from codemodder.project_analysis.python_repo_manager import PythonRepoManager
from codemodder.result import ResultSet
from codemodder.sarifs import DuplicateToolError, detect_sarif_tools
from codemodder.semgrep import run as run_semgrep


def find_semgrep_results(
    context: CodemodExecutionContext,
    codemods: Sequence[BaseCodemod],
    files_to_analyze: list[Path] | None = None,
) -> ResultSet:
    """Run semgrep once with all configuration files from all codemods and return a set of applicable rule IDs"""
    if not (
        yaml_files := list(
            itertools.chain.from_iterable(
                [
                    codemod.detector.get_yaml_files(codemod._internal_name)
                    for codemod in codemods
                    if codemod.detector
                    and isinstance(codemod.detector, SemgrepRuleDetector)
                ]
            )
        )
    ):
        return ResultSet()

    return run_semgrep(context, yaml_files, files_to_analyze)


def log_report(context, argv, elapsed_ms, files_to_analyze):
    log_section("report")
    logger.info("scanned: %s files", len(files_to_analyze))
    all_failures = context.get_failed_files()
    logger.info(
        "failed: %s files (%s unique)",
        len(all_failures),
        len(set(all_failures)),
    )
    all_changes = context.get_changed_files()
    logger.info(
        "changed: %s files (%s unique)",
        len(all_changes),
        len(set(all_changes)),
    )
    logger.info("report file: %s", argv.output)
    logger.info("total elapsed: %s ms", elapsed_ms)
    logger.info("  semgrep:     %s ms", context.timer.get_time_ms("semgrep"))
    logger.info("  parse:       %s ms", context.timer.get_time_ms("parse"))
    logger.info("  transform:   %s ms", context.timer.get_time_ms("transform"))
    logger.info("  write:       %s ms", context.timer.get_time_ms("write"))


def apply_codemods(
    context: CodemodExecutionContext,
    codemods_to_run: Sequence[BaseCodemod],
):
    log_section("scanning")

    if not context.files_to_analyze:
        logger.info("no files to scan")
        return

    if not codemods_to_run:
        logger.info("no codemods to run")
        return

    # run codemods one at a time making sure to respect the given sequence
    for codemod in codemods_to_run:
        # NOTE: this may be used as a progress indicator by upstream tools
        logger.info("running codemod %s", codemod.id)
        codemod.apply(context)
        record_dependency_update(context.process_dependencies(codemod.id))
        context.log_changes(codemod.id)


def record_dependency_update(dependency_results: dict[Dependency, PackageStore | None]):
    # TODO populate dependencies in CodeTF here
    inverse: dict[None | str, list[Dependency]] = {}
    for k, v in dependency_results.items():
        inv_key = str(v.file) if v else None
        if inv_key in inverse:
            inverse.get(inv_key, []).append(k)
        else:
            inverse[inv_key] = [k]

    for file in inverse.keys():
        str_list = str([d.requirement.name for d in inverse[file]])[2:-2]
        if file:
            logger.debug(
                "The following dependencies were added to '%s': %s", file, str_list
            )
        else:
            logger.debug("The following dependencies could not be added: %s", str_list)


def run(original_args) -> int:
    start = datetime.datetime.now()

    codemod_registry = registry.load_registered_codemods()
    provider_registry = providers.load_providers()

    # A little awkward, but we need the codemod registry in order to validate potential arguments
    argv = parse_args(original_args, codemod_registry)
    if not os.path.exists(argv.directory):
        logger.error(
            "given directory '%s' doesn't exist or can’t be read",
            argv.directory,
        )
        return 1

    configure_logger(argv.verbose, argv.log_format, argv.project_name)

    log_section("startup")
    logger.info("codemodder: python/%s", __version__)
    logger.info("command: %s %s", Path(sys.argv[0]).name, " ".join(original_args))

    try:
        # TODO: this should be dict[str, list[Path]]
        tool_result_files_map: DefaultDict[str, list[str]] = detect_sarif_tools(
            [Path(name) for name in argv.sarif or []]
        )
    except (DuplicateToolError, FileNotFoundError) as err:
        logger.error(err)
        return 1

    tool_result_files_map["sonar"].extend(argv.sonar_issues_json or [])
    tool_result_files_map["sonar"].extend(argv.sonar_hotspots_json or [])
    tool_result_files_map["defectdojo"] = argv.defectdojo_findings_json or []

    for file_name in itertools.chain(
        *tool_result_files_map.values(), argv.contrast_vulnerabilities_xml or []
    ):
        if not os.path.exists(file_name):
            logger.error(
                f"FileNotFoundError: [Errno 2] No such file or directory: '{file_name}'"
            )
            return 1

    repo_manager = PythonRepoManager(Path(argv.directory))

    try:
        context = CodemodExecutionContext(
            Path(argv.directory),
            argv.dry_run,
            argv.verbose,
            codemod_registry,
            provider_registry,
            repo_manager,
            argv.path_include,
            argv.path_exclude,
            tool_result_files_map,
            argv.max_workers,
        )
    except MisconfiguredAIClient as e:
        logger.error(e)
        return 3  # Codemodder instructions conflicted (according to spec)

    repo_manager.parse_project()

    # TODO: this should be a method of CodemodExecutionContext
    codemods_to_run = codemod_registry.match_codemods(
        argv.codemod_include,
        argv.codemod_exclude,
        sast_only=argv.sonar_issues_json or argv.sarif,
    )

    log_section("setup")
    log_list(logging.INFO, "running", codemods_to_run, predicate=lambda c: c.id)
    log_list(logging.INFO, "including paths", context.included_paths)
    log_list(logging.INFO, "excluding paths", argv.path_exclude)

    log_list(
        logging.DEBUG, "matched files", (str(path) for path in context.files_to_analyze)
    )

    context.semgrep_prefilter_results = find_semgrep_results(
        context,
        codemods_to_run,
        context.find_and_fix_paths,
    )

    apply_codemods(
        context,
        codemods_to_run,
    )

    elapsed = datetime.datetime.now() - start
    elapsed_ms = int(elapsed.total_seconds() * 1000)

    if argv.output:
        codetf = CodeTF.build(
            context,
            elapsed_ms,
            original_args,
            context.compile_results(codemods_to_run),
        )
        if codetf.write_report(argv.output) == 2:
            # Any issues with writing the output file should exit status 2.
            return 2

    log_report(
        context,
        argv,
        elapsed_ms,
        [] if not codemods_to_run else context.files_to_analyze,
    )
    return 0


def main():
    sys_argv = sys.argv[1:]
    sys.exit(run(sys_argv))
