From CM Require Import Model.Readers Spec.ReadersSpec.
Arguments jget : simpl never.

Lemma mapM_all {A B} (f : A -> option B) (g : A -> B) (P : A -> bool) l :
  (forall x, P x = true -> f x = Some (g x)) -> forallb P l = true -> mapM f l = Some (map g l).
Proof.
  intros H. induction l as [|x l IH]; simpl; intros Hall; [reflexivity|].
  apply andb_prop in Hall. destruct Hall as [Hx Hl]. rewrite (H x Hx), (IH Hl). reflexivity.
Qed.

Lemma j_or_arr (j : json) : (j = JNull \/ exists l, j = JArr l) -> j_or j (JArr []) = JArr (arr_or_empty j).
Proof. intros [->|[l ->]]; [reflexivity|]. destruct l; reflexivity. Qed.

Lemma wf_list_shape j : wf_list j = true -> (j = JNull \/ exists l, j = JArr l).
Proof. destruct j; simpl; try discriminate; eauto. Qed.

Lemma wf_list_forall j : wf_list j = true -> forallb wf_entry (arr_or_empty j) = true.
Proof. destruct j; simpl; try discriminate; auto. Qed.

Lemma sonar_entries_wf doc : wf_sonar doc = true ->
  sonar_entries IssuesPlusHotspots doc =
  Some (arr_or_empty (jget_or_null s_issues doc) ++ arr_or_empty (jget_or_null s_hotspots doc)).
Proof.
  unfold wf_sonar, sonar_entries. destruct doc; try discriminate. intros H.
  apply andb_prop in H. destruct H as [Hi Hh].
  rewrite (j_or_arr _ (wf_list_shape _ Hi)), (j_or_arr _ (wf_list_shape _ Hh)). reflexivity.
Qed.

(** the declarative shape of flows/message is exactly when building them does not raise *)
Lemma mapM_some_iff {A B} (f : A -> option B) l : is_some (mapM f l) = forallb (fun x => is_some (f x)) l.
Proof.
  induction l as [|x l IH]; simpl; [reflexivity|].
  destruct (f x); simpl; [|reflexivity]. rewrite <- IH. destruct (mapM f l); reflexivity.
Qed.

Lemma forallb_ext {A} (P Q : A -> bool) l : (forall x, P x = Q x) -> forallb P l = forallb Q l.
Proof. intros H. induction l as [|x l IH]; simpl; [reflexivity|]. now rewrite H, IH. Qed.

Lemma flow_location_exact l : is_some (flow_location l) = wf_flow_loc l.
Proof.
  unfold wf_flow_loc, flow_location, jget_or_null. destruct l; try reflexivity.
  destruct (jget s_textRange (JObj l)) as [[| | | | |t]|]; try reflexivity.
  destruct (jget s_component (JObj l)) as [[| | |c| |]|]; reflexivity.
Qed.

Lemma iter_exact {B} (P : json -> bool) (f : json -> option B) j :
  (forall x, is_some (f x) = P x) -> (forall s, P (JStr s) = false) ->
  is_some (match py_iter j with Some its => mapM f its | None => None end) = list_of P j.
Proof.
  intros H HS. unfold list_of, py_iter. destruct j as [| | |[|c cs]|l|[|kv kvs]]; try reflexivity.
  - cbn [map]. rewrite mapM_some_iff. cbn [forallb]. now rewrite H, HS.
  - rewrite mapM_some_iff. apply forallb_ext. exact H.
  - cbn [map]. rewrite mapM_some_iff. cbn [forallb]. now rewrite H, HS.
Qed.

Lemma flow_locations_exact f : is_some (flow_locations f) = wf_flow f.
Proof.
  unfold wf_flow, flow_locations. destruct f; try reflexivity.
  destruct (jget s_locations (JObj l)) as [ls|]; [|reflexivity].
  apply iter_exact; [exact flow_location_exact | reflexivity].
Qed.

Lemma all_flows_exact e : is_some (all_flows e) = wf_flows e.
Proof.
  unfold wf_flows, all_flows. destruct (jget s_flows e) as [fl|]; [|reflexivity].
  apply iter_exact; [exact flow_locations_exact | reflexivity].
Qed.

Lemma message_ok_exact e : message_ok e = wf_message e.
Proof.
  unfold wf_message, message_ok.
  destruct (jget s_message e) as [[|[|]|z|[|c m]|[|x l]|[|kv l]]|]; try reflexivity.
  simpl. destruct (Z.eqb z 0); reflexivity.
Qed.

Definition entry_spec (e : json) : list finding := if is_open e then sonar_finding_of e else [].

Ltac crunch :=
  repeat (unfold j_or; cbn [jtruthy negb jstr andb];
          match goal with
          | |- context [Z.eqb ?z 0] => destruct (Z.eqb z 0)
          | |- context [rule_has_colon ?r] => destruct (rule_has_colon r)
          end);
  unfold j_or; cbn [jtruthy negb jstr andb]; try reflexivity.

(** SonarResult.from_result raises exactly on the entries whose parts are not as [open_parts_ok] says *)
Lemma from_result_exact l :
  sonar_from_result (JObj l) = if open_parts_ok (JObj l) then Some (sonar_finding_of (JObj l)) else None.
Proof.
  unfold sonar_from_result, open_parts_ok.
  replace (match all_flows (JObj l) with Some _ => true | None => false end) with (is_some (all_flows (JObj l))) by reflexivity.
  rewrite all_flows_exact, message_ok_exact.
  destruct (wf_flows (JObj l)); [|rewrite !andb_false_r; reflexivity].
  destruct (wf_message (JObj l)); [|rewrite !andb_false_r; reflexivity].
  rewrite !andb_true_r. cbn [andb negb].
  unfold rule_ok, tr_ok, sonar_finding_of, sonar_rule, jget_or_null.
  destruct (jget s_rule (JObj l)) as [[|[|]|z|[|c r]|[|x a]|[|kv o]]|];
  destruct (jget s_ruleKey (JObj l)) as [[|[|]|z'|[|c' r']|[|x' a']|[|kv' o']]|];
  crunch;
  destruct (jget s_textRange (JObj l)) as [[|[|]|z''|[|c'' r'']|[|x'' a'']|[|[k v] t]]|];
  crunch;
  destruct (jget s_component (JObj l)) as [[| | |comp| |]|]; reflexivity.
Qed.

Lemma sonar_entry_exact e : sonar_entry e = if readable_entry e then Some (entry_spec e) else None.
Proof.
  unfold sonar_entry, readable_entry, entry_spec, status_open, is_open.
  destruct e as [| | | | |l]; try reflexivity.
  destruct (jget s_status (JObj l)) as [[| | |s| |]|]; try reflexivity.
  destruct (str_eqb (lower_ascii s) s_open || str_eqb (lower_ascii s) s_to_review); [|reflexivity].
  apply from_result_exact.
Qed.

Lemma wf_readable e : wf_entry e = true -> readable_entry e = true.
Proof.
  unfold wf_entry, readable_entry. destruct e; try discriminate.
  destruct (jget s_status (JObj l)) as [[| | |s| |]|]; try discriminate.
  intros H. rewrite H. destruct (is_open (JObj l)); reflexivity.
Qed.

Lemma sonar_entry_wf e : wf_entry e = true -> sonar_entry e = Some (entry_spec e).
Proof. intros H. rewrite sonar_entry_exact, (wf_readable _ H). reflexivity. Qed.

Theorem sonar_reader_spec doc : wf_sonar doc = true -> sonar_reader IssuesPlusHotspots doc = sonar_spec doc.
Proof.
  intros H. unfold sonar_reader, sonar_spec. rewrite (sonar_entries_wf _ H).
  assert (Hall : forallb wf_entry (arr_or_empty (jget_or_null s_issues doc) ++ arr_or_empty (jget_or_null s_hotspots doc)) = true).
  { unfold wf_sonar in H. destruct doc; try discriminate. apply andb_prop in H. destruct H as [Hi Hh].
    rewrite forallb_app, (wf_list_forall _ Hi), (wf_list_forall _ Hh). reflexivity. }
  rewrite (mapM_all sonar_entry entry_spec wf_entry _ sonar_entry_wf Hall).
  rewrite flat_map_concat_map. reflexivity.
Qed.

(** The pinned expression ignores hotspots whenever issues is non-empty. *)
Definition w_issue (key : N) : json :=
  JObj [(s_rule, JStr [112;58;83;49]%N); (s_status, JStr [79;80;69;78]%N); (s_key, JStr [key]);
        (s_component, JStr [112;58;97]%N);
        (s_textRange, JObj [(s_startLine, JNum 1); (s_endLine, JNum 1); (s_startOffset, JNum 0); (s_endOffset, JNum 2)])].
Definition w_doc : json := JObj [(s_issues, JArr [w_issue 65]); (s_hotspots, JArr [w_issue 66])].

Lemma sonar_pinned_refuted : wf_sonar w_doc = true /\ sonar_reader IssuesOrElse w_doc <> sonar_spec w_doc.
Proof. split; [vm_compute; reflexivity | vm_compute; discriminate]. Qed.

Lemma sonar_spec_example : length (sonar_spec w_doc) = 2.
Proof. vm_compute. reflexivity. Qed.

(** Per-entry isolation: on ANY document whose container has the right shape, the reader files exactly every open
    issue and hotspot that is individually readable; malformed entries cost only themselves. *)
Lemma wf_seq_or j : wf_seq j = true -> j_or j (JArr []) = JArr (arr_or_empty j).
Proof.
  unfold wf_seq, j_or. destruct j as [|[|]|z|[|c s]|[|x l]|[|kv l]]; simpl; try discriminate; try reflexivity.
  destruct (Z.eqb z 0); simpl; [reflexivity|discriminate].
Qed.

Lemma sonar_entries_container doc : wf_container doc = true ->
  sonar_entries IssuesPlusHotspotsPerEntry doc =
  Some (arr_or_empty (jget_or_null s_issues doc) ++ arr_or_empty (jget_or_null s_hotspots doc)) /\
  sonar_entries IssuesPlusHotspots doc =
  Some (arr_or_empty (jget_or_null s_issues doc) ++ arr_or_empty (jget_or_null s_hotspots doc)).
Proof.
  unfold wf_container, sonar_entries. destruct doc; try discriminate. intros H.
  apply andb_prop in H. destruct H as [Hi Hh].
  rewrite (wf_seq_or _ Hi), (wf_seq_or _ Hh). split; reflexivity.
Qed.

Theorem sonar_reader_robust doc :
  wf_container doc = true -> sonar_reader IssuesPlusHotspotsPerEntry doc = sonar_spec_robust doc.
Proof.
  intros H. unfold sonar_reader, sonar_spec_robust. rewrite (proj1 (sonar_entries_container _ H)).
  induction (arr_or_empty (jget_or_null s_issues doc) ++ arr_or_empty (jget_or_null s_hotspots doc)) as [|e es IH];
    [reflexivity|].
  cbn [flat_map]. rewrite IH, sonar_entry_exact. unfold entry_spec.
  destruct (readable_entry e); [|reflexivity]. destruct (is_open e); reflexivity.
Qed.

Lemma wf_sonar_container doc : wf_sonar doc = true -> wf_container doc = true.
Proof.
  unfold wf_sonar, wf_container. destruct doc; try discriminate. intros H.
  apply andb_prop in H. destruct H as [Hi Hh].
  assert (W : forall j, wf_list j = true -> wf_seq j = true) by (intros j; destruct j; simpl; try discriminate; reflexivity).
  now rewrite (W _ Hi), (W _ Hh).
Qed.

Lemma sonar_spec_robust_wf doc : wf_sonar doc = true -> sonar_spec_robust doc = sonar_spec doc.
Proof.
  intros H. unfold sonar_spec_robust, sonar_spec.
  assert (Hall : forallb wf_entry (arr_or_empty (jget_or_null s_issues doc) ++ arr_or_empty (jget_or_null s_hotspots doc)) = true).
  { unfold wf_sonar in H. destruct doc; try discriminate. apply andb_prop in H. destruct H as [Hi Hh].
    rewrite forallb_app, (wf_list_forall _ Hi), (wf_list_forall _ Hh). reflexivity. }
  induction (arr_or_empty (jget_or_null s_issues doc) ++ arr_or_empty (jget_or_null s_hotspots doc)) as [|e es IH];
    [reflexivity|].
  cbn [forallb] in Hall. apply andb_prop in Hall. destruct Hall as [He Hes].
  cbn [flat_map]. rewrite (IH Hes), (wf_readable _ He). reflexivity.
Qed.

Theorem sonar_reader_spec_per_entry doc :
  wf_sonar doc = true -> sonar_reader IssuesPlusHotspotsPerEntry doc = sonar_spec doc.
Proof. intros H. rewrite (sonar_reader_robust _ (wf_sonar_container _ H)). now apply sonar_spec_robust_wf. Qed.

(** the per-file form loses a well-formed open issue when ANOTHER entry of the file is malformed
    (here: a code-flow location without textRange) *)
Definition w_issue_badflow : json :=
  JObj [(s_rule, JStr [112;58;83;50]%N); (s_status, JStr [79;80;69;78]%N); (s_key, JStr [67]%N);
        (s_component, JStr [112;58;98]%N);
        (s_flows, JArr [JObj [(s_locations, JArr [JObj [(s_component, JStr [112;58;98]%N)]])]])].
Definition w_doc_mal : json := JObj [(s_issues, JArr [w_issue 65; w_issue_badflow])].

Lemma sonar_perfile_refuted :
  wf_container w_doc_mal = true /\ length (sonar_spec_robust w_doc_mal) = 1 /\
  sonar_reader IssuesPlusHotspots w_doc_mal = [].
Proof. repeat split; vm_compute; reflexivity. Qed.
