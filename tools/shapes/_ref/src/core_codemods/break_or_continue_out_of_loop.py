from typing import Union

import libcst as cst
from libcst.codemod import CodemodContext

from codemodder.codemods.base_codemod import Metadata, ReviewGuidance
from codemodder.codemods.libcst_transformer import (
    LibcstResultTransformer,
    LibcstTransformerPipeline,
)
from codemodder.codemods.utils_mixin import AncestorPatternsMixin
from codemodder.codetf import Reference
from codemodder.file_context import FileContext
from codemodder.result import Result
from core_codemods.api.core_codemod import CoreCodemod


class BreakOrContinueOutOfLoopTransformer(
    LibcstResultTransformer, AncestorPatternsMixin
):

    change_description = "Removed break or continue statement out of loop."

    def __init__(
        self,
        context: CodemodContext,
        results: list[Result] | None,
        file_context: FileContext,
        _transformer: bool = False,
    ):
        self.elses_to_check: set[cst.Else] = set()
        super().__init__(context, results, file_context, _transformer)

    def _handle_break_or_continue(
        self,
        original_node: cst.Break | cst.Continue,
        updated_node: cst.Break | cst.Continue,
    ):
        ancestors = self.path_to_root(original_node)

        # is it inside a for or while ?
        maybe_loop_ancestor = next(
            filter(lambda n: isinstance(n, cst.For | cst.While), ancestors), None
        )
        match maybe_loop_ancestor:
            # ensure it is not insde the else block of a while/for
            case cst.For() | cst.While() as loop:
                if loop.orelse not in ancestors:
                    return updated_node

        self.report_change(original_node)

        # is it directly inside an else body?
        maybe_else_ancestor = next(
            filter(lambda n: isinstance(n, cst.Else), ancestors), None
        )
        match maybe_else_ancestor:
            case cst.Else() as else_node:
                for node in else_node.body.body:
                    if node == original_node:
                        self.elses_to_check.add(else_node)
                    else:
                        match node:
                            case cst.SimpleStatementLine(body=[original_node]):
                                self.elses_to_check.add(else_node)

        return cst.RemovalSentinel.REMOVE

    def leave_Break(self, original_node: cst.Break, updated_node: cst.Break) -> Union[
        cst.BaseSmallStatement,
        cst.FlattenSentinel[cst.BaseSmallStatement],
        cst.RemovalSentinel,
    ]:
        return self._handle_break_or_continue(original_node, updated_node)

    def leave_Else(self, original_node, updated_node):
        match original_node:
            case cst.Else() if original_node in self.elses_to_check:
                match updated_node.body.body:
                    case []:
                        return cst.RemovalSentinel.REMOVE
        return updated_node

    def leave_Continue(
        self, original_node: cst.Continue, updated_node: cst.Continue
    ) -> Union[
        cst.BaseSmallStatement,
        cst.FlattenSentinel[cst.BaseSmallStatement],
        cst.RemovalSentinel,
    ]:
        return self._handle_break_or_continue(original_node, updated_node)


BreakOrContinueOutOfLoop = CoreCodemod(
    metadata=Metadata(
        name="break-or-continue-out-of-loop",
        summary="Removed break or continue statement out of loop",
        review_guidance=ReviewGuidance.MERGE_AFTER_REVIEW,
        references=[
            Reference(
                url="https://pylint.readthedocs.io/en/stable/user_guide/messages/error/not-in-loop.html"
            ),
        ],
    ),
    transformer=LibcstTransformerPipeline(BreakOrContinueOutOfLoopTransformer),
    detector=None,
)
