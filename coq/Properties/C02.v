(** C02 — rewrites never introduce unbound names or drop bindings still in use.
    Full statement: for all codemods K and programs P: unresolved(run_K(P)) is a subset of unresolved(P).
    What is proved is _partial: (i) the lifting theorem: any preorder on a measure of file text that every transformer
    respects (instantiate: unresolved-name sets under inclusion) is respected by ANY run; (ii) kernel theorems
    [names (rw e) ⊆ names e ∪ builtins] for the modelled rewrites.  libcst's AddImportsVisitor / RemoveImportsVisitor and
    the unmodelled transformers are oracles whose contract is searched by harness/e2e_props.py (symtable-based
    scope-aware unresolved-name sets before/after, on seeds x variants incl. a second use of every imported name). *)
From CM Require Import Model.Run Proofs.RunLift Generated.Tables.
From CM Require Import Model.MiniPy Model.Rewrites Proofs.RewriteFacts.

(** _partial: the premise (every transformer OF THE RUN does not enlarge the measure on text satisfying an invariant Good that
    it preserves) is a contract; no kernel discharges it yet for a whole run, it is searched. *)
Theorem C02_whole_run_lift_partial : C02_lift_statement run_tables_v.
Proof. exact C02_lift. Qed.
Print Assumptions C02_whole_run_lift_partial.
(** the statement above is the law, not the vacuous branch: on the tables read from the current source every pipeline
    returns early when the transformer reports no change (if a pipeline loses that guard this example stops compiling) *)
Example C02_lift_not_vacuous : libcst_nochange_guarded run_tables_v = true.
Proof. reflexivity. Qed.

(** fix-hasattr-call: [hasattr(x, "__call__")] -> [callable(x)]: only the builtin name [callable] is new *)
Theorem C02_kernel_hasattr_names : forall cfg a rest,
  incl_str (names (hasattr_step cfg (ECall BHasattr (a :: rest)))) (names (ECall BHasattr (a :: rest)) ++ builtin_names).
Proof. exact C02_kernel_hasattr_step_names. Qed.
Print Assumptions C02_kernel_hasattr_names.

(** use-set-literal and use-generator introduce no name at the rewritten site *)
Theorem C02_kernel_set_literal_names : forall es,
  incl_str (names (rw_set_literal (ECall BSet [EList es]))) (names (ECall BSet [EList es])).
Proof. exact C02_kernel_set_literal_site. Qed.
Print Assumptions C02_kernel_set_literal_names.
Theorem C02_kernel_generator_names : forall cfg f elt x it rest,
  incl_str (names (gen_call cfg f (EListComp elt x it :: rest))) (names (ECall f (EListComp elt x it :: rest))).
Proof. exact C02_kernel_generator_site. Qed.
Print Assumptions C02_kernel_generator_names.

(** invert-boolean-check as pinned (245fc22): the garbled default branch printed the comparator twice, which reads as a
    NEW name ([not x in v2] -> [x in v2v2]).  (fixed by 64f90ae: kf_invert_default_branch) *)
Theorem C02_kernel_invert_pinned_refuted :
  exists e n, List.In n (names (invert_file Types_Kernels.pinned_invert e)) /\ ~ List.In n (names e ++ builtin_names).
Proof. exists w_default_name. eexists. exact C02_kernel_invert_refuted. Qed.
Print Assumptions C02_kernel_invert_pinned_refuted.

(** non-vacuity of the lifting theorem's premises: see RunLift.v (toy transformers) *)
Example C02_example_names : incl_str (names (rw_set_literal (ECall BSet [EList [EName 1%N]]))) (names (ECall BSet [EList [EName 1%N]])).
Proof. apply C02_kernel_set_literal_site. Qed.

(** fix-empty-sequence-comparison introduces at most the builtin `bool`; literal-or-new-object-identity no name at all *)
Theorem C02_kernel_empty_seq_names : forall cfg in_test e,
  incl_str (names (empty_seq_new cfg (empty_seq_action in_test e) e)) (names e ++ builtin_names).
Proof. exact RewriteFacts.C02_kernel_empty_seq_names. Qed.
Print Assumptions C02_kernel_empty_seq_names.
Theorem C02_kernel_identity_names : forall e e', identity_f e = Some e' -> names e' = names e.
Proof. exact RewriteFacts.C02_kernel_identity_names. Qed.
Print Assumptions C02_kernel_identity_names.
Example C02_kernel_empty_seq_example :
  List.In bool_name (names (empty_seq_new Types_Kernels.repaired_empty_seq (empty_seq_action false (ECmp true (EName 1%N) [(NotEq, EList [])]))
                                                (ECmp true (EName 1%N) [(NotEq, EList [])]))).
Proof. vm_compute. tauto. Qed.

(** * Whole-tree kernel theorems (every site, nested ones included) and their composition with the lifting theorem *)
From CM Require Import Proofs.WholeTree Proofs.LiftWholeTree.
Theorem C02_kernel_set_literal_names_all : forall e, incl_str (names (rw_set_literal e)) (names e ++ builtin_names).
Proof. exact set_literal_names. Qed.
Print Assumptions C02_kernel_set_literal_names_all.
Theorem C02_kernel_hasattr_names_all : forall cfg e, incl_str (names (rw_hasattr cfg e)) (names e ++ builtin_names).
Proof. exact hasattr_names. Qed.
Print Assumptions C02_kernel_hasattr_names_all.
Theorem C02_kernel_identity_names_all : forall e, incl_str (names (rw_identity e)) (names e ++ builtin_names).
Proof. exact identity_names. Qed.
Print Assumptions C02_kernel_identity_names_all.
Theorem C02_kernel_empty_seq_names_all : forall cfg in_test e, incl_str (names (empty_seq_file cfg in_test e)) (names e ++ builtin_names).
Proof. exact empty_seq_names. Qed.
Print Assumptions C02_kernel_empty_seq_names_all.
Theorem C02_kernel_generator_names_all : forall cfg e, ug_nested cfg = true -> ug_updated_parts cfg = true ->
  incl_str (names (generator_file cfg e)) (names e ++ builtin_names).
Proof. exact generator_names. Qed.
Print Assumptions C02_kernel_generator_names_all.
(** composed with the run: the names of every non-manifest file after ANY run of codemods whose transformer is the kernel are
    among the names it had before, plus builtins (parser contract: printing then parsing gives the tree back) *)
Theorem C02_use_set_literal_run_no_new_names : C02_kernel_run_statement rw_set_literal run_tables_v.
Proof. exact (C02_kernel_run_all _ set_literal_names run_tables_v). Qed.
Print Assumptions C02_use_set_literal_run_no_new_names.
Theorem C02_fix_hasattr_call_run_no_new_names : C02_kernel_run_statement (rw_hasattr hasattr_cfg_v) run_tables_v.
Proof. exact (C02_kernel_run_all _ (hasattr_names hasattr_cfg_v) run_tables_v). Qed.
Print Assumptions C02_fix_hasattr_call_run_no_new_names.
Theorem C02_identity_run_no_new_names : C02_kernel_run_statement rw_identity run_tables_v.
Proof. exact (C02_kernel_run_all _ identity_names run_tables_v). Qed.
Print Assumptions C02_identity_run_no_new_names.
Theorem C02_empty_seq_run_no_new_names : C02_kernel_run_statement (empty_seq_file empty_seq_cfg_v false) run_tables_v.
Proof. exact (C02_kernel_run_all _ (empty_seq_names empty_seq_cfg_v false) run_tables_v). Qed.
Print Assumptions C02_empty_seq_run_no_new_names.
Theorem C02_use_generator_run_no_new_names : C02_generator_run_statement generator_cfg_v run_tables_v.
Proof. exact (C02_generator_run_all generator_cfg_v run_tables_v). Qed.
Print Assumptions C02_use_generator_run_no_new_names.
Example C02_kernel_run_branch : ug_nested generator_cfg_v && ug_updated_parts generator_cfg_v = true.
Proof. reflexivity. Qed.

(** str-concat-in-sequence-literals introduces no name *)
From CM Require Import Proofs.StrConcatFacts.
Theorem C02_kernel_str_concat_names_all : forall cfg e, incl_str (names (rw_str_concat cfg e)) (names e ++ builtin_names).
Proof. exact str_concat_names. Qed.
Print Assumptions C02_kernel_str_concat_names_all.
Theorem C02_str_concat_run_no_new_names : C02_kernel_run_statement (rw_str_concat str_concat_cfg_v) run_tables_v.
Proof. exact (C02_kernel_run_all _ (str_concat_names str_concat_cfg_v) run_tables_v). Qed.
Print Assumptions C02_str_concat_run_no_new_names.
