from functools import cache
from typing import ClassVar, Collection, cast

import libcst as cst
from libcst import MetadataDependent
from libcst._position import CodePosition, CodeRange
from libcst.codemod import ContextAwareVisitor, VisitorBasedCodemodCommand
from libcst.metadata import PositionProvider, ProviderT

from codemodder.result import Result


# TODO: this should just be part of BaseTransformer and BaseVisitor?
class UtilsMixin(MetadataDependent):
    METADATA_DEPENDENCIES: ClassVar[Collection[ProviderT]] = (PositionProvider,)

    def __init__(
        self,
        results: list[Result] | None,
        line_exclude: list[int],
        line_include: list[int],
    ):
        self.results = results
        self.line_exclude = line_exclude
        self.line_include = line_include

    def filter_by_result(self, node: cst.CSTNode) -> bool:
        # Codemods with detectors will only run their transformations if there are results.
        return self.results is None or any(self.results_for_node(node))

    @cache
    def results_for_node(self, node: cst.CSTNode) -> list[Result]:
        pos_to_match = self.node_position(node)
        return (
            [
                result
                for result in self.results
                if result.match_location(pos_to_match, node)
            ]
            if self.results
            else []
        )

    def filter_by_path_includes_or_excludes(self, pos_to_match):
        """
        Returns True if the node, whose position in the file is pos_to_match, matches any of the lines specified in the path-includes or path-excludes flags.
        """
        # excludes takes precedence if defined
        if self.line_exclude:
            return not any(match_line(pos_to_match, line) for line in self.line_exclude)
        if self.line_include:
            return any(match_line(pos_to_match, line) for line in self.line_include)
        return True

    def node_is_selected(self, node) -> bool:
        pos_to_match = self.node_position(node)
        return self.filter_by_result(node) and self.filter_by_path_includes_or_excludes(
            pos_to_match
        )

    def node_position(self, node):
        # See https://github.com/Instagram/LibCST/blob/main/libcst/_metadata_dependent.py#L112
        match node:
            case cst.FunctionDef():
                # By default a function's position includes the entire
                # function definition. Instead, we will only use the first line
                # of the function definition.
                params_end = cast(
                    CodeRange, self.get_metadata(PositionProvider, node.params)
                ).end
                return CodeRange(
                    start=cast(
                        CodeRange, self.get_metadata(PositionProvider, node)
                    ).start,
                    end=CodePosition(params_end.line, params_end.column + 1),
                )
            case _:
                return cast(CodeRange, self.get_metadata(PositionProvider, node))

    def lineno_for_node(self, node):
        return self.node_position(node).start.line

    def code(self, node: cst.CSTNode) -> str:
        """
        Only a cst.Module node has a `code` attribute which converts the node
        back to the original code as a str. To get the code for any node,
        the suggested approach is to wrap this node in a `cst.Module` node.
        """
        module = cst.Module(body=[cst.SimpleStatementLine(body=[cst.Expr(value=node)])])
        return module.code


class BaseTransformer(VisitorBasedCodemodCommand, UtilsMixin):
    def __init__(
        self,
        context,
        results: list[Result] | None,
        line_include: list[int],
        line_exclude: list[int],
    ):
        VisitorBasedCodemodCommand.__init__(self, context)
        UtilsMixin.__init__(self, results, line_exclude, line_include)


class BaseVisitor(ContextAwareVisitor, UtilsMixin):
    def __init__(
        self,
        context,
        results: list[Result] | None,
        line_include: list[int],
        line_exclude: list[int],
    ):
        ContextAwareVisitor.__init__(self, context)
        UtilsMixin.__init__(self, results, line_exclude, line_include)


def match_line(pos, line):
    return pos.start.line == line and pos.end.line == line
