(** Model of how a tool result is joined to a libcst node: codemodder.result (Result.match_location, same_line,
    fuzzy_column_match, ResultSet.results_for_rule_and_file), the per-tool overrides (SonarResult, DefectDojoResult),
    the per-codemod overrides (jwt_decode_verify / sonar_fix_math_isclose / semgrep_rsa_key_size; tempfile_mktemp),
    codemods.base_visitor.UtilsMixin (results_for_node, filter_by_result, node_is_selected), the default
    leave_Call/leave_Assign/leave_ClassDef of LibcstResultTransformer with report_change, FileContext.get_findings_for_location,
    BaseCodemod._process_file (findings per rule, short circuit), RemediationCodemod.get_files_to_analyze and the
    rule-id truncation of the internal semgrep run.  Definitions only; as written. *)
From CM Require Export Base.Dict Base.Types_Location Base.Types_Glob.
From CM Require Model.LineFilter.
Local Open Scope Z_scope.

(** libcst CodePosition / CodeRange: 1-based line, 0-based column, end exclusive. *)
Record pos := mkpos { pline : Z; pcol : Z }.
Record span := mkspan { sstart : pos; send : pos }.
(** codemodder.result.Location: file, start LineInfo(line, column), end LineInfo(line, column) in the TOOL's convention
    (semgrep/CodeQL SARIF: 1-based columns; Sonar: 0-based offsets; DefectDojo: line only, column = -1). *)
Record loc := mkloc { lfile : str; lstart : pos; lend : pos }.

Inductive node_kind := KCall | KAssign | KClassDef | KTuple | KStmtLine | KOther.
Definition node_kind_eqb (a b : node_kind) : bool :=
  match a, b with
  | KCall, KCall | KAssign, KAssign | KClassDef, KClassDef | KTuple, KTuple | KStmtLine, KStmtLine | KOther, KOther => true
  | _, _ => false
  end.
(** A syntax node as far as the join is concerned: an identity, its kind, and node_position(node). *)
Record node := mknode { nid : N; nkind : node_kind; nspan : span }.

(** Which class the result object has, i.e. which match_location it answers with. *)
Inductive rclass := RBase (* Result / SemgrepResult / CodeQLResult *) | RSonar | RDefectDojo.
Record finding := mkfinding { fid : str; frule : str }.
Record result := mkresult { rident : N; rcls : rclass; rrule_id : str; rlocs : list loc; rfinding : option finding }.

(** The values the translator reads from the source. *)
Record ltab := mkltab {
  tol_s : list Z;          (* pos.start.column in (c + d for d in tol_s), c = location.start.column *)
  tol_e : list Z;          (* same for the end column *)
  widen : Z * Z;           (* SonarResult.match_location on a cst.Tuple: start.column + fst, end.column + snd *)
  lfr : lf_rule            (* filter_by_path_includes_or_excludes: how exclusion and inclusion lines combine (C13) *)
}.

(** result.same_line *)
Definition same_line (p : span) (l : loc) : bool :=
  (pline (sstart p) =? pline (lstart l)) && (pline (send p) =? pline (lend l)).
(** result.fuzzy_column_match *)
Definition fuzzy_column_match (p : span) (l : loc) : bool :=
  ((pcol (sstart p) <=? pcol (lstart l)) && (pcol (lstart l) <=? pcol (send p) + 1)) &&
  ((pcol (sstart p) <=? pcol (lend l)) && (pcol (lend l) <=? pcol (send p) + 1)).

Definition col_in (tol : list Z) (c pc : Z) : bool := existsb (fun d => pc =? c + d) tol.

(** the generator expression of Result.match_location, for one location *)
Definition base_match_loc (T : ltab) (p : span) (l : loc) : bool :=
  same_line p l && col_in (tol_s T) (pcol (lstart l)) (pcol (sstart p)) && col_in (tol_e T) (pcol (lend l)) (pcol (send p)).
(** Result.match_location *)
Definition base_match (T : ltab) (p : span) (r : result) : bool := existsb (base_match_loc T p) (rlocs r).

Definition widen_span (w : Z * Z) (p : span) : span :=
  mkspan (mkpos (pline (sstart p)) (pcol (sstart p) + fst w)) (mkpos (pline (send p)) (pcol (send p) + snd w)).
(** the span a result of class c compares with for a node of kind k *)
Definition eff_span (T : ltab) (c : rclass) (k : node_kind) (p : span) : span :=
  match c, k with RSonar, KTuple => widen_span (widen T) p | _, _ => p end.

(** DefectDojoResult.match_location, one location *)
Definition dd_match_loc (p : span) (l : loc) : bool :=
  (pline (sstart p) <=? pline (lstart l)) && (pline (lstart l) <=? pline (send p)).

Definition match_loc (T : ltab) (c : rclass) (k : node_kind) (p : span) (l : loc) : bool :=
  match c with
  | RDefectDojo => dd_match_loc p l
  | _ => base_match_loc T (eff_span T c k p) l
  end.
(** result.match_location(pos, node), dispatched on the class of the result object *)
Definition match_location (T : ltab) (k : node_kind) (p : span) (r : result) : bool :=
  existsb (match_loc T (rcls r) k p) (rlocs r).

(** base_visitor.filter_by_path_includes_or_excludes: the line filter of Model/LineFilter.v (C13) on the node position *)
Definition pos_of_span (p : span) : LineFilter.pos :=
  ((pline (sstart p), pcol (sstart p)), (pline (send p), pcol (send p))).
Definition line_filter (T : ltab) (excl incl : list Z) (p : span) : bool :=
  LineFilter.filter_by_path_includes_or_excludes (lfr T) excl incl (pos_of_span p).

(** UtilsMixin.results_for_node: `[r for r in self.results if r.match_location(pos, node)] if self.results else []` *)
Definition results_for_node (T : ltab) (results : option (list result)) (n : node) : list result :=
  match results with
  | Some rs => List.filter (match_location T (nkind n) (nspan n)) rs
  | None => []
  end.

(** filter_by_result and its overrides in the transformers *)
Inductive filter_override :=
| FDefault        (* UtilsMixin.filter_by_result *)
| FFuzzyCall      (* jwt_decode_verify.JwtDecodeVerifySASTTransformer, sonar_fix_math_isclose, semgrep_rsa_key_size *)
| FSameLineStmt.  (* tempfile_mktemp.TempfileMktempTransformer *)

Definition nonempty {A} (l : list A) : bool := match l with [] => false | _ => true end.
Definition or_nil {A} (o : option (list A)) : list A := match o with Some l => l | None => [] end.
Definition is_none {A} (o : option A) : bool := match o with None => true | Some _ => false end.

Definition fuzzy_match (p : span) (r : result) : bool :=
  existsb (fun l => same_line p l && fuzzy_column_match p l) (rlocs r).
Definition line_only_match (p : span) (r : result) : bool := existsb (same_line p) (rlocs r).

Definition filter_by_result (T : ltab) (o : filter_override) (results : option (list result)) (n : node) : bool :=
  match o with
  | FDefault => is_none results || nonempty (results_for_node T results n)
  | FFuzzyCall =>
      match nkind n with KCall => existsb (fuzzy_match (nspan n)) (or_nil results) | _ => false end
  | FSameLineStmt =>
      match nkind n with KStmtLine => is_none results || existsb (line_only_match (nspan n)) (or_nil results) | _ => false end
  end.

(** UtilsMixin.node_is_selected *)
Definition node_is_selected (T : ltab) (o : filter_override) (results : option (list result)) (excl incl : list Z) (n : node) : bool :=
  filter_by_result T o results n && line_filter T excl incl (nspan n).

(** FileContext.get_findings_for_location *)
Definition in_line_range (line : Z) (l : loc) : bool := (pline (lstart l) <=? line) && (line <=? pline (lend l)).
Definition get_findings_for_location (a : attach_rule) (results : option (list result)) (line : Z) : list finding :=
  match a with
  | ByLineRange =>
      flat_map (fun r => if existsb (in_line_range line) (rlocs r)
                         then match rfinding r with Some f => [f] | None => [] end else [])
               (or_nil results)
  end.

(** The Change built by report_change(original_node): line = node_position(node).start.line,
    findings = get_findings_for_location(line) (the description is the transformer's constant). *)
Record change := mkchange { ch_line : Z; ch_findings : list finding }.
Definition report_change (a : attach_rule) (results : option (list result)) (n : node) : change :=
  let line := pline (sstart (nspan n)) in mkchange line (get_findings_for_location a results line).

(** LibcstResultTransformer: leave_Call / leave_Assign / leave_ClassDef -> _new_or_updated_node.  [nodes] are the nodes of
    the module in leave order.  The first component lists the nodes handed to on_result_found. *)
Definition default_kind (k : node_kind) : bool := match k with KCall | KAssign | KClassDef => true | _ => false end.
Definition on_result_found_nodes (T : ltab) (o : filter_override) (results : option (list result)) (excl incl : list Z)
           (nodes : list node) : list node :=
  List.filter (fun n => default_kind (nkind n) && node_is_selected T o results excl incl n) nodes.
Definition reported_changes (T : ltab) (a : attach_rule) (o : filter_override) (results : option (list result))
           (excl incl : list Z) (nodes : list node) : list change :=
  map (report_change a results) (on_result_found_nodes T o results excl incl nodes).

(** ResultSet as far as the per-file lookup is concerned *)
Definition fdict := dict str (list result).
Definition rset := dict str fdict.
Definition getl (k : str) (d : fdict) : list result := match dget str_eqb k d with Some l => l | None => [] end.
Definition getd (k : str) (R : rset) : fdict := match dget str_eqb k R with Some d => d | None => [] end.
Definition add_one (r : result) (R : rset) (f : str) : rset :=
  let inner := getd (rrule_id r) R in
  dset str_eqb (rrule_id r) (dset str_eqb f (getl f inner ++ [r]) inner) R.
Definition add_result (R : rset) (r : result) : rset := fold_left (add_one r) (map lfile (rlocs r)) R.
Definition of_results (l : list result) : rset := fold_left add_result l [].
(** ResultSet.results_for_rule_and_file (file already relative to the target directory) *)
Definition results_for_rule_and_file (R : rset) (rule file : str) : list result := getl file (getd rule R).

(** BaseCodemod._process_file: findings_for_rule, short circuit, transformer.apply *)
Definition findings_for_rule (R : option rset) (rules : list str) (file : str) : option (list result) :=
  match R with
  | None => None
  | Some R => Some (flat_map (fun rule => results_for_rule_and_file R rule file) rules)
  end.
Inductive file_outcome := ShortCircuit | Transform (findings : option (list result)).
Definition process_file (R : option rset) (rules : list str) (file : str) : file_outcome :=
  let f := findings_for_rule R rules file in
  if negb (is_none R) && negb (nonempty (or_nil f)) then ShortCircuit else Transform f.

(** RemediationCodemod.get_files_to_analyze, before filter_paths and the suffix test *)
Definition files_to_analyze (R : rset) (rules : list str) (files : list str) : list str :=
  match R with
  | [] => []
  | _ => List.filter (fun f => existsb (fun rule => nonempty (results_for_rule_and_file R rule f)) rules) files
  end.

(** One file, default transformer: what is handed to on_result_found and which change entries are reported. *)
Definition run_file (T : ltab) (a : attach_rule) (o : filter_override) (R : option rset) (rules : list str) (file : str)
           (excl incl : list Z) (nodes : list node) : list node * list change :=
  match process_file R rules file with
  | ShortCircuit => ([], [])
  | Transform f => (on_result_found_nodes T o f excl incl nodes, reported_changes T a o f excl incl nodes)
  end.

(** CodeQLLocation.from_sarif.  A SARIF region: startLine, and optionally startColumn / endLine / endColumn; a location
    without region stands for the whole file and gets the sentinel line 0.  [None] = the start column is Python's None:
    Result.match_location raises TypeError as soon as a node on the lines of that location is tested. *)
Record region := mkregion { rg_sl : Z; rg_sc : option Z; rg_el : option Z; rg_ec : option Z }.
Definition codeql_loc (d : sc_default) (file : str) (r : option region) : option loc :=
  match r with
  | None => Some (mkloc file (mkpos 0 (-1)) (mkpos 0 (-1)))
  | Some r =>
      match (match rg_sc r with Some c => Some c | None => match d with ScOne => Some 1 | ScNone => None end end) with
      | None => None
      | Some sc => Some (mkloc file (mkpos (rg_sl r) sc)
                               (mkpos (match rg_el r with Some l => l | None => rg_sl r end)
                                      (match rg_ec r with Some c => c | None => sc end)))
      end
  end.

(** SarifResult.extract_rule_id with truncate_rule_id=True: rule_id.split(".")[-1] *)
Fixpoint last_dotted_from (acc s : str) : str :=
  match s with
  | [] => acc
  | c :: r => if (c =? 46)%N then last_dotted_from [] r else last_dotted_from (acc ++ [c]) r
  end.
Definition short_id (s : str) : str := last_dotted_from [] s.
