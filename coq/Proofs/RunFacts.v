(** Lemmas about the orchestration model (Model/Run.v): file-system frame facts, what one pipeline application can
    write, independence of a file's outcome from its siblings, aggregation. *)
From CM Require Import Base.Dict Model.Run Proofs.DictFacts.

Lemma lookup_fwrite s p b q : lookup (fwrite s p b) q = if str_eqb q p then Some b else lookup s q.
Proof. reflexivity. Qed.
Lemma lookup_fwrite_other s p b q : q <> p -> lookup (fwrite s p b) q = lookup s q.
Proof. intros H. rewrite lookup_fwrite. apply str_eqb_neq in H. now rewrite H. Qed.
Lemma lookup_fwrite_same s p b : lookup (fwrite s p b) p = Some b.
Proof. rewrite lookup_fwrite. now rewrite str_eqb_refl. Qed.

Lemma has_guard_In g gs : has_guard g gs = true <-> In g gs.
Proof.
  unfold has_guard. rewrite existsb_exists. split.
  - intros [x [Hin He]]. destruct g, x; simpl in He; try discriminate; exact Hin.
  - intros Hin. exists g. split; [exact Hin | destruct g; reflexivity].
Qed.

(** ---- per-codemod dictionaries: pointwise reading ---- *)
Section Dicts.
  Context {V : Type}.
  Lemma dgetl_dext_same k (xs : list V) d : dgetl k (dext k xs d) = dgetl k d ++ xs.
  Proof. unfold dgetl at 1, dext. rewrite (dget_dset_same str_eqb str_eqb_spec). reflexivity. Qed.
  Lemma dgetl_dext_other k k' (xs : list V) d : k <> k' -> dgetl k (dext k' xs d) = dgetl k d.
  Proof. intros H. unfold dgetl, dext. rewrite (dget_dset_other str_eqb str_eqb_spec); [reflexivity|exact H]. Qed.
  Lemma dgetl_dext k k' (xs : list V) d :
    dgetl k (dext k' xs d) = if str_eqb k k' then dgetl k d ++ xs else dgetl k d.
  Proof.
    destruct (str_eqb_spec k k') as [->|Hne]; [apply dgetl_dext_same | now apply dgetl_dext_other].
  Qed.
  Lemma In_dgetl_dext k k' (xs : list V) d x : In x (dgetl k d) -> In x (dgetl k (dext k' xs d)).
  Proof. rewrite dgetl_dext. destruct (str_eqb k k'); [intros; apply in_or_app; now left | trivial]. Qed.
End Dicts.

Lemma dgetl_dunion_other k k' xs d : k <> k' -> dgetl k (dunion k' xs d) = dgetl k d.
Proof. intros H. unfold dgetl, dunion. rewrite (dget_dset_other str_eqb str_eqb_spec); [reflexivity|exact H]. Qed.
Lemma dgetl_dunion_same k xs d : dgetl k (dunion k xs d) = set_union (dgetl k d) xs.
Proof. unfold dgetl at 1, dunion. rewrite (dget_dset_same str_eqb str_eqb_spec). reflexivity. Qed.
Lemma set_union_nil a : set_union a [] = a.
Proof. reflexivity. Qed.

Section RunFacts.
  Variable tb : run_tables.
  Variable tree : Type.
  Variable parse : pipe_kind -> bytes -> option tree.
  Variable code : pipe_kind -> tree -> bytes.
  Variable T : codemod -> tree -> option (list finding) -> outcome tree.
  Variable S : codemod -> path -> bytes -> list finding.
  Variable R : codemod -> list (path * list finding).
  Variable diff : bytes -> bytes -> str.
  Variable W : skind -> option bytes -> list dep -> option (bytes * str * list change).
  Variable fsel : codemod -> path -> bool.

  Local Notation papply := (pipeline_apply tb tree parse code T diff).
  Local Notation fstep := (file_step tb tree parse code T diff).
  Local Notation pfile := (process_file tb tree parse code T diff).
  Local Notation mfiles := (map_files tb tree parse code T diff).
  Local Notation acodemod := (apply_codemod tb tree parse code T S R diff fsel).
  Local Notation tstores := (try_stores tb W).
  Local Notation pdeps := (process_dependencies tb W).
  Local Notation acodemods := (apply_codemods tb tree parse code T S R diff W fsel).
  Local Notation mrun := (run tb tree parse code T S R diff W fsel).
  Arguments process_file : simpl never.
  Arguments file_step : simpl never.

  (** ---- one pipeline application ---- *)
  (** what is returned never depends on the options (only the write does) *)
  Lemma papply_fst_cfg cfg cfg' K p c fi : fst (papply cfg K p c fi) = fst (papply cfg' K p c fi).
  Proof.
    unfold pipeline_apply; cbv zeta. destruct c as [b|]; [destruct (parse (cpipe K) b) as [t|]|];
      try (destruct (has_guard TryParse _); reflexivity).
    destruct (T K t fi) as [| |t' chs ds]; try (destruct (has_guard TryTransform _); reflexivity);
      cbv zeta; cbv beta iota;
      repeat match goal with |- context [if ?b then _ else _] => destruct b end; reflexivity.
  Qed.

  Lemma papply_dry_no_write cfg K p c fi :
    has_guard IfNotDryWrite (guards_of tb (cpipe K)) = true -> dry_run cfg = true -> snd (papply cfg K p c fi) = None.
  Proof.
    intros Hg Hd. unfold pipeline_apply; cbv zeta. rewrite Hg, Hd.
    destruct c as [b|]; [destruct (parse (cpipe K) b) as [t|]|];
      try (destruct (has_guard TryParse _); reflexivity).
    destruct (T K t fi) as [| |t' chs ds]; try (destruct (has_guard TryTransform _); reflexivity);
      cbv zeta; cbv beta iota; simpl;
      repeat match goal with |- context [if ?b then _ else _] => destruct b end; reflexivity.
  Qed.

  (** a write comes with a change set for that path, and what is written is [code] of a tree obtained from the
      file's own parse tree *)
  Lemma papply_write cfg K p c fi b' :
    snd (papply cfg K p c fi) = Some b' ->
    (exists cs ds, fst (papply cfg K p c fi) = PChangeset cs ds /\ cs_path cs = p) /\
    exists b t, c = Some b /\ parse (cpipe K) b = Some t /\
      ((T K t fi = NoChange /\ b' = code (cpipe K) t /\ has_guard IfNoChanges (guards_of tb (cpipe K)) = false) \/
       exists t' chs ds, T K t fi = Changed t' chs ds /\ b' = code (cpipe K) t').
  Proof.
    unfold pipeline_apply; cbv zeta. destruct c as [b|]; [destruct (parse (cpipe K) b) as [t|] eqn:Ep|];
      try (destruct (has_guard TryParse _); discriminate).
    destruct (T K t fi) as [| |t' chs ds] eqn:ET; try (destruct (has_guard TryTransform _); discriminate);
      cbv zeta; cbv beta iota.
    - destruct (has_guard IfNoChanges _) eqn:G1; simpl; [discriminate|].
      destruct (has_guard IfNoDiff _ && _); simpl; [discriminate|].
      destruct (has_guard IfNotDryWrite _ && _); simpl; [discriminate|].
      intros [= <-]. split; [eauto|]. exists b, t. repeat split; auto.
    - destruct (has_guard IfNoChanges _ && _); simpl; [discriminate|].
      destruct (has_guard IfNoDiff _ && _); simpl; [discriminate|].
      destruct (has_guard IfNotDryWrite _ && _); simpl; [discriminate|].
      intros [= <-]. split; [eauto|]. exists b, t. repeat split; auto. right. eauto.
  Qed.

  (** with both try blocks nothing escapes *)
  Lemma papply_no_crash cfg K p c fi :
    has_guard TryParse (guards_of tb (cpipe K)) = true -> has_guard TryTransform (guards_of tb (cpipe K)) = true ->
    fst (papply cfg K p c fi) <> PCrash.
  Proof.
    intros G1 G2. unfold pipeline_apply; cbv zeta. rewrite G1, G2.
    destruct c as [b|]; [destruct (parse (cpipe K) b) as [t|]|]; try discriminate.
    destruct (T K t fi) as [| |t' chs ds]; try discriminate; cbv zeta; cbv beta iota;
      repeat match goal with |- context [if ?b then _ else _] => destruct b end; discriminate.
  Qed.

  (** the fault condition of C10: the file cannot be read, decoded/parsed, or the transformer raises on it *)
  Definition failsb (K : codemod) (fi : option (list finding)) (c : option bytes) : bool :=
    match c with
    | None => true
    | Some b => match parse (cpipe K) b with
                | None => true
                | Some t => match T K t fi with Raise => true | _ => false end
                end
    end.

  Lemma papply_fails cfg K p c fi :
    failsb K fi c = true ->
    has_guard TryParse (guards_of tb (cpipe K)) = true -> has_guard TryTransform (guards_of tb (cpipe K)) = true ->
    exists r, papply cfg K p c fi = (PFailed r, None).
  Proof.
    intros Hf G1 G2. unfold pipeline_apply, failsb in *; cbv zeta. rewrite G1, G2.
    destruct c as [b|]; [destruct (parse (cpipe K) b) as [t|]|]; eauto.
    destruct (T K t fi); try discriminate. eauto.
  Qed.

  (** ---- one file ---- *)
  Lemma fstep_fst_cfg cfg cfg' K res p c : fst (fstep cfg K res p c) = fst (fstep cfg' K res p c).
  Proof.
    unfold file_step. destruct (findings_for res p) as [[|f l]|]; try reflexivity; simpl;
      now rewrite (papply_fst_cfg cfg cfg').
  Qed.

  Lemma fstep_dry_no_write cfg K res p c :
    has_guard IfNotDryWrite (guards_of tb (cpipe K)) = true -> dry_run cfg = true -> snd (fstep cfg K res p c) = None.
  Proof.
    intros. unfold file_step. destruct (findings_for res p) as [[|f l]|]; try reflexivity; simpl;
      now apply papply_dry_no_write.
  Qed.

  Lemma fstep_write cfg K res p c b' :
    snd (fstep cfg K res p c) = Some b' ->
    (exists cx cs, fst (fstep cfg K res p c) = FCtx cx /\ In cs (fc_cs cx) /\ cs_path cs = p) /\
    exists b t, c = Some b /\ parse (cpipe K) b = Some t /\
      ((T K t (findings_for res p) = NoChange /\ b' = code (cpipe K) t /\
        has_guard IfNoChanges (guards_of tb (cpipe K)) = false) \/
       exists t' chs ds, T K t (findings_for res p) = Changed t' chs ds /\ b' = code (cpipe K) t').
  Proof.
    unfold file_step. destruct (findings_for res p) as [[|f l]|] eqn:Ef; try discriminate; simpl; intros Hw;
      apply papply_write in Hw; destruct Hw as [[cs [ds [H1 H2]]] H3]; (split; [|exact H3]);
      rewrite H1; simpl; eexists; eexists; (split; [reflexivity|]); simpl; auto.
  Qed.

  Lemma fstep_no_crash cfg K res p c :
    has_guard TryParse (guards_of tb (cpipe K)) = true -> has_guard TryTransform (guards_of tb (cpipe K)) = true ->
    fst (fstep cfg K res p c) <> FCrash.
  Proof.
    intros G1 G2. unfold file_step. destruct (findings_for res p) as [[|f l]|]; try discriminate; simpl;
      match goal with |- fres_of _ _ (fst (papply ?cfg ?K ?p ?c ?fi)) <> _ =>
        pose proof (papply_no_crash cfg K p c fi G1 G2) as Hn; destruct (fst (papply cfg K p c fi)) end;
      simpl; congruence.
  Qed.

  Lemma pfile_fst cfg K res fs p : fst (pfile cfg K res fs p) = fst (fstep cfg K res p (lookup fs p)).
  Proof. reflexivity. Qed.
  Lemma pfile_snd cfg K res fs p :
    snd (pfile cfg K res fs p) = match snd (fstep cfg K res p (lookup fs p)) with Some b => fwrite fs p b | None => fs end.
  Proof. reflexivity. Qed.

  Lemma pfile_frame cfg K res fs p q : q <> p -> lookup (snd (pfile cfg K res fs p)) q = lookup fs q.
  Proof.
    intros Hne. rewrite pfile_snd. destruct (snd (fstep cfg K res p (lookup fs p))); [|reflexivity].
    now apply lookup_fwrite_other.
  Qed.

  (** ---- all files of one codemod ---- *)
  Lemma mfiles_cons cfg K res fs p rest :
    mfiles cfg K res fs (p :: rest) =
    (fst (pfile cfg K res fs p) :: fst (mfiles cfg K res (snd (pfile cfg K res fs p)) rest),
     snd (mfiles cfg K res (snd (pfile cfg K res fs p)) rest)).
  Proof. reflexivity. Qed.
  Lemma mfiles_frame cfg K res files : forall fs q, ~ In q files -> lookup (snd (mfiles cfg K res fs files)) q = lookup fs q.
  Proof.
    induction files as [|p rest IH]; intros fs q Hn; [reflexivity|].
    rewrite mfiles_cons. cbn [snd]. rewrite IH by (intros Hi; apply Hn; now right).
    apply pfile_frame. intros ->. apply Hn. now left.
  Qed.

  (** Sibling independence: with distinct paths, the outcome of each file is a function of its own initial content *)
  Lemma mfiles_outs cfg K res files : forall fs, NoDup files ->
    fst (mfiles cfg K res fs files) = map (fun p => fst (fstep cfg K res p (lookup fs p))) files.
  Proof.
    induction files as [|p rest IH]; intros fs Hnd; [reflexivity|].
    rewrite mfiles_cons. cbn [fst map]. rewrite pfile_fst.
    inversion Hnd as [|? ? Hnotin Hnd']; subst. f_equal. rewrite IH by exact Hnd'.
    apply map_ext_in. intros q Hq. rewrite pfile_frame; [reflexivity|]. intros ->. contradiction.
  Qed.

  Lemma mfiles_lookup cfg K res files : forall fs q, NoDup files -> In q files ->
    lookup (snd (mfiles cfg K res fs files)) q =
    match snd (fstep cfg K res q (lookup fs q)) with Some b => Some b | None => lookup fs q end.
  Proof.
    induction files as [|p rest IH]; intros fs q Hnd Hin; [destruct Hin|].
    rewrite mfiles_cons. cbn [snd].
    inversion Hnd as [|? ? Hnotin Hnd']; subst. destruct Hin as [->|Hin].
    - rewrite mfiles_frame by exact Hnotin. rewrite pfile_snd.
      destruct (snd (fstep cfg K res q (lookup fs q))); [apply lookup_fwrite_same | reflexivity].
    - rewrite IH by assumption. rewrite pfile_frame; [reflexivity|]. intros ->. contradiction.
  Qed.

  Lemma mfiles_dry cfg K res files : forall fs,
    has_guard IfNotDryWrite (guards_of tb (cpipe K)) = true -> dry_run cfg = true ->
    snd (mfiles cfg K res fs files) = fs.
  Proof.
    induction files as [|p rest IH]; intros fs Hg Hd; [reflexivity|].
    rewrite mfiles_cons. cbn [snd]. rewrite pfile_snd. rewrite fstep_dry_no_write by assumption. now apply IH.
  Qed.

  Lemma mfiles_no_crash cfg K res files : forall fs,
    has_guard TryParse (guards_of tb (cpipe K)) = true -> has_guard TryTransform (guards_of tb (cpipe K)) = true ->
    ~ In FCrash (fst (mfiles cfg K res fs files)).
  Proof.
    induction files as [|p rest IH]; intros fs G1 G2; [simpl; tauto|].
    rewrite mfiles_cons. cbn [fst]. rewrite pfile_fst.
    intros [H|H]; [|eapply IH; eauto].
    symmetry in H. revert H. intros H. symmetry in H. revert H. now apply fstep_no_crash.
  Qed.

  (** every path whose content differs afterwards has a change set among the yielded FileContexts *)
  Lemma mfiles_changed cfg K res files : forall fs q,
    lookup (snd (mfiles cfg K res fs files)) q = lookup fs q \/
    exists cx cs, In (FCtx cx) (fst (mfiles cfg K res fs files)) /\ In cs (fc_cs cx) /\ cs_path cs = q.
  Proof.
    induction files as [|p rest IH]; intros fs q; [now left|].
    rewrite mfiles_cons. cbn [fst snd]. rewrite pfile_fst.
    destruct (IH (snd (pfile cfg K res fs p)) q) as [He|[cx [cs [H1 H2]]]].
    - rewrite He. rewrite pfile_snd.
      destruct (snd (fstep cfg K res p (lookup fs p))) as [b'|] eqn:Ew; [|now left].
      destruct (str_eqb_spec q p) as [->|Hne]; [|left; now apply lookup_fwrite_other].
      right. apply fstep_write in Ew. destruct Ew as [[cx [cs [H1 [H2 H3]]]] _].
      exists cx, cs. split; [left; now rewrite H1|]. now split.
    - right. exists cx, cs. split; [now right | exact H2].
  Qed.

  (** ---- process_results ---- *)
  Lemma presults_ok id outs : forall s, ~ In FCrash outs -> exists s', process_results id outs s = Ok s'.
  Proof.
    induction outs as [|[|c] r IH]; intros s Hn; simpl; eauto.
    - exfalso. apply Hn. now left.
    - apply IH. intros H. apply Hn. now right.
  Qed.

  Lemma merge_ctx_fs id c s : s_fs (merge_ctx id c s) = s_fs s. Proof. reflexivity. Qed.
  Lemma merge_ctx_stores id c s : s_stores (merge_ctx id c s) = s_stores s. Proof. reflexivity. Qed.

  Lemma presults_fs id outs : forall s s', process_results id outs s = Ok s' \/ process_results id outs s = Aborted s' ->
    s_fs s' = s_fs s /\ s_stores s' = s_stores s /\ s_upd s' = s_upd s.
  Proof.
    induction outs as [|[|c] r IH]; intros s s' H; simpl in H.
    - destruct H as [H|H]; inversion H; subst; auto.
    - destruct H as [H|H]; inversion H; subst; auto.
    - apply IH in H. simpl in H. exact H.
  Qed.

  Lemma presults_cs_mono id outs : forall s s' k x,
    process_results id outs s = Ok s' \/ process_results id outs s = Aborted s' ->
    In x (dgetl k (s_cs s)) -> In x (dgetl k (s_cs s')).
  Proof.
    induction outs as [|[|c] r IH]; intros s s' k x H Hin; simpl in H.
    - destruct H as [H|H]; inversion H; subst; auto.
    - destruct H as [H|H]; inversion H; subst; auto.
    - eapply IH; [exact H|]. simpl. now apply In_dgetl_dext.
  Qed.

  Lemma presults_cs_in id outs : forall s s' cx cs,
    process_results id outs s = Ok s' -> In (FCtx cx) outs -> In cs (fc_cs cx) -> In cs (dgetl id (s_cs s')).
  Proof.
    induction outs as [|[|c] r IH]; intros s s' cx cs H Hin Hcs; simpl in H.
    - destruct Hin.
    - discriminate.
    - destruct Hin as [Heq|Hin].
      + inversion Heq; subst. eapply presults_cs_mono; [left; exact H|]. simpl.
        rewrite dgetl_dext_same. apply in_or_app. now right.
      + eapply IH; eauto.
  Qed.
End RunFacts.
