(** Types of the table values tools/fragments_kernels.py extracts for the rewrite kernels (Model/Rewrites.v). *)
From CM Require Export Base.Str.

(** libcst comparison operators (class names Equal, NotEqual, LessThan, LessThanEqual, GreaterThan, GreaterThanEqual,
    Is, IsNot, In, NotIn) *)
Inductive cmpop := Eq | NotEq | Lt | LtE | Gt | GtE | Is | IsNot | In | NotIn.

(** invert_boolean_check._invert_comparisons: what the `case _:` branch does with an operator outside the table *)
Inductive default_form :=
| KeepTarget       (* pinned: `new_operator = comparison_op` -- the whole ComparisonTarget lands in the operator slot and
                      the comparator is printed twice *)
| LeaveUnchanged.  (* repaired: the `not` expression is left as it is *)

Record invert_cfg := {
  iv_table : list (cmpop * cmpop);   (* the `case cst.X(): new_operator = cst.Y()` pairs, in source order *)
  iv_default : default_form;
  iv_chains : bool;                  (* true: chained comparisons are inverted operator by operator (pinned) *)
  iv_parens : bool                   (* true: the replacement keeps the parentheses of the node it replaces (repaired) *)
}.

(** combine_calls_base *)
Record combine_cfg := {
  cc_inner_or : bool;                (* true: matches_call_or_boolop / matches_boolop_or_call test that the inner operator is `or` (repaired) *)
  cc_parens : bool                   (* true: the two folds keep the parentheses of the node they replace (repaired) *)
}.

(** use_generator.leave_Call *)
Record generator_cfg := {
  ug_single_arg : bool;              (* true: only calls with exactly one argument are rewritten (repaired);
                                        false: args[0] is inspected and every other argument is dropped (pinned) *)
  ug_nested : bool;                  (* true: leave_Call ends with `return updated_node`: rewrites nested in the arguments of a call
                                        that is not itself rewritten are kept; false: `return original_node` reverts them *)
  ug_updated_parts : bool            (* true: the generator is built from the comprehension of the UPDATED node (rewrites inside
                                        its element / iterable are kept); false: from the original node (they are discarded) *)
}.

(** the values of the pinned tree (245fc22) and of the repaired forms, for witnesses and examples *)
Definition pinned_invert_table : list (cmpop * cmpop) :=
  [(Eq, NotEq); (NotEq, Eq); (Lt, GtE); (Gt, LtE); (LtE, Gt); (GtE, Lt)].
Definition pinned_invert : invert_cfg :=
  {| iv_table := pinned_invert_table; iv_default := KeepTarget; iv_chains := true; iv_parens := false |}.
Definition repaired_invert : invert_cfg :=
  {| iv_table := pinned_invert_table ++ [(Is, IsNot); (IsNot, Is); (In, NotIn); (NotIn, In)];
     iv_default := LeaveUnchanged; iv_chains := false; iv_parens := true |}.
Definition pinned_combine : combine_cfg := {| cc_inner_or := false; cc_parens := false |}.
Definition repaired_combine : combine_cfg := {| cc_inner_or := true; cc_parens := true |}.
Definition pinned_generator : generator_cfg := {| ug_single_arg := false; ug_nested := false; ug_updated_parts := false |}.
Definition repaired_generator : generator_cfg := {| ug_single_arg := true; ug_nested := false; ug_updated_parts := false |}.
(** `return updated_node` only: nested rewrites are kept, those inside the rewritten comprehension still discarded *)
Definition nested_generator : generator_cfg := {| ug_single_arg := true; ug_nested := true; ug_updated_parts := false |}.
(** `return updated_node` and the generator built from the updated comprehension *)
Definition nested_updated_generator : generator_cfg := {| ug_single_arg := true; ug_nested := true; ug_updated_parts := true |}.

(** fix_hasattr_call.on_result_found *)
Record hasattr_cfg := {
  ha_two_args : bool      (* true: only hasattr calls with exactly two arguments are rewritten (repaired);
                             false: whatever semgrep's `hasattr(..., "__call__")` matched, keeping the first argument (pinned) *)
}.
Definition pinned_hasattr : hasattr_cfg := {| ha_two_args := false |}.
Definition repaired_hasattr : hasattr_cfg := {| ha_two_args := true |}.

(** str_concat_in_seq_literal._process_elements *)
Record str_concat_cfg := {
  sc_updated : bool       (* true: the elements of the UPDATED node are processed (rewrites of nested displays are kept; repaired);
                             false: those of the original node (pinned) *)
}.
Definition pinned_str_concat : str_concat_cfg := {| sc_updated := false |}.
Definition repaired_str_concat : str_concat_cfg := {| sc_updated := true |}.

(** fix_empty_sequence_comparison.leave_Comparison *)
Record empty_seq_cfg := {
  es_parens : bool        (* true: the new `not x` keeps the parentheses of the comparison it replaces (repaired) *)
}.
Definition pinned_empty_seq : empty_seq_cfg := {| es_parens := false |}.
Definition repaired_empty_seq : empty_seq_cfg := {| es_parens := true |}.
