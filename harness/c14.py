"""C14 — adding a dependency keeps the manifest valid, complete and duplicate-free.

Implementation side: the real RequirementsTxtParser/SetupCfgParser + RequirementsTxtWriter/SetupCfgWriter on files
under ctx.scratch, the real CodemodExecutionContext.process_dependencies/add_description over real PythonRepoManager
stores, and the real CLI with dependency-adding codemods.  Model/spec side: coq/Model/Manifest.v,
coq/Spec/ManifestSpec.v evaluated by vm_compute (coq/Harness/C14_run.v); an independent reference reading of the
four manifest formats (packaging / tomllib / ast; pip's and setuptools' documented line rules) judges validity,
completeness and duplicates."""
from __future__ import annotations

import ast
import json
import re
import shutil
import tomllib
from collections import Counter
from concurrent.futures import ThreadPoolExecutor
from pathlib import Path

from packaging.requirements import InvalidRequirement, Requirement
from packaging.utils import canonicalize_name

from harness import core
from harness.core import cN, cbool, clist, copt, cpair, cstr

META = {
    "rule": "generated manifests (requirements.txt: comments, blank lines, markers, extras, -r/-e/option lines, hashes with "
            "line continuations, CRLF/CR, no final newline, BOM, near-empty, package present under another spelling; setup.cfg: "
            "dangling lists with 2/4/tab indentation, comment lines, neighbouring keys/sections, duplicate lines under "
            "setup_requires/extras, inline lists, CRLF, no final newline; pyproject.toml PEP 621/poetry; setup.py) x dependency "
            "lists (real Dependency objects + spellings/extras/markers) through the real parsers+writers, the real "
            "process_dependencies loop and the real CLI; non-trivial = the writer produced a changeset or refused because the "
            "package is declared; distinct by (manifest text, dependency list, dry_run)",
    "trusted": [
        "packaging.requirements / packaging.utils, tomllib, ast, configparser of CPython (reference re-parse of manifests)",
        "harness/c14.py reference readers: pip's logical lines (backslash continuation, `#` comments, option lines) and "
        "setuptools' list-semi rule for options.install_requires",
    ],
    "assumptions": [
        "oracle packaging.Requirement: the names the store holds are the names of the requirement lines (tested: store names == reference names)",
        "oracle configparser: options.install_requires value ends with the stripped text of the last dependency line (tested against the reference scan)",
        "oracle chardet/utf-8: the writer reads the same text the parser decoded (generated manifests are UTF-8)",
        "oracle difflib: number of changed line numbers (only used for the IndexError of the inline branch; tested)",
        "oracle tomlkit (PyprojectWriter) and libcst (SetupPyWriter): contract = valid TOML / Python afterwards, old requirements kept, "
        "new requirement once, dry_run leaves the file alone, second run adds nothing — TESTED only (differential), not proved",
        "str(requirement) of a dependency contains no newline and parses back to the same name (tested on every dependency used)",
    ],
}

IMPORTS = "From CM Require Import Harness.RunBase Harness.C14_run Model.Manifest.\n"
CORPUS_DIR = core.VERIF / "corpus" / "C14"


# ------------------------------------------------------------------------------------------------
# implementation access
# ------------------------------------------------------------------------------------------------
def impl():
    from codemodder.context import CodemodExecutionContext
    from codemodder.dependency import DefusedXML, Dependency, Fickling, FlaskWTF, License, Security
    from codemodder.dependency_management import DependencyManager
    from codemodder.dependency_management.requirements_txt_writer import RequirementsTxtWriter
    from codemodder.dependency_management.setupcfg_writer import SetupCfgWriter
    from codemodder.project_analysis.file_parsers import RequirementsTxtParser, SetupCfgParser
    from codemodder.project_analysis.python_repo_manager import PythonRepoManager
    return locals()


_DEPS = None


def dep_pool():
    """name -> Dependency; real ones plus spellings / extras / markers built with the public dataclass."""
    global _DEPS
    if _DEPS is None:
        I = impl()

        def mk(s):
            return I["Dependency"](Requirement(s), description="A test dependency.", _license=I["License"]("MIT", "https://x/"),
                                   oss_link="https://o/", package_link="https://p/")
        _DEPS = {
            "security": I["Security"], "defusedxml": I["DefusedXML"], "flask-wtf": I["FlaskWTF"], "fickling": I["Fickling"],
            "Security>=2": mk("Security>=2"), "My_Pkg[extra]": mk("My_Pkg[extra]>=1.0; python_version > '3.6'"),
            "zope.interface": mk("zope.interface"), "bar": mk("bar>=2"), "FOO": mk("FOO"),
        }
    return _DEPS


def dep_tuple(d):
    return (d.requirement.name, str(d.requirement))


def canon(n):
    return canonicalize_name(n)


# ------------------------------------------------------------------------------------------------
# reference readers of the four formats (independent of codemodder)
# ------------------------------------------------------------------------------------------------
_COMMENT = re.compile(r"(^|\s+)#.*$")


def ref_req(text: str):
    """pip's reading of a requirements file: logical lines (backslash continuation), comments, option lines.
    Returns (requirements [Requirement], invalid [str], options [str], continued {canonical names on continued lines})."""
    lines = text.lstrip("\ufeff").splitlines()
    logical, buf, cont = [], [], False
    for ln in lines:
        if ln.endswith("\\") and not re.match(r"^\s*#", ln):
            buf.append(ln.strip("\\"))
            continue
        if re.match(r"^\s*#", ln):
            ln = " " + ln
        if buf:
            buf.append(ln)
            logical.append(("".join(buf), True))
            buf = []
        else:
            logical.append((ln, False))
    if buf:
        logical.append(("".join(buf), True))
    reqs, invalid, options, continued = [], [], [], set()
    for l, was_cont in logical:
        l = _COMMENT.sub("", l).strip()
        if not l:
            continue
        if l.startswith("-"):
            options.append(l)
            continue
        l = re.split(r"\s+--", l)[0].strip()   # per-requirement options (--hash=...)
        try:
            r = Requirement(l)
            reqs.append(r)
            if was_cont:
                continued.add(canon(r.name))
        except InvalidRequirement:
            invalid.append(l)
    return reqs, invalid, options, continued


def nl_split(text: str):
    return re.split(r"\r\n|\r|\n", text)


def ref_cfg(text: str):
    """Reference scan of setup.cfg: the [options] install_requires entry.
    Returns dict(form = None|'multiline'|'inline'|'mixed', kref, entries [(line index, stripped text)], inline)."""
    lines = nl_split(text)
    sec, in_key, key_idx, inline, entries = None, False, None, "", []
    for i, ln in enumerate(lines):
        s = ln.strip()
        if s.startswith("[") and s.endswith("]") and not ln[:1].isspace():
            sec, in_key = s[1:-1].strip(), False
            continue
        if sec != "options":
            continue
        m = re.match(r"^install_requires\s*[=:]\s*(.*)$", ln)
        if m and key_idx is None:
            key_idx, inline, in_key = i, m.group(1).strip(), True
            continue
        if in_key:
            if not s:
                continue
            if ln[:1].isspace():
                if s.startswith(("#", ";")):
                    continue
                entries.append((i, s))
            else:
                in_key = False
    if key_idx is None:
        return {"form": None, "kref": None, "entries": [], "inline": ""}
    form = "mixed" if (inline and entries) else "inline" if inline else "multiline" if entries else "empty"
    return {"form": form, "kref": entries[-1][0] if entries and not inline else None, "entries": entries, "inline": inline}


def ref_cfg_reqs(text: str):
    """setuptools' reading (list-semi): dangling list = one requirement per line; otherwise split at ';'."""
    info = ref_cfg(text)
    if info["form"] in (None, "empty"):
        return [], [], info
    if info["form"] == "inline":
        chunks = [c.strip() for c in info["inline"].split(";") if c.strip()]
    else:
        chunks = ([info["inline"]] if info["inline"] else []) + [s for _, s in info["entries"]]
    reqs, invalid = [], []
    for c in chunks:
        if c.startswith("#"):
            continue
        try:
            reqs.append(Requirement(c))
        except InvalidRequirement:
            invalid.append(c)
    return reqs, invalid, info


def ref_toml_reqs(text: str):
    data = tomllib.loads(text)          # raises on invalid TOML
    reqs, invalid = [], []
    for s in (data.get("project") or {}).get("dependencies", []) or []:
        try:
            reqs.append(Requirement(s))
        except InvalidRequirement:
            invalid.append(s)
    poetry = ((data.get("tool") or {}).get("poetry") or {}).get("dependencies") or {}
    names = [canon(r.name) for r in reqs] + [canon(k) for k in poetry if k != "python"]
    return names, invalid


def ref_setup_py_reqs(text: str):
    tree = ast.parse(text)              # raises on invalid Python
    names, invalid = [], []
    for node in ast.walk(tree):
        if isinstance(node, ast.Call) and ((isinstance(node.func, ast.Name) and node.func.id == "setup") or
                                           (isinstance(node.func, ast.Attribute) and node.func.attr == "setup")):
            for kw in node.keywords:
                if kw.arg == "install_requires" and isinstance(kw.value, ast.List):
                    for e in kw.value.elts:
                        if isinstance(e, ast.Constant) and isinstance(e.value, str):
                            try:
                                names.append(canon(Requirement(e.value).name))
                            except InvalidRequirement:
                                invalid.append(e.value)
    return names, invalid


def ref_names_of(kind: str, text: str):
    """canonical names declared in a manifest + invalid entries, by format."""
    if kind == "requirements.txt":
        reqs, invalid, _, _ = ref_req(text)
        return [canon(r.name) for r in reqs], invalid
    if kind == "setup.cfg":
        reqs, invalid, _ = ref_cfg_reqs(text)
        return [canon(r.name) for r in reqs], invalid
    if kind == "pyproject.toml":
        return ref_toml_reqs(text)
    if kind == "setup.py":
        return ref_setup_py_reqs(text)
    raise ValueError(kind)


# ------------------------------------------------------------------------------------------------
# generators
# ------------------------------------------------------------------------------------------------
PKGS = ["foo", "bar", "Django", "requests", "zope.interface", "typing_extensions", "PyYAML", "ruamel.yaml", "attrs"]
SPELL = {"security": ["security", "Security", "SECURITY"], "defusedxml": ["defusedxml", "defusedXML", "DefusedXml"],
         "flask-wtf": ["flask-wtf", "Flask_WTF", "flask.wtf", "Flask-WTF", "flask__wtf"],
         "fickling": ["fickling", "Fickling"], "my-pkg": ["my-pkg", "My_Pkg", "my.pkg"], "bar": ["bar", "BAR"],
         "foo": ["foo", "Foo"], "zope-interface": ["zope.interface", "zope-interface", "Zope_Interface"]}
SPECS = ["", "==1.0", ">=1.2,<2", "~=3.1", "!=0.9", ">=0.1.0"]
MARKERS = ["", "", "", " ; python_version < '3.9'", "; sys_platform == 'win32'"]
EXTRAS = ["", "", "", "[extra]", "[a,b]"]


def gen_req_line(rng, name=None):
    name = name or rng.choice(PKGS)
    return name + rng.choice(EXTRAS) + rng.choice(SPECS) + rng.choice(MARKERS)


def gen_req_text(rng, deps):
    """returns (text, tags); the file is a list of blocks (a block = one logical line, possibly continued)"""
    tags = set()
    blocks = []
    n = rng.choice([0, 1, 1, 2, 3, 4, 6])
    for _ in range(n):
        k = rng.random()
        if k < 0.55:
            l = gen_req_line(rng)
            if rng.random() < 0.15:
                l += "  # pinned"
                tags.add("inline_comment")
            blocks.append([l])
        elif k < 0.65:
            blocks.append([rng.choice(["# a comment", "#", "   # indented comment", "# security==0.1 (commented out)"])])
            tags.add("comment")
        elif k < 0.73:
            blocks.append([""])
            tags.add("blank")
        elif k < 0.80:
            blocks.append([rng.choice(["-r other.txt", "-r  base.txt", "-e .", "--index-url https://pypi.org/simple", "-c constraints.txt"])])
            tags.add("option_line")
        elif k < 0.88:
            blocks.append([gen_req_line(rng) + " \\", "    --hash=sha256:" + "ab" * 32])
            tags.add("hash_continuation")
        elif k < 0.93:
            blocks.append(["  " + gen_req_line(rng) + "  "])
            tags.add("padded")
        else:
            blocks.append([rng.choice(PKGS) + " @ https://example.com/p.zip#sha1=da39"])
            tags.add("url_req")
    # the package already present, under some spelling
    if deps and rng.random() < 0.4:
        d = rng.choice(deps)
        key = canon(d[0])
        sp = rng.choice(SPELL.get(key, [d[0]]))
        at = rng.randint(0, len(blocks))
        if rng.random() < 0.75:
            blocks.insert(at, [sp + rng.choice(SPECS)])
            tags.add("present:" + ("same" if sp == d[0] else "other_spelling"))
        else:
            blocks.insert(at, [sp + "==1.3.1 \\", "    --hash=sha256:" + "cd" * 32])
            tags.add("present:continuation")
    lines = [l for b in blocks for l in b]
    nl = rng.choice(["\n"] * 6 + ["\r\n", "\r\n", "\r", "mixed"])
    if nl == "mixed":
        text = "".join(l + rng.choice(["\n", "\r\n"]) for l in lines)
        tags.add("nl:mixed")
    else:
        text = "".join(l + nl for l in lines)
        tags.add("nl:" + {"\n": "lf", "\r\n": "crlf", "\r": "cr"}[nl])
    if lines and rng.random() < 0.25:
        text = text.rstrip("\r\n")
        tags.add("no_final_newline")
    if not lines:
        text = rng.choice(["", "\n", "\n\n", "# only a comment", " "])
        tags.add("near_empty")
    if rng.random() < 0.04:
        text = "\ufeff" + text
        tags.add("bom")
    if rng.random() < 0.05 and (not text or text.endswith(("\n", "\r"))):
        text += "# d\u00e9pendances \u2713" + ("\r\n" if "\r\n" in text else "\n")
        tags.add("non_ascii")
    return text, tags


def gen_deps(rng, single=False):
    pool = dep_pool()
    keys = sorted(pool)
    n = 1 if single else rng.choice([1, 1, 1, 2, 2, 3])
    chosen = [rng.choice(keys) for _ in range(n)]
    return [pool[k] for k in chosen]


def gen_cfg_text(rng, deps):
    tags = set()
    ind = rng.choice(["    ", "    ", "  ", "\t"])
    out = []
    if rng.random() < 0.7:
        out += ["[metadata]", "name = proj", "version = 1.0", ""]
    out.append("[options]")
    pre_keys = [["packages = find:"], ["python_requires = >=3.8"], ["zip_safe = False"]]
    rng.shuffle(pre_keys)
    k = rng.randint(0, 3)
    for x in pre_keys[:k]:
        out += x
    entries = [gen_req_line(rng) for _ in range(rng.choice([1, 1, 2, 3, 4]))]
    if deps and rng.random() < 0.35:
        d = rng.choice(deps)
        sp = rng.choice(SPELL.get(canon(d[0]), [d[0]]))
        entries.insert(rng.randint(0, len(entries)), sp + rng.choice(SPECS))
        tags.add("present:" + ("same" if sp == d[0] else "other_spelling"))
    form = rng.random()
    dup_before = form < 0.12
    if dup_before:
        # the same line as the LAST install_requires entry appears earlier (setup_requires) — DESIGN §6 #11
        out += ["setup_requires =", ind + "wheel", ind + entries[-1]]
        tags.add("dup_stripped_line_before")
    if form > 0.88:
        sep = rng.choice([", ", "; ", ","]) if len(entries) > 1 else ""
        simple = [re.sub(r"\s*;.*$", "", e) for e in entries]
        out.append("install_requires = " + (sep.join(simple) if sep else simple[0]))
        tags.add("inline_list" + (":single" if not sep else ":sep" + sep.strip()))
    else:
        out.append("install_requires =")
        for i, e in enumerate(entries):
            if rng.random() < 0.12:
                out.append(ind + "# a comment inside the list")
                tags.add("comment_in_list")
            out.append(ind + e)
        tags.add("multiline")
    tail = rng.random()
    if tail < 0.5:
        post = [["include_package_data = True"], ["tests_require =", ind + "pytest", ind + entries[0]], []]
        out += rng.choice(post)
        out += ["", "[options.extras_require]", "dev =", ind + "black", ind + rng.choice(entries), "", "[tool:pytest]", "addopts = -q"]
        tags.add("content_after")
    elif tail < 0.7:
        out += ["", "[flake8]", "max-line-length = 100"]
        tags.add("content_after")
    else:
        tags.add("list_is_last")
    nl = rng.choice(["\n"] * 7 + ["\r\n"])
    tags.add("nl:" + ("lf" if nl == "\n" else "crlf"))
    text = "".join(l + nl for l in out)
    if rng.random() < 0.2:
        text = text[:-len(nl)]
        tags.add("no_final_newline")
    return text, tags


def gen_toml_text(rng, deps, present):
    form = rng.choice(["pep621", "pep621", "poetry", "pep621_nodeps", "no_project"])
    decl = [gen_req_line(rng) for _ in range(rng.randint(0, 3))]
    if present:
        decl.insert(rng.randint(0, len(decl)), present)
    if form == "pep621":
        body = "[build-system]\nrequires = [\"setuptools\"]\n\n[project]\nname = \"proj\"\nversion = \"1.0\"\n# deps\ndependencies = [\n"
        body += "".join(f'    "{d}",\n' for d in decl) + "]\n\n[tool.black]\nline-length = 100\n"
    elif form == "poetry":
        body = "[tool.poetry]\nname = \"proj\"\nversion = \"1.0\"\n\n[tool.poetry.dependencies]\npython = \"^3.9\"\n"
        for d in decl:
            r = Requirement(re.sub(r"\s*;.*$", "", d))
            spec, k = str(r.specifier), rng.random()
            if not spec:
                val = '"*"'
            elif spec.startswith("==") and k < 0.5:
                val = '"%s"' % spec[2:]                                   # bare version = exact pin in poetry
            elif r.extras or k > 0.85:
                val = '{version = "%s", extras = ["x"]}' % spec          # table form
            else:
                val = '"%s"' % spec
            body += f'{r.name} = {val}\n'
        body += "\n[tool.poetry.group.dev.dependencies]\npytest = \"*\"\n"
    elif form == "pep621_nodeps":
        body = "[project]\nname = \"proj\"\nversion = \"1.0\"\n"
    else:
        body = "[tool.black]\nline-length = 100\n"
    return body, form


def gen_setup_py_text(rng, deps, present):
    form = rng.choice(["multi", "multi", "oneline", "empty", "none"])
    decl = [gen_req_line(rng) for _ in range(rng.randint(1, 3))]
    if present:
        decl.insert(rng.randint(0, len(decl)), present)
    head = "from setuptools import setup\n\nsetup(\n    name=\"proj\",\n    version=\"1.0\",\n"
    if form == "multi":
        body = head + "    install_requires=[\n" + "".join(f"        {d!r},\n" for d in decl) + "    ],\n)\n"
    elif form == "oneline":
        body = head + "    install_requires=[" + ", ".join(repr(d) for d in decl) + "],\n)\n"
    elif form == "empty":
        body = head + "    install_requires=[],\n)\n"
    else:
        body = head + ")\n"
    return body, form


# ------------------------------------------------------------------------------------------------
# running the implementation on one manifest
# ------------------------------------------------------------------------------------------------
_counter = [0]


def fresh_dir(ctx) -> Path:
    _counter[0] += 1
    d = ctx.scratch / f"m{_counter[0]}"
    d.mkdir(parents=True)
    return d


def run_writer(ctx, fname: str, data: bytes, deps, dry: bool):
    """parse with the real parser, write with the real writer. Returns dict or None (no store)."""
    I = impl()
    d = fresh_dir(ctx)
    p = d / fname
    p.write_bytes(data)
    Parser, Writer = {"requirements.txt": (I["RequirementsTxtParser"], I["RequirementsTxtWriter"]),
                      "setup.cfg": (I["SetupCfgParser"], I["SetupCfgWriter"])}[fname]
    stores = Parser(d).parse()
    if not stores:
        shutil.rmtree(d, ignore_errors=True)
        return None
    store = stores[0]
    names = sorted(r.name for r in store.dependencies)
    kind, nums, exc = 0, [], None
    try:
        cs = Writer(store, d).write(list(deps), dry)
        if cs is not None:
            kind, nums = 2, [c.lineNumber for c in cs.changes]
    except Exception as e:  # an escaping exception is an observable outcome (WCrash)
        kind, exc = 1, repr(e)
    after = p.read_bytes()
    res = {"names": names, "kind": kind, "nums": nums, "after": after, "exc": exc, "dir": d}
    return res


def second_write(ctx, fname: str, data: bytes, deps):
    r = run_writer(ctx, fname, data, deps, False)
    if r is None:
        return None
    shutil.rmtree(r["dir"], ignore_errors=True)
    return r


def cfg_defined(data: bytes, d: Path):
    """what configparser hands to the writer (oracle input of the model)"""
    import configparser
    p = d / "probe.cfg"
    p.write_bytes(data)
    cp = configparser.ConfigParser()
    try:
        cp.read(p)
        if "options" not in cp:
            return None
        return cp["options"].get("install_requires", "")
    except configparser.Error:
        return None
    finally:
        p.unlink()


IMPORTS_WM = IMPORTS + "From CM Require Import Harness.C14_wm_run.\n"


def par_eval(ctx, name, case_type, cases, checks, chunk=100, workers=6, imports=None):
    """core.eval_bad_indices over slices of the case list in parallel (one coqc per slice)."""
    slices = [(off, cases[off:off + chunk]) for off in range(0, len(cases), chunk)]
    bad = {c: [] for c in checks}

    def one(s):
        off, part = s
        return off, core.eval_bad_indices(ctx, f"{name}_{off}", imports or IMPORTS, case_type, part, checks, chunk=chunk)
    with ThreadPoolExecutor(max_workers=workers) as ex:
        for off, res in ex.map(one, slices):
            for c in checks:
                bad[c].extend(off + i for i in res[c])
    return bad


def c_deps(deps):
    return clist([cpair(cstr(n), cstr(l)) for n, l in deps], "str * str")


def c_obs(kind, nums, after):
    return cpair(cN(kind), clist([cN(x) for x in nums], "N"), cstr(after))


# ------------------------------------------------------------------------------------------------
# spec on the re-parsed manifests (Python side)
# ------------------------------------------------------------------------------------------------
def reparse_spec(kind: str, before: str, after: str, deps) -> list[str]:
    """validity / completeness / duplicates by re-parsing with the reference reader. Returns complaints."""
    out = []
    try:
        nb, ib = ref_names_of(kind, before)
    except Exception as e:
        return []          # the manifest was not valid to begin with: nothing demanded
    try:
        na, ia = ref_names_of(kind, after)
    except Exception as e:
        return [f"{kind} no longer parses: {type(e).__name__}: {e}"]
    if Counter(ia) - Counter(ib):
        out.append(f"entries that no longer parse as requirements: {sorted((Counter(ia) - Counter(ib)).elements())}")
    cb, ca = Counter(nb), Counter(na)
    lost = cb - ca
    if lost:
        out.append(f"previously declared requirements lost: {sorted(lost.elements())}")
    wanted = []
    for n, _ in deps:
        if canon(n) not in wanted:
            wanted.append(canon(n))
    for w in wanted:
        expect = cb[w] if cb[w] >= 1 else 1
        if ca[w] != expect:
            out.append(f"requirement {w!r} declared {ca[w]} time(s) afterwards, expected {expect} (declared {cb[w]} time(s) before)")
    extra = ca - cb - Counter(wanted)
    if extra:
        out.append(f"requirements nobody asked for appeared: {sorted(extra.elements())}")
    return out


# ------------------------------------------------------------------------------------------------
# part 1a: requirements.txt in process
# ------------------------------------------------------------------------------------------------
def load_corpus(kind):
    out = []
    if CORPUS_DIR.is_dir():
        for f in sorted(CORPUS_DIR.glob("*.json")):
            body = json.loads(f.read_text())
            if body.get("kind") == kind:
                out.append((f.name, body))
    return out


def deps_from_names(names):
    return [dep_pool()[n] for n in names]


def other_spelling(deps, names, after):
    """a requested package is declared under a different raw spelling of the same canonical name and was added all the same"""
    for n, line in deps:
        same = [x for x in names if canon(x) == canon(n)]
        if same and n not in same and line in nl_split(after) + [l.strip() for l in nl_split(after)]:
            return True
    return False


def poetry_declares(files: dict, key: str) -> bool:
    """pyproject.toml has the package as a key of [tool.poetry.dependencies]"""
    try:
        data = tomllib.loads(files.get("pyproject.toml", ""))
    except Exception:
        return False
    deps = ((data.get("tool") or {}).get("poetry") or {}).get("dependencies") or {}
    return any(canon(k) == key for k in deps)


def classify_req(text, deps, impl_names, ref_reqs, continued):
    """input predicates of the finding classes (narrow): which known class could explain a failure on this input"""
    impl_c = {canon(n) for n in impl_names}
    ref_c = {canon(r.name) for r in ref_reqs}
    missing = ref_c - impl_c
    cls = set()
    if missing and missing <= continued:
        cls.add("kf_req_continuation_undeclared")
    if "\r" in text:
        cls.add("kf_manifest_crlf")
    return cls, missing


def part_req(ctx, n):
    rng = ctx.rng
    cases = []      # (desc, text, deps objects, dry)
    for fname, body in load_corpus("req"):
        cases.append((f"corpus:{fname}", body["text"], deps_from_names(body["deps"]), bool(body.get("dry_run", False)), {"corpus"}))
    for i in range(n):
        deps = gen_deps(rng)
        text, tags = gen_req_text(rng, [dep_tuple(d) for d in deps])
        cases.append(("gen", text, deps, rng.random() < 0.2, tags))
    if not ctx.quick():
        # exhaustive small scope: every file of <= 3 lines over 6 line kinds x {LF, CRLF} x final newline or not x 2 dependency lists
        import itertools
        kinds = [["foo==1.0"], ["Security>=1"], ["# c"], [""], ["-r o.txt"], ["security==1.3.1 \\", "    --hash=sha256:" + "ab" * 32]]
        pool = dep_pool()
        for k in range(0, 4):
            for combo in itertools.product(kinds, repeat=k):
                ls = [l for b in combo for l in b]
                for nl in ("\n", "\r\n"):
                    for final in (True, False):
                        text = nl.join(ls) + (nl if final and ls else "")
                        for dl in (["security"], ["security", "bar"]):
                            cases.append(("exhaustive", text, [pool[x] for x in dl], False, {"exhaustive"}))
    # malformed stream: model == implementation only
    junk = ["\x00\x01", "====\n", "foo==\n", "[section]\nx=1\n", "foo==1.0 \\", "a\x0cb\nc\x1dd\x85e f\n", "\n\n\n", "\t\n", "-r\n", "-rfoo\n",
            "#\n", "foo # c # d\n", "foo;bar\n", "  \r \r\n", "\r", "\r\r\n\n\r", "foo\\\n\\\n", "a" * 300 + "\n"]
    for j in junk:
        cases.append(("malformed", j, gen_deps(rng), False, {"malformed"}))

    coq_cases, clean_cases, names_cases, meta = [], [], [], []
    for desc, text, deps, dry, tags in cases:
        data = text.encode("utf-8")
        dt = [dep_tuple(d) for d in deps]
        for nm, ln in dt:
            # [line_contract] of C09_stores_reparse_manifest / lines_guard of W_manifest, on the real dependency objects
            I0 = impl()
            kept = I0["RequirementsTxtParser"](Path("."))._clean_lines([ln])
            ok = len(ln.splitlines()) == 1 and ln.splitlines()[0] == ln and len(kept) == 1
            if ok:
                try:
                    ok = canon(Requirement(next(iter(kept))).name) == canon(nm)
                except InvalidRequirement:
                    ok = False
            if not ok:
                ctx.mismatch("oracle contract line_contract (packaging parses an appended requirement line back to its name)",
                             f"dependency {nm!r} with line {ln!r}", {"kind": "req", "text": "", "deps": []})
        r = run_writer(ctx, "requirements.txt", data, deps, dry)
        for t in tags:
            ctx.count("req:" + t.split(":")[0] + (":" + t.split(":")[1] if ":" in t else ""))
        if r is None:
            ctx.count("req_outcome:no_store")
            ctx.case({"req": text, "outcome": "no store (parser)"})
            continue
        shutil.rmtree(r["dir"], ignore_errors=True)
        try:
            after = r["after"].decode("utf-8")
        except UnicodeDecodeError:
            ctx.mismatch("requirements.txt writer output", "file is not UTF-8 after the write", {"kind": "req", "text": text, "deps": dt})
            continue
        ctx.count("req_outcome:" + {0: "none", 1: "exception", 2: "changeset"}[r["kind"]] + (":dry" if dry else ""))
        ref_reqs, ref_invalid, _, continued = ref_req(text)
        ref_names = [x.name for x in ref_reqs]
        malformed = "malformed" in tags
        coq_cases.append(cpair(cstr(text), clist([cstr(x) for x in r["names"]], "str"), clist([cstr(x) for x in ref_names], "str"),
                               c_deps(dt), cbool(dry), c_obs(r["kind"], r["nums"], after)))
        I = impl()
        observed_clean = sorted(I["RequirementsTxtParser"](Path("."))._clean_lines(text.splitlines()))
        clean_cases.append(cpair(cstr(text), clist([cstr(x) for x in observed_clean], "str")))
        tbl = []
        for cl in observed_clean:
            try:
                nm = canon(Requirement(cl).name)
            except InvalidRequirement:
                nm = None
            tbl.append(cpair(cstr(cl), copt(None if nm is None else cstr(nm), "str")))
        if text.startswith("\ufeff"):
            ctx.count("req_names:bom_outside_parser_model")     # the parser decodes the BOM away (chardet: utf-8-sig), covers_m excludes it
            names_cases.append(cpair(cstr(""), clist([], "str"), clist([], "str * option str")))
        else:
            names_cases.append(cpair(cstr(text), clist([cstr(canon(x)) for x in r["names"]], "str"), clist(tbl, "str * option str")))
        meta.append({"desc": desc, "text": text, "deps": dt, "dep_keys": [k for d in deps for k, v in dep_pool().items() if v is d],
                     "dry": dry, "res": r, "after": after, "ref_names": ref_names, "ref_reqs": ref_reqs, "continued": continued, "malformed": malformed, "tags": tags})
        ctx.case({"requirements.txt": text, "deps": [l for _, l in dt], "dry_run": dry, "after": after},
                 nontrivial_key=("req", text, tuple(dt), dry) if (r["kind"] == 2 or any(canon(nm) in {canon(x) for x in r["names"]} for nm, _ in dt)) else None,
                 sample=(r["kind"] == 2 and len(text) > 20 and not malformed))

    bad = par_eval(ctx, "c14_req", "req_case", coq_cases, ["req_model_ok", "req_spec_ok", "req_spec_ok_mod_nl", "wm_req_sound", "wm_req_covers"],
                   chunk=60, imports=IMPORTS_WM)
    badn = par_eval(ctx, "c14_names", "names_case", names_cases, ["names_model_ok"], chunk=100, imports=IMPORTS_WM)
    for i in badn["names_model_ok"]:
        m = meta[i]
        ctx.mismatch("RequirementsTxtParser (names held by the store) vs Model.ManifestRun.names_req",
                     f"names held {m['res']['names']} for {m['text']!r}", {"kind": "req", "text": m["text"], "deps": m["dep_keys"]})
    for key, what in (("wm_req_sound", "answers another content than the writer wrote"), ("wm_req_covers", "does not answer on an LF manifest the writer updated")):
        for i in bad[key]:
            m = meta[i]
            ctx.mismatch("RequirementsTxtWriter vs Model.ManifestRun.W_manifest (writer oracle of C03/C09 corollaries)",
                         f"W_manifest {what}: text={m['text']!r} deps={m['deps']} after={m['after']!r}",
                         {"kind": "req", "text": m["text"], "deps": m["dep_keys"], "dry_run": m["dry"]})
    badc = par_eval(ctx, "c14_clean", "clean_case", clean_cases, ["clean_model_ok"], chunk=100)
    for i in badc["clean_model_ok"]:
        m = meta[i]
        ctx.mismatch("RequirementsTxtParser._clean_lines/str.splitlines vs Model.Manifest.clean_lines/splitlines",
                     f"cleaned lines differ for {m['text']!r}", {"kind": "req", "text": m["text"], "deps": m["dep_keys"]})
    for i in bad["req_model_ok"]:
        m = meta[i]
        ctx.mismatch("RequirementsTxtWriter.write vs Model.Manifest.req_write",
                     f"text={m['text']!r} names={m['res']['names']} deps={m['deps']} dry={m['dry']}: observed kind={m['res']['kind']} "
                     f"nums={m['res']['nums']} after={m['after']!r} exc={m['res']['exc']}",
                     {"kind": "req", "text": m["text"], "deps": m["dep_keys"], "dry_run": m["dry"]})
    spec_bad, modnl_bad = set(bad["req_spec_ok"]), set(bad["req_spec_ok_mod_nl"])
    for i, m in enumerate(meta):
        if m["malformed"]:
            continue
        replay = {"kind": "req", "text": m["text"], "deps": m["dep_keys"], "dry_run": m["dry"]}
        classes, missing = classify_req(m["text"], m["deps"], m["res"]["names"], m["ref_reqs"], m["continued"])
        impl_c, ref_c = sorted({canon(x) for x in m["res"]["names"]}), sorted({canon(x) for x in m["ref_names"]})
        complaints = []
        # oracle contract: the names the store holds are the names declared in the file
        if impl_c != ref_c:
            cls = "kf_req_continuation_undeclared" if "kf_req_continuation_undeclared" in classes else "c14_req_names_seen"
            ctx.violation(cls, f"requirements.txt {m['text']!r}: the store holds names {impl_c}, the file declares {ref_c}", replay)
            names_explained = cls.startswith("kf_")
        else:
            names_explained = False
        if i in spec_bad:
            if "kf_manifest_crlf" in classes and i not in modnl_bad:
                ctx.violation("kf_manifest_crlf", f"requirements.txt with CR line endings {m['text']!r} rewritten as {m['after']!r}: "
                              "old content is not preserved byte for byte (line endings converted to LF)", replay)
            elif names_explained:
                pass   # consequence of the names defect reported above
            elif other_spelling(m["deps"], m["res"]["names"], m["after"]):
                ctx.violation("kf_has_requirement_exact_name", f"requirements.txt {m['text']!r} declares {m['res']['names']} and still received "
                              f"{m['deps']}: {m['after']!r} (has_requirement compares raw names)", replay)
            else:
                ctx.violation("c14_req_spec", f"requirements.txt {m['text']!r} + {m['deps']} (dry_run={m['dry']}) became {m['after']!r} "
                              f"(result kind {m['res']['kind']}): not 'old text + missing final newline + one line per needed requirement'", replay)
        if m["res"]["kind"] == 2 and not m["dry"]:
            complaints = reparse_spec("requirements.txt", m["text"], m["after"], m["deps"])
            if complaints and not names_explained:
                ctx.violation("c14_req_reparse", f"requirements.txt {m['text']!r} -> {m['after']!r}: " + "; ".join(complaints), replay)
            # second run adds nothing
            r2 = second_write(ctx, "requirements.txt", m["after"].encode("utf-8"), deps_from_names(m["dep_keys"]))
            if r2 is not None and (r2["kind"] != 0 or r2["after"] != m["after"].encode("utf-8")):
                if not names_explained:
                    ctx.violation("c14_req_second_run", f"second write on {m['after']!r} changed it again to {r2['after']!r}", replay)
        if m["dry"] and m["after"] != m["text"]:
            ctx.violation("c14_dry_run_writes", f"dry_run changed requirements.txt {m['text']!r} into {m['after']!r}", replay)


# ------------------------------------------------------------------------------------------------
# part 1b: setup.cfg in process
# ------------------------------------------------------------------------------------------------
def part_cfg(ctx, n):
    rng = ctx.rng
    cases = []
    for fname, body in load_corpus("cfg"):
        cases.append((f"corpus:{fname}", body["text"], deps_from_names(body["deps"]), bool(body.get("dry_run", False)), {"corpus"}))
    for i in range(n):
        deps = gen_deps(rng)
        text, tags = gen_cfg_text(rng, [dep_tuple(d) for d in deps])
        cases.append(("gen", text, deps, rng.random() < 0.2, tags))
    for j in ["[options]\ninstall_requires =\n", "[options]\n", "[metadata]\nname = x\n", "[options]\ninstall_requires = \n\n", "garbage\n",
              "[options]\ninstall_requires =\n    foo\n    foo\n", "[options]\ninstall_requires =\n\n    foo\n\n\n[x]\n"]:
        cases.append(("malformed", j, gen_deps(rng), False, {"malformed"}))

    coq_cases, meta = [], []
    for desc, text, deps, dry, tags in cases:
        data = text.encode("utf-8")
        dt = [dep_tuple(d) for d in deps]
        r = run_writer(ctx, "setup.cfg", data, deps, dry)
        for t in tags:
            ctx.count("cfg:" + t)
        if r is None:
            ctx.count("cfg_outcome:no_store")
            ctx.case({"setup.cfg": text, "outcome": "no store (parser)"})
            continue
        defined = cfg_defined(data, r["dir"])
        shutil.rmtree(r["dir"], ignore_errors=True)
        after = r["after"].decode("utf-8")
        ctx.count("cfg_outcome:" + {0: "none", 1: "exception", 2: "changeset"}[r["kind"]] + (":dry" if dry else ""))
        reqs, invalid, info = ref_cfg_reqs(text)
        ref_names = [x.name for x in reqs]
        # oracle contract of configparser used by C14_cfg_insert_after_last
        if info["form"] == "multiline" and defined is not None:
            if defined.split("\n")[-1] != info["entries"][-1][1]:
                ctx.mismatch("configparser value vs reference scan", f"last line of install_requires {defined!r} is not {info['entries'][-1][1]!r}",
                             {"kind": "cfg", "text": text, "deps": []})
        coq_cases.append(cpair(cstr(text), copt(None if defined is None else cstr(defined), "str"),
                               clist([cstr(x) for x in r["names"]], "str"), clist([cstr(x) for x in ref_names], "str"),
                               c_deps(dt), cbool(dry), copt(None if info["kref"] is None else cN(info["kref"]), "N"),
                               c_obs(r["kind"], [], after)))
        meta.append({"desc": desc, "text": text, "deps": dt, "dep_keys": [k for d in deps for k, v in dep_pool().items() if v is d],
                     "dry": dry, "res": r, "after": after, "ref_names": ref_names, "info": info, "malformed": "malformed" in tags})
        ctx.case({"setup.cfg": text, "deps": [l for _, l in dt], "dry_run": dry, "after": after},
                 nontrivial_key=("cfg", text, tuple(dt), dry) if (r["kind"] == 2 or any(canon(nm) in {canon(x) for x in r["names"]} for nm, _ in dt)) else None,
                 sample=(r["kind"] == 2 and not dry and "malformed" not in tags and len(ctx.samples) < 4))

    bad = par_eval(ctx, "c14_cfg", "cfg_case", coq_cases,
                   ["cfg_model_ok", "cfg_spec_ok", "cfg_spec_ok_mod_nl", "cfg_guard_unique", "cfg_dupline_predicted", "cfg_inline_predicted",
                    "wm_cfg_sound", "wm_cfg_covers"], chunk=50, imports=IMPORTS_WM)
    uncovered = set(bad["wm_cfg_covers"])
    for i in bad["wm_cfg_sound"]:
        m = meta[i]
        ctx.mismatch("SetupCfgWriter vs Model.ManifestRun.W_manifest (writer oracle of C03/C09 corollaries)",
                     f"W_manifest answers another content than the writer wrote: text={m['text']!r} deps={m['deps']} after={m['after']!r}",
                     {"kind": "cfg", "text": m["text"], "deps": m["dep_keys"], "dry_run": m["dry"]})
    for i, m in enumerate(meta):
        # inside its guard (LF manifest, dangling list, clean insertion) the oracle must answer; outside it is counted
        inside = ("\r" not in m["text"] and m["res"]["kind"] == 2 and m["info"]["form"] == "multiline" and not m["malformed"]
                  and i not in set(bad["cfg_spec_ok"]))
        if m["res"]["kind"] == 2:
            ctx.count("cfg_writer_oracle:" + ("answers" if i not in uncovered else "outside_guard"))
        if inside and i in uncovered:
            ctx.mismatch("SetupCfgWriter vs Model.ManifestRun.W_manifest (writer oracle of C03/C09 corollaries)",
                         f"W_manifest does not answer although the manifest is LF, the list dangling and the insertion clean: {m['text']!r} + {m['deps']}",
                         {"kind": "cfg", "text": m["text"], "deps": m["dep_keys"], "dry_run": m["dry"]})
    for i in bad["cfg_model_ok"]:
        m = meta[i]
        ctx.mismatch("SetupCfgWriter.write vs Model.Manifest.cfg_write",
                     f"text={m['text']!r} names={m['res']['names']} deps={m['deps']} dry={m['dry']}: observed kind={m['res']['kind']} "
                     f"after={m['after']!r} exc={m['res']['exc']}", {"kind": "cfg", "text": m["text"], "deps": m["dep_keys"], "dry_run": m["dry"]})
    spec_bad, modnl_bad, dup = set(bad["cfg_spec_ok"]), set(bad["cfg_spec_ok_mod_nl"]), set(bad["cfg_guard_unique"])
    not_dup_pred, not_inline_pred = set(bad["cfg_dupline_predicted"]), set(bad["cfg_inline_predicted"])
    for i, m in enumerate(meta):
        if m["malformed"]:
            continue
        replay = {"kind": "cfg", "text": m["text"], "deps": m["dep_keys"], "dry_run": m["dry"]}
        info, text = m["info"], m["text"]
        after = m["after"]
        inline = info["form"] == "inline"
        lines = nl_split(text)
        impl_c, ref_c = sorted({canon(x) for x in m["res"]["names"]}), sorted({canon(x) for x in m["ref_names"]})
        # A known-finding class is assigned only when the OBSERVED output is the one the class predicts (REVIEW_B item 13):
        #  inline list  : the key line carries the value and now ends with `, dep1,[,dep2,]` (model's comma branch);
        #  dupline      : the new lines follow the first, EARLIER line with the same stripped text as the last list line;
        #  no final nl  : the last list line was the unterminated last line and the first requirement is glued to it.
        inline_seen = inline and not m["dry"] and i not in not_inline_pred
        if inline and m["dry"] and m["res"]["names"] == [] and len(m["ref_names"]) >= 2 and i not in set(bad["cfg_model_ok"]):
            inline_seen = True    # dry run: nothing on disk to compare; the class predicts a store without names, and the model agrees
        dup_seen = (i in dup) and not m["dry"] and i not in not_dup_pred
        glued_seen = (info["kref"] is not None and info["kref"] == len(lines) - 1 and not m["dry"]
                      and after.startswith(text) and len(after) > len(text) and after[len(text)] not in "\r\n")
        explained = "kf_setupcfg_inline_list" if inline_seen else "kf_setupcfg_dupline" if dup_seen else \
            "kf_setupcfg_no_final_newline" if glued_seen else None
        if impl_c != ref_c:
            # predicted by the inline class: a value with several entries on the key line leaves the store without any name
            pred = inline and m["res"]["names"] == [] and len(m["ref_names"]) >= 2
            ctx.violation("kf_setupcfg_inline_list" if pred else "c14_cfg_names_seen",
                          f"setup.cfg {text!r}: the store holds names {impl_c}, the file declares {ref_c}", replay)
        if m["res"]["kind"] == 1:
            # predicted by the inline class exactly where the MODEL raises too (comma branch, >= 2 dependencies to add)
            pred = inline and "IndexError" in str(m["res"]["exc"]) and i not in set(bad["cfg_model_ok"])
            ctx.violation("kf_setupcfg_inline_list" if pred else "c14_cfg_exception",
                          f"setup.cfg writer raised {m['res']['exc']} on {text!r} + {m['deps']} (file afterwards {after!r})", replay)
        if i in spec_bad:
            if "\r" in text and i not in modnl_bad:
                ctx.violation("kf_manifest_crlf", f"setup.cfg with CRLF line endings {text!r} rewritten as {after!r}: line endings converted to LF", replay)
            elif explained in ("kf_setupcfg_dupline", "kf_setupcfg_no_final_newline"):
                ctx.violation(explained, f"setup.cfg {text!r} + {m['deps']} became {after!r}: new requirement lines are not "
                              "inserted (alone) after the last install_requires line", replay)
            elif other_spelling(m["deps"], m["res"]["names"], after):
                ctx.violation("kf_has_requirement_exact_name", f"setup.cfg {text!r} declares {m['res']['names']} and still received "
                              f"{m['deps']}: {after!r} (has_requirement compares raw names)", replay)
            elif explained == "kf_setupcfg_inline_list":
                ctx.violation(explained, f"setup.cfg {text!r} + {m['deps']} became {after!r} (kind {m['res']['kind']}): "
                              "the inline install_requires value is not read as a list of requirements", replay)
            else:
                ctx.violation("c14_cfg_spec", f"setup.cfg {text!r} + {m['deps']} (dry_run={m['dry']}) became {after!r} (kind {m['res']['kind']}): "
                              "not 'new lines with the list's indentation right after the last install_requires line, rest untouched'", replay)
        if m["res"]["kind"] == 2 and not m["dry"]:
            complaints = reparse_spec("setup.cfg", text, after, m["deps"])
            if complaints:
                ctx.violation(explained or "c14_cfg_reparse", f"setup.cfg {text!r} -> {after!r}: " + "; ".join(complaints), replay)
            r2 = second_write(ctx, "setup.cfg", after.encode("utf-8"), deps_from_names(m["dep_keys"]))
            if r2 is not None and (r2["kind"] != 0 or r2["after"] != after.encode("utf-8")):
                # predicted second-run behaviour of the class: the same surgery once more (inline: `,, dep,` again; dupline: again after the earlier line)
                ctx.violation(explained or "c14_cfg_second_run", f"second write on {after!r} changed it again to {r2['after']!r}", replay)
        if m["dry"] and m["after"] != text:
            ctx.violation("c14_dry_run_writes", f"dry_run changed setup.cfg {text!r} into {m['after']!r}", replay)


# ------------------------------------------------------------------------------------------------
# part 1c: process_dependencies over real stores (all four formats), in process
# ------------------------------------------------------------------------------------------------
KIND_OF = {"pyproject.toml": "Toml", "setup.py": "SetupPy", "requirements.txt": "ReqTxt", "setup.cfg": "SetupCfg"}


def gen_project(rng, dep):
    """a project with a random subset of manifests; returns files {rel: text}, tags"""
    files, tags = {}, set()
    key = canon(dep[0])
    kinds = [k for k in ["pyproject.toml", "setup.py", "requirements.txt", "setup.cfg"] if rng.random() < 0.45]
    present_in = set(k for k in kinds if rng.random() < 0.25)
    for k in kinds:
        present = None
        if k in present_in:
            present = rng.choice(SPELL.get(key, [dep[0]])) + rng.choice([">=1.0", "", "==1.3.1"])
        if k == "pyproject.toml":
            files[k], form = gen_toml_text(rng, [dep], present)
            if form == "poetry" and present and rng.random() < 2:
                pass
        elif k == "setup.py":
            files[k], form = gen_setup_py_text(rng, [dep], present)
        elif k == "requirements.txt":
            lines = [gen_req_line(rng) for _ in range(rng.randint(0, 3))]
            if present:
                lines.insert(rng.randint(0, len(lines)), present)
            files[k] = "".join(l + "\n" for l in lines) or "# nothing yet\n"
            form = "plain"
            if rng.random() < 0.15:
                files["sub/requirements.txt"] = "pytest\n"
                tags.add("nested_requirements")
        else:
            entries = [gen_req_line(rng) for _ in range(rng.randint(1, 3))]
            if present:
                entries.insert(rng.randint(0, len(entries)), present)
            form = rng.choice(["multiline", "multiline", "multiline", "no_install_requires"])
            files[k] = "[metadata]\nname = proj\n\n[options]\npackages = find:\n" + (
                "install_requires =\n" + "".join("    " + e + "\n" for e in entries) if form == "multiline" else "") + "\n[flake8]\nmax-line-length = 100\n"
        tags.add(f"{k}:{form}" + (":declares" if present else ""))
    if not kinds:
        tags.add("no_manifest")
    return files, tags


def declared_count(files: dict, key: str):
    """how often the canonical name is declared over all manifests (reference readers); None when one does not parse"""
    total = 0
    for rel, text in files.items():
        base = rel.rsplit("/", 1)[-1]
        if base in KIND_OF:
            try:
                names, _ = ref_names_of(base, text)
            except Exception:
                return None
            total += names.count(key)
    return total


def single_quoted_declares(text: str, key: str) -> bool:
    """setup.py declares the package in a single-quoted string literal"""
    for s in re.findall(r"'([^'\n]*)'", text):
        try:
            if canon(Requirement(s).name) == key:
                return True
        except InvalidRequirement:
            pass
    return False


def classify_redeclared(before: dict, changed: list, key: str) -> str:
    """the package was declared before the run and is declared MORE often afterwards: which known defect explains it.
    A manifest that declares it and was extended all the same did not recognise its own entry; otherwise the
    declaring manifest answered None and a later one received the requirement."""
    for rel in changed:
        base = rel.rsplit("/", 1)[-1]
        try:
            names, _ = ref_names_of(base, before[rel])
        except Exception:
            continue
        if key not in names:
            continue
        text = before[rel]
        if base == "pyproject.toml" and poetry_declares({"pyproject.toml": text}, key):
            return "kf_poetry_entry_unrecognised"
        if base == "setup.cfg" and ref_cfg(text)["form"] == "inline":
            return "kf_setupcfg_inline_list"
        if base == "requirements.txt" and key in ref_req(text)[3]:
            return "kf_req_continuation_undeclared"
        if base == "setup.py" and single_quoted_declares(text, key):
            return "kf_setuppy_single_quoted_unrecognised"
        return "c14_declared_not_recognised"
    return "kf_declared_elsewhere_fallthrough"


class _StubCodemod:
    id = "pixee:python/verif-stub"
    description = "STUB DESCRIPTION."


def run_loop(ctx, files: dict, dep, dry: bool):
    I = impl()
    d = fresh_dir(ctx)
    core.write_tree(d, files)
    (d / "app.py").write_text("print(1)\n")
    # what each store's writer answers: asked on a COPY of the project, one fresh copy per store
    outs, kinds, crashed = [], [], False
    n_stores = len(I["PythonRepoManager"](d).package_stores)
    for i in range(n_stores):
        dc = fresh_dir(ctx)
        shutil.copytree(d, dc, dirs_exist_ok=True)
        st = I["PythonRepoManager"](dc).package_stores[i]
        kinds.append(st.type.value)
        try:
            outs.append(I["DependencyManager"](st, dc).write([dep], True) is not None)
        except Exception:
            crashed = True
            outs.append(False)
        shutil.rmtree(dc, ignore_errors=True)
    before = {rel: (d / rel).read_text() for rel in files}
    c = I["CodemodExecutionContext"](d, dry, False, None, None, I["PythonRepoManager"](d), [], [])
    c.add_dependencies(_StubCodemod.id, {dep})
    exc = None
    try:
        c.process_dependencies(_StubCodemod.id)
    except Exception as e:
        exc = repr(e)
    stores = c.repo_manager.package_stores
    rels = [str(Path(s.file).relative_to(d)) for s in stores]
    after = {rel: (d / rel).read_text() for rel in files}
    changed_files = [rel for rel in files if before[rel] != after[rel]]
    cs_paths = [x.path for x in c.get_changesets(_StubCodemod.id)]
    desc = c.add_description(_StubCodemod)
    upd = c._dependency_update_by_codemod.get(_StubCodemod.id)
    upd_idx = next((i for i, s in enumerate(stores) if s is upd), None)
    shutil.rmtree(d, ignore_errors=True)
    return {"outs": outs, "kinds": kinds, "rels": rels, "before": before, "after": after, "changed": changed_files, "cs_paths": cs_paths,
            "desc": desc, "upd_idx": upd_idx, "exc": exc, "probe_crashed": crashed}


def note_of(desc: str, res):
    if "we were unable to automatically add the dependency" in desc:
        return 1
    m = re.search(r"automatically added this dependency to your project's `([^`]+)` file", desc)
    if m:
        return 2 + res["upd_idx"] if res["upd_idx"] is not None and res["kinds"][res["upd_idx"]] == m.group(1) else 999
    return 0


def part_loop(ctx, n):
    rng = ctx.rng
    order = (ctx.tables or {}).get("potential_store_order") or ["Toml", "SetupPy", "ReqTxt", "SetupCfg"]
    cases = []
    for fname, body in load_corpus("loop"):
        cases.append((f"corpus:{fname}", body["files"], dep_pool()[body["dep"]], bool(body.get("dry_run", False)), {"corpus"}, body["dep"]))
    for i in range(n):
        k = rng.choice(["security", "defusedxml", "flask-wtf", "fickling"])
        dep = dep_pool()[k]
        files, tags = gen_project(rng, dep_tuple(dep))
        cases.append(("gen", files, dep, rng.random() < 0.2, tags, k))
    coq_cases, meta = [], []
    for desc, files, dep, dry, tags, depkey in cases:
        res = run_loop(ctx, files, dep, dry)
        for t in tags:
            ctx.count("project:" + t)
        replay = {"kind": "loop", "files": files, "dep": depkey, "dry_run": dry}
        if res["exc"] or res["probe_crashed"]:
            cls = "c14_poetry_declared_crash" if poetry_declares(files, canon(dep.requirement.name)) else "c14_loop_exception"
            ctx.violation(cls, f"process_dependencies raised {res['exc']} while adding {dep.requirement} to {files}", replay)
            continue
        # store order follows the table
        pos = [order.index(KIND_OF[k]) for k in res["kinds"]]
        if pos != sorted(pos):
            ctx.mismatch("PythonRepoManager.package_stores order vs Tables.potential_store_order", f"stores {res['kinds']} not in table order {order}", replay)
        # in dry-run no file may change, but the changeset is still recorded
        if dry:
            if res["changed"]:
                ctx.violation("c14_dry_run_writes", f"dry_run changed {res['changed']} in {files}", replay)
            changed_idx = [res["rels"].index(p) for p in res["cs_paths"] if p in res["rels"]]
        else:
            changed_idx = sorted(res["rels"].index(rel) for rel in res["changed"])
            if sorted(res["cs_paths"]) != sorted(res["changed"]):
                ctx.violation("c14_changeset_vs_disk", f"changesets name {res['cs_paths']} but the files that changed are {res['changed']}", replay)
        note = note_of(res["desc"], res)
        coq_cases.append(cpair(clist([cbool(b) for b in res["outs"]], "bool"), "true", clist([cN(i) for i in changed_idx], "N"), cN(note)))
        meta.append((files, dep, dry, res, replay, tags))
        ctx.count(f"loop_stores:{len(res['outs'])}")
        ctx.count("loop_outcome:" + ("added" if changed_idx else "none"))
        ctx.case({"manifests": files, "dep": str(dep.requirement), "dry_run": dry, "writer_answers": res["outs"], "changed": res["changed"]},
                 nontrivial_key=("loop", json.dumps(files, sort_keys=True), depkey, dry) if len(res["outs"]) >= 1 else None,
                 sample=len(res["outs"]) >= 2 and len(ctx.samples) < 6)
        # spec over ALL manifests by re-parsing: old requirements kept, the new one exactly once in the whole project
        if not dry:
            key = canon(dep.requirement.name)
            cb, ca = declared_count(res["before"], key), declared_count(res["after"], key)
            if cb is not None:
                if ca is None:
                    ctx.violation("c14_manifest_invalid", f"a manifest no longer parses after adding {dep.requirement}: {res['after']}", replay)
                else:
                    for rel in files:
                        base = rel.rsplit("/", 1)[-1]
                        if base in KIND_OF and res["before"][rel] != res["after"][rel]:
                            comp = reparse_spec(base, res["before"][rel], res["after"][rel], [dep_tuple(dep)])
                            comp = [x for x in comp if "declared" not in x or cb == 0]
                            if comp:
                                ctx.violation("c14_" + KIND_OF[base].lower() + "_reparse", f"{rel}: {res['before'][rel]!r} -> {res['after'][rel]!r}: " + "; ".join(comp), replay)
                    if cb >= 1 and ca != cb:
                        ctx.violation(classify_redeclared(res["before"], res["changed"], key),
                                      f"{key!r} was declared {cb}x in the project ({[r for r in files]}) and is declared {ca}x afterwards "
                                      f"(changed: {res['changed']}): " + "; ".join(f"{r}: {res['before'][r]!r} -> {res['after'][r]!r}" for r in res["changed"]), replay)
                    elif cb == 0 and any(res["outs"]) and ca != 1:
                        ctx.violation("c14_new_requirement_count", f"{key!r} declared {ca}x in the project afterwards, expected once: {res['after']}", replay)
    bad = core.eval_bad_indices(ctx, "c14_loop", IMPORTS, "loop_case", coq_cases, ["loop_model_ok", "loop_spec_ok"], chunk=400)
    for i in bad["loop_model_ok"]:
        files, dep, dry, res, replay, tags = meta[i]
        ctx.mismatch("CodemodExecutionContext.process_dependencies/add_description vs Model.Manifest.process_dependencies",
                     f"writer answers {res['outs']} ({res['kinds']}): changed {res['changed']}, changesets {res['cs_paths']}, note {note_of(res['desc'], res)}", replay)
    for i in bad["loop_spec_ok"]:
        files, dep, dry, res, replay, tags = meta[i]
        ctx.violation("c14_not_first_store_only", f"writer answers {res['outs']} ({res['kinds']}): manifests changed {res['changed']}, "
                      f"changesets {res['cs_paths']}, notification code {note_of(res['desc'], res)} — expected only the first able manifest", replay)


# ------------------------------------------------------------------------------------------------
# part 1d: SEVERAL codemods of one run over the shared package stores (REVIEW_B item 16)
# ------------------------------------------------------------------------------------------------
PROBE_DEP = None


def probe_dep():
    global PROBE_DEP
    if PROBE_DEP is None:
        I = impl()
        PROBE_DEP = I["Dependency"](Requirement("zzz-verif-probe==1.0"), description="probe", _license=I["License"]("MIT", "https://x/"),
                                    oss_link="https://o/", package_link="https://p/")
    return PROBE_DEP


def run_multi(ctx, files: dict, deps_per_codemod: list, dry: bool):
    """One CodemodExecutionContext (stores parsed once), process_dependencies for codemod 1, 2, ... in order."""
    I = impl()
    d = fresh_dir(ctx)
    core.write_tree(d, files)
    (d / "app.py").write_text("print(1)\n")
    # model inputs, asked on fresh COPIES: names each store holds, whether its writer can write at all, what it refuses
    stores_in, kinds, crashed = [], [], False
    n_stores = len(I["PythonRepoManager"](d).package_stores)
    distinct = []
    for dl in deps_per_codemod:
        for dep in dl:
            if all(dep is not x for x in distinct):
                distinct.append(dep)
    for i in range(n_stores):
        answers = {}
        held = None
        for dep in [probe_dep()] + distinct:
            dc = fresh_dir(ctx)
            shutil.copytree(d, dc, dirs_exist_ok=True)
            st = I["PythonRepoManager"](dc).package_stores[i]
            if held is None:
                held = sorted(r.name for r in st.dependencies)
                kinds.append(st.type.value)
            try:
                answers[id(dep)] = I["DependencyManager"](st, dc).write([dep], True) is not None
            except Exception:
                crashed = True
                answers[id(dep)] = False
            shutil.rmtree(dc, ignore_errors=True)
        writable = answers[id(probe_dep())]
        held_c = {canon(x) for x in held}
        refused = [dep.requirement.name for dep in distinct
                   if writable and not answers[id(dep)] and canon(dep.requirement.name) not in held_c]
        stores_in.append((held, writable, refused))
    c = I["CodemodExecutionContext"](d, dry, False, None, None, I["PythonRepoManager"](d), [], [])
    observed, steps, exc = [], [], None
    snap = {rel: (d / rel).read_text() for rel in files}
    for k, dl in enumerate(deps_per_codemod):
        class Stub:
            id = f"pixee:python/verif-stub-{k}"
            description = "STUB DESCRIPTION."
        if dl:
            c.add_dependencies(Stub.id, set(dl))
        try:
            c.process_dependencies(Stub.id)
        except Exception as e:
            exc = repr(e)
            break
        stores = c.repo_manager.package_stores
        rels = [str(Path(s.file).relative_to(d)) for s in stores]
        now = {rel: (d / rel).read_text() for rel in files}
        changed = [rel for rel in files if snap[rel] != now[rel]]
        cs_paths = [x.path for x in c.get_changesets(Stub.id)]
        desc = c.add_description(Stub)
        upd = c._dependency_update_by_codemod.get(Stub.id)
        upd_idx = next((i for i, s in enumerate(stores) if s is upd), None)
        note = note_of(desc, {"upd_idx": upd_idx, "kinds": kinds})
        idx = sorted(rels.index(p) for p in (cs_paths if dry else changed) if p in rels)
        observed.append((idx, note))
        steps.append({"deps": [str(x.requirement) for x in dl], "changed": changed, "changesets": cs_paths, "note": note,
                      "before": snap, "after": now, "rels": rels})
        snap = now
    shutil.rmtree(d, ignore_errors=True)
    return {"stores": stores_in, "kinds": kinds, "observed": observed, "steps": steps, "exc": exc, "probe_crashed": crashed}


def c_store(s):
    held, writable, refused = s
    return cpair(clist([cstr(x) for x in held], "str"), cbool(writable), clist([cstr(x) for x in refused], "str"))


def part_run(ctx, n):
    rng = ctx.rng
    pool = dep_pool()
    cases = []
    for fname, body in load_corpus("run"):
        cases.append((f"corpus:{fname}", body["files"], body["codemods"], bool(body.get("dry_run", False)), {"corpus"}))
    for i in range(n):
        k1 = rng.choice(["security", "defusedxml", "flask-wtf", "fickling"])
        files, tags = gen_project(rng, dep_tuple(pool[k1]))
        shape = rng.random()
        if shape < 0.55:
            cms = [[k1], [k1]]                       # two codemods, same package (url-sandbox + sandbox-process-creation)
        elif shape < 0.75:
            k2 = rng.choice(["security", "defusedxml", "fickling", "Security>=2"])
            cms = [[k1], [k2], [k1]]
        elif shape < 0.9:
            cms = [[k1], [], [rng.choice(["security", "defusedxml"])]]
        else:
            cms = [[k1], [rng.choice(["Security>=2", "FOO", "bar"])]]
        cases.append(("gen", files, cms, rng.random() < 0.15, tags | {f"codemods:{len(cms)}"}))
    coq_cases, meta = [], []
    for desc, files, cms, dry, tags in cases:
        deps_per = [[pool[k] for k in dl] for dl in cms]
        res = run_multi(ctx, files, deps_per, dry)
        for t in tags:
            ctx.count("run:" + t)
        replay = {"kind": "run", "files": files, "codemods": cms, "dry_run": dry}
        if res["exc"] or res["probe_crashed"]:
            ctx.violation("c14_loop_exception", f"process_dependencies raised {res['exc']} in a run of codemods {cms} over {files}", replay)
            continue
        coq_cases.append(cpair(clist([c_store(s) for s in res["stores"]], "list str * bool * list str"),
                               clist([c_deps([dep_tuple(x) for x in dl]) for dl in deps_per], "list (str * str)"),
                               clist([cpair(clist([cN(i) for i in idx], "N"), cN(note)) for idx, note in res["observed"]], "list N * N")))
        meta.append((files, cms, dry, res, replay))
        ctx.count(f"run_stores:{len(res['stores'])}")
        ctx.case({"manifests": files, "codemods": cms, "dry_run": dry, "observed (changed store indices, note)": res["observed"]},
                 nontrivial_key=("run", json.dumps(files, sort_keys=True), json.dumps(cms), dry) if res["stores"] else None,
                 sample=len(res["stores"]) >= 2 and len(ctx.samples) < 6)
    bad = par_eval(ctx, "c14_run", "run_case", coq_cases, ["run_model_ok", "run_spec_ok"], chunk=80)
    for i in bad["run_model_ok"]:
        files, cms, dry, res, replay = meta[i]
        ctx.mismatch("process_dependencies over several codemods vs Model.Manifest.run_codemods",
                     f"stores {list(zip(res['kinds'], res['stores']))}, codemods {cms}: observed {res['observed']}", replay)
    for i in bad["run_spec_ok"]:
        files, cms, dry, res, replay = meta[i]
        # classify by what was OBSERVED, codemod by codemod, with the project-wide declared names threaded through
        seen = {canon(x) for s in res["stores"] for x in s[0]}
        reported = False
        written_where = {}
        for k, (dl, (idx, note), step) in enumerate(zip(cms, res["observed"], res["steps"])):
            names = []
            for x in dl:
                nm = canon(dep_pool()[x].requirement.name)
                if nm not in names:
                    names.append(nm)
            needed = [nm for nm in names if nm not in seen]
            if dl and not needed:
                holders = [j for j, s in enumerate(res["stores"]) if any(canon(x) in names for x in s[0])]
                earlier = [j for nm in names for j in written_where.get(nm, [])]     # stores that received THIS package earlier in the run
                if idx:
                    elsewhere = bool(holders + earlier) and not any(j in holders + earlier for j in idx)
                    ctx.violation("kf_declared_elsewhere_fallthrough" if elsewhere else "c14_declared_added_again",
                                  f"codemod #{k + 1} needs {step['deps']} which the project already declares (stores holding it: {holders}, "
                                  f"written earlier in this run to: {earlier}); manifest(s) {step['changed'] or step['changesets']} received it again", replay)
                    reported = True
                elif note == 1:
                    ctx.violation("kf_declared_reported_as_failed",
                                  f"codemod #{k + 1} needs {step['deps']} which is declared (held by stores {holders}, written earlier in this run to "
                                  f"{earlier}); nothing had to change, yet its description says the dependency could not be added", replay)
                    reported = True
            elif dl:
                if idx:
                    seen |= set(needed)
                    for nm in needed:
                        written_where.setdefault(nm, []).extend(idx)
        if not reported:
            ctx.violation("c14_run_spec", f"stores {list(zip(res['kinds'], res['stores']))}, codemods {cms}: observed {res['observed']} is not "
                          "'first able manifest once per package per run; declared => untouched and no failed notice'", replay)


# ------------------------------------------------------------------------------------------------
# part 2: the real CLI
# ------------------------------------------------------------------------------------------------
CODEMODS = {
    "pixee:python/url-sandbox": ("security", "a.py", "import requests\n\n\ndef fetch(url):\n    return requests.get(url)\n"),
    "pixee:python/use-defusedxml": ("defusedxml", "b.py", "from xml.etree.ElementTree import parse\n\net = parse(\"user_input.xml\")\n"),
}


def cli_once(ctx, root: Path, codemod: str, dry: bool, tag: str):
    out = root.parent / f"{root.name}-{tag}.json"
    args = [str(root), "--output", str(out), "--codemod-include", codemod]
    if dry:
        args.append("--dry-run")
    r = core.run_cli(args, cwd=str(root.parent))
    rep = None
    if out.exists():
        try:
            rep = json.loads(out.read_text())
        except Exception:
            rep = None
    return r, rep


def cli_case(ctx, idx, files, codemod, dry):
    depkey, srcname, src = CODEMODS[codemod]
    root = ctx.scratch / f"cli{idx}" / "proj"
    root.mkdir(parents=True)
    core.write_tree(root, files)
    (root / srcname).write_text(src)
    before = {rel: (root / rel).read_text() for rel in files}
    r1, rep1 = cli_once(ctx, root, codemod, dry, "run1")
    mid = {rel: (root / rel).read_text() for rel in files}
    src_changed = (root / srcname).read_text() != src
    # second run: the source is put back (so that the codemod fires again), the manifests stay as run 1 left them
    r2 = rep2 = None
    if not dry:
        (root / srcname).write_text(src)
        r2, rep2 = cli_once(ctx, root, codemod, False, "run2")
    after = {rel: (root / rel).read_text() for rel in files}
    return {"files": files, "codemod": codemod, "dry": dry, "before": before, "mid": mid, "after": after, "r1": r1, "rep1": rep1,
            "r2": r2, "rep2": rep2, "src_changed": src_changed, "srcname": srcname}


TWO_CODEMODS = "pixee:python/url-sandbox,pixee:python/sandbox-process-creation"     # both need `security`
TWO_SOURCES = {"a.py": CODEMODS["pixee:python/url-sandbox"][2],
               "c.py": "import subprocess\n\n\ndef run(cmd):\n    subprocess.run(cmd, shell=True)\n"}
TWO_PROJECTS = [
    {"pyproject.toml": "[project]\nname = \"x\"\nversion = \"1\"\ndependencies = [\n  \"foo\",\n]\n", "requirements.txt": "foo==1.0\n"},
    {"requirements.txt": "foo==1.0\n"},
]


def cli_two_codemods(ctx, idx, files):
    """ONE run of the real CLI with two codemods that need the same package."""
    root = ctx.scratch / f"cli2_{idx}" / "proj"
    root.mkdir(parents=True)
    core.write_tree(root, files)
    core.write_tree(root, TWO_SOURCES)
    out = root.parent / "out.json"
    r = core.run_cli([str(root), "--output", str(out), "--codemod-include", TWO_CODEMODS], cwd=str(root.parent))
    rep = json.loads(out.read_text()) if out.exists() else None
    after = {rel: (root / rel).read_text() for rel in files}
    return {"files": files, "r": r, "rep": rep, "after": after}


def judge_two_codemods(ctx, results):
    for res in results:
        ctx.cli_runs += 1
        files, r, rep = res["files"], res["r"], res["rep"]
        replay = {"kind": "cli2", "files": files}
        if r["rc"] == -9:
            ctx.mismatch("CLI scenario (two codemods)", "timed out (machine load, not a verdict)", replay)
            continue
        if r["rc"] != 0 or rep is None:
            ctx.violation("c14_cli_failed", f"run of {TWO_CODEMODS} over {sorted(files)} exited {r['rc']}: {r['stderr'][-300:]}", replay)
            continue
        per = {x["codemod"]: x for x in rep["results"]}
        fired = [cm for cm in TWO_CODEMODS.split(",") if cm in per and any(c["path"] in TWO_SOURCES for c in per[cm]["changeset"])]
        if len(fired) != 2:
            ctx.mismatch("CLI scenario (two codemods)", f"only {fired} changed their source file: the scenario no longer triggers both codemods", replay)
            continue
        ctx.count("cli2:manifests:" + "+".join(sorted(files)))
        total = declared_count(res["after"], "security")
        got = [rel for rel in files if res["after"][rel] != files[rel]]
        ctx.case({"cli": TWO_CODEMODS, "manifests": files, "after": res["after"]}, nontrivial_key=("cli2", json.dumps(files, sort_keys=True)), sample=False)
        if total != 1:
            cls = "kf_declared_elsewhere_fallthrough" if (total == len(got) and len(got) > 1) else "c14_new_requirement_count"
            ctx.violation(cls, f"one run of {TWO_CODEMODS}: `security` is declared {total}x afterwards, in {got}: the second codemod found it declared "
                          f"in the first manifest (answer None) and the next manifest received it too: {res['after']}", replay)
        for k, cm in enumerate(TWO_CODEMODS.split(",")):
            d = per[cm]["description"]
            mans = [c["path"] for c in per[cm]["changeset"] if c["path"].rsplit("/", 1)[-1] in KIND_OF]
            if not mans and "we were unable to automatically add the dependency" in d and total >= 1:
                ctx.violation("kf_declared_reported_as_failed", f"{cm} (codemod #{k + 1} of the run) needs `security`, which an earlier codemod of the same run "
                              f"added ({got}); nothing had to change, yet its description says the dependency could not be added", replay)



def prepare_cli(ctx, n):
    rng = ctx.rng
    jobs = []
    for fname, body in load_corpus("cli"):
        jobs.append((body["files"], body["codemod"], bool(body.get("dry_run", False)), {"corpus"}))
    fixed = [({}, "pixee:python/url-sandbox", False, {"no_manifest"}),
             ({"requirements.txt": "foo==1.0\nbar\n"}, "pixee:python/use-defusedxml", True, {"dry_run"})]
    jobs += fixed
    while len(jobs) < n:
        codemod = rng.choice(sorted(CODEMODS))
        dep = dep_pool()[CODEMODS[codemod][0]]
        files, tags = gen_project(rng, dep_tuple(dep))
        if rng.random() < 0.3 and "requirements.txt" in files:
            t, tg = gen_req_text(rng, [dep_tuple(dep)])
            if t.strip():
                files["requirements.txt"] = t
                tags |= {"req:" + x for x in tg}
        jobs.append((files, codemod, rng.random() < 0.15, tags))
    return jobs


def run_cli_jobs(ctx, jobs):
    with ThreadPoolExecutor(max_workers=min(10, core.NCPU)) as ex:
        two = [ex.submit(cli_two_codemods, ctx, i, f) for i, f in enumerate(TWO_PROJECTS)]
        one = list(ex.map(lambda a: cli_case(ctx, a[0], a[1][0], a[1][1], a[1][2]), enumerate(jobs)))
        return one, [f.result() for f in two]


def judge_cli(ctx, jobs, results):
    for (files, codemod, dry, tags), res in zip(jobs, results):
        ctx.cli_runs += 1 + (0 if dry else 1)
        for t in tags:
            ctx.count("cli:" + t)
        depkey = CODEMODS[codemod][0]
        dep = dep_pool()[depkey]
        key = canon(depkey)
        replay = {"kind": "cli", "files": files, "codemod": codemod, "dry_run": dry}
        r1, rep1 = res["r1"], res["rep1"]
        if (r1["rc"] != 0 or rep1 is None) and "IndexError" in r1["stderr"] and poetry_declares(files, key):
            ctx.violation("c14_poetry_declared_crash", f"run over {files} aborted (exit {r1['rc']}, no report): {r1['stderr'][-300:]}", replay)
            continue
        if r1["rc"] == -9:
            ctx.mismatch("CLI scenario", f"run over {sorted(files)} timed out (harness/machine load, not a verdict)", replay)
            continue
        if r1["rc"] != 0 or rep1 is None:
            ctx.violation("c14_cli_failed", f"run with manifests {sorted(files)} exited {r1['rc']}: {r1['stderr'][-400:]}", replay)
            continue
        result = next((x for x in rep1["results"] if x["codemod"] == codemod), None)
        if result is None or not any(c["path"] == res["srcname"] for c in result["changeset"]):
            ctx.mismatch("CLI scenario", f"{codemod} did not change {res['srcname']} (scenario no longer triggers the codemod)", replay)
            continue
        man_cs = [c["path"] for c in result["changeset"] if c["path"].rsplit("/", 1)[-1] in KIND_OF]
        changed = [rel for rel in files if res["before"][rel] != res["mid"][rel]]
        ctx.count("cli_outcome:" + ("manifest_changed" if man_cs else "no_manifest_changed") + (":dry" if dry else ""))
        ctx.case({"cli": codemod, "manifests": files, "dry_run": dry, "changed": changed, "changeset_paths": man_cs},
                 nontrivial_key=("cli", json.dumps(files, sort_keys=True), codemod, dry), sample=len(files) >= 2 and len(ctx.samples) < 6)
        if len(man_cs) > 1 or len(changed) > 1:
            ctx.violation("c14_more_than_one_manifest", f"manifests changed {changed}, changesets {man_cs}", replay)
        failed_note = "we were unable to automatically add the dependency" in result["description"]
        added_note = re.search(r"automatically added this dependency to your project's `([^`]+)` file", result["description"])
        if man_cs:
            if not added_note or added_note.group(1) != man_cs[0].rsplit("/", 1)[-1]:
                ctx.violation("c14_notification", f"changeset for {man_cs} but the description says {'failed' if failed_note else added_note and added_note.group(1)}", replay)
            acts = [a for c in result["changeset"] if c["path"] == man_cs[0] for ch in c["changes"] for a in (ch.get("packageActions") or [])]
            if [a["package"] for a in acts] != [str(dep.requirement)] or any(a["action"] != "add" or a["result"] != "completed" for a in acts):
                ctx.violation("c14_package_actions", f"package actions {acts} for {dep.requirement}", replay)
        else:
            cb0 = declared_count(res["before"], key)
            if cb0 == 0 and not failed_note:
                ctx.violation("c14_notification", "no manifest could be updated but the description carries no failed-dependency notification", replay)
            elif cb0 and failed_note:
                ctx.violation("kf_declared_reported_as_failed", f"{key!r} is declared in {sorted(files)} and nothing had to change, yet the description of "
                              f"{codemod} says the dependency could not be added", replay)
        if dry:
            if changed or res["src_changed"]:
                ctx.violation("c14_dry_run_writes", f"--dry-run changed {changed}", replay)
            continue
        if sorted(changed) != sorted(man_cs):
            ctx.violation("c14_changeset_vs_disk", f"changesets name {man_cs}, files changed on disk {changed}", replay)
        cb, cm = declared_count(res["before"], key), declared_count(res["mid"], key)
        if cb is None:
            continue
        if cm is None:
            ctx.violation("c14_manifest_invalid", f"a manifest no longer parses after the run: {res['mid']}", replay)
            continue
        for rel in changed:
            base = rel.rsplit("/", 1)[-1]
            comp = reparse_spec(base, res["before"][rel], res["mid"][rel], [dep_tuple(dep)])
            comp = [x for x in comp if "declared" not in x or cb == 0]
            if comp:
                cls = "c14_" + KIND_OF[base].lower() + "_reparse"
                if base == "requirements.txt" and "\r" in res["before"][rel]:
                    pass
                ctx.violation(cls, f"{rel}: {res['before'][rel]!r} -> {res['mid'][rel]!r}: " + "; ".join(comp), replay)
            if "\r" in res["before"][rel] and not res["mid"][rel].startswith(res["before"][rel].rstrip("\r\n")):
                ctx.violation("kf_manifest_crlf", f"{rel} with CR line endings {res['before'][rel]!r} rewritten as {res['mid'][rel]!r}", replay)
        if cb >= 1 and cm != cb:
            ctx.violation(classify_redeclared(res["before"], changed, key),
                          f"{key!r} declared {cb}x before and {cm}x after the run over {sorted(files)}; changed {changed}: "
                          + "; ".join(f"{r}: {res['before'][r]!r} -> {res['mid'][r]!r}" for r in changed), replay)
        elif cb == 0 and changed and cm != 1:
            hashcont = any("\\" in res["before"][rel] for rel in files)
            ctx.violation("c14_new_requirement_count", f"{key!r} declared {cm}x after the run, expected once: {res['mid']}", replay)
        # second run adds nothing
        if res["r2"] is None or res["r2"]["rc"] != 0:
            ctx.violation("c14_cli_failed", f"second run exited {res['r2'] and res['r2']['rc']}", replay)
        elif res["after"] != res["mid"] and cm >= 1:
            changed2 = [rel for rel in files if res["mid"][rel] != res["after"][rel]]
            ctx.violation(classify_redeclared(res["mid"], changed2, key) if declared_count(res["after"], key) != cm else "c14_second_run",
                          f"second run changed the manifests again: {res['mid']} -> {res['after']}", replay)


# ------------------------------------------------------------------------------------------------
# active branches of the table-indexed statements (DESIGN Appendix B): a negative branch is replayed on the implementation
# ------------------------------------------------------------------------------------------------
def active_branches(ctx):
    t = ctx.tables or {}
    if t.get("requirement_name_cmp") == "Exact":
        ctx.notes.append("requirement_name_cmp = Exact: C14_declared_untouched is the refuted branch; witness corpus/C14/fixed_case_spelling.json is replayed")
    if t.get("dep_loop_form") == "NoBreak":
        ctx.notes.append("dep_loop_form = NoBreak: C14_at_most_one_manifest is the refuted branch; multi-manifest projects are replayed")
    for k in ("req_writer_guard", "cfg_writer_guard", "pyproject_writer_guard", "setuppy_writer_guard"):
        if t.get(k) == "DryIgnored":
            ctx.notes.append(f"{k} = DryIgnored: C14_dry_run is the refuted branch; dry-run cases are replayed")


def run(ctx: core.Ctx):
    quick = ctx.quick()
    deep = getattr(ctx, "deep", False)
    mult = 3 if deep else 1
    active_branches(ctx)
    import time
    t0 = time.time()
    # the CLI runs (subprocesses, mostly waiting for semgrep) overlap with the in-process parts
    with ThreadPoolExecutor(max_workers=1) as bg:
        cli_jobs = prepare_cli(ctx, (22 if quick else 120) * (2 if deep else 1))
        fut = bg.submit(run_cli_jobs, ctx, cli_jobs)
        part_req(ctx, (260 if quick else 2500) * mult)
        t1 = time.time()
        part_cfg(ctx, (220 if quick else 2000) * mult)
        t2 = time.time()
        part_loop(ctx, (160 if quick else 1500) * mult)
        part_run(ctx, (90 if quick else 900) * mult)
        t3 = time.time()
        results, results2 = fut.result()
    judge_cli(ctx, cli_jobs, results)
    judge_two_codemods(ctx, results2)
    ctx.notes.append(f"wall: requirements.txt {t1 - t0:.0f}s, setup.cfg {t2 - t1:.0f}s, process_dependencies {t3 - t2:.0f}s, "
                     f"CLI (overlapped) done at {time.time() - t0:.0f}s")


def replay(ctx, body):
    kind = body.get("kind")
    if kind in ("req", "cfg"):
        fname = "requirements.txt" if kind == "req" else "setup.cfg"
        deps = deps_from_names(body["deps"])
        r = run_writer(ctx, fname, body["text"].encode("utf-8"), deps, bool(body.get("dry_run")))
        print("manifest:", repr(body["text"]))
        print("dependencies:", [str(d.requirement) for d in deps], "dry_run:", bool(body.get("dry_run")))
        if r is None:
            print("observed now: the parser offers no store")
        else:
            print("observed now: names held by the store:", r["names"], "| result kind:", {0: "None", 1: "exception " + str(r["exc"]), 2: "changeset"}[r["kind"]])
            print("file afterwards:", repr(r["after"].decode("utf-8", "replace")))
            if r["kind"] == 2 and not body.get("dry_run"):
                print("re-parse complaints:", reparse_spec(fname, body["text"], r["after"].decode("utf-8"), [dep_tuple(d) for d in deps]))
                r2 = second_write(ctx, fname, r["after"], deps)
                print("second write:", None if r2 is None else ("adds nothing" if r2["kind"] == 0 else repr(r2["after"].decode("utf-8", "replace"))))
    elif kind == "loop":
        res = run_loop(ctx, body["files"], dep_pool()[body["dep"]], bool(body.get("dry_run")))
        print("stores:", res["rels"], "writer answers:", res["outs"], "changed:", res["changed"], "changesets:", res["cs_paths"],
              "| exception:", res["exc"], "(probe crashed)" if res["probe_crashed"] else "")
        for rel in res["changed"]:
            print(rel, ":", repr(res["before"][rel]), "->", repr(res["after"][rel]))
    elif kind == "run":
        res = run_multi(ctx, body["files"], [[dep_pool()[k] for k in dl] for dl in body["codemods"]], bool(body.get("dry_run")))
        print("stores (names held, writable, refused):", list(zip(res["kinds"], res["stores"])), "| exception:", res["exc"])
        for k, st in enumerate(res["steps"]):
            print(f"codemod #{k + 1} needs {st['deps']}: changed {st['changed']}, changesets {st['changesets']}, notification",
                  {0: "none", 1: "FAILED to add"}.get(st["note"], f"added to store {st['note'] - 2}"))
            for rel in st["changed"]:
                print("   ", rel, ":", repr(st["before"][rel]), "->", repr(st["after"][rel]))
    elif kind == "cli2":
        res = cli_two_codemods(ctx, 0, body["files"])
        print("exit:", res["r"]["rc"], "| manifests before:", body["files"], "| after ONE run of", TWO_CODEMODS, ":", res["after"])
        for x in (res["rep"] or {}).get("results", []):
            print(x["codemod"], [c["path"] for c in x["changeset"]],
                  "FAILED-notice" if "unable to automatically add" in x["description"] else "added-notice" if "automatically added" in x["description"] else "no notice")
    elif kind == "cli":
        res = cli_case(ctx, 0, body["files"], body["codemod"], bool(body.get("dry_run")))
        print("exit:", res["r1"]["rc"], "manifests before:", res["before"], "after run 1:", res["mid"], "after run 2:", res["after"])
    else:
        print("obligation replay:", json.dumps(body.get("no_longer_checks"), indent=1))
    print("what was wrong:", body.get("what"))
    return 0
