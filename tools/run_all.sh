#!/bin/sh
# run every claimed check (quick by default) 4 at a time; logs under /var/tmp/verif-runall/
TIER="${1:-quick}"
OUT=${VERIF_RUNALL_OUT:-/var/tmp/verif-runall}
mkdir -p $OUT
cd "$(dirname "$0")/.."
/venv/bin/python -c "import json; print('\n'.join(c['property_id'] for c in json.load(open('MANIFEST.json'))['checks']))" | \
  xargs -P 4 -I{} sh -c "bin/check {} $TIER > $OUT/{}.log 2>&1; echo {} exit \$?"
