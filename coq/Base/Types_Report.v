(** Types of the table values that tools/fragments_report.py extracts from /repo for the CodeTF report model (C15). *)
From CM Require Export Base.Str.
From Coq Require Import String Ascii.

(** ASCII literal -> code point list (keys of the JSON objects, constant strings). *)
Definition lit (x : string) : str := List.map N_of_ascii (list_ascii_of_string x).
Arguments lit x%string.

(** codetf.py [Change.validate_lineNumber]: [if self.lineNumber < b: raise] / no such validator. *)
Inductive line_validator := LineLt (b : Z) | LineUnchecked.
(** codetf.py [Change.validate_description]: [if self.description is not None and not self.description: raise]. *)
Inductive desc_validator := DescNonEmptyWhenGiven | DescUnchecked.
(** codetf.py [Reference.validate_description]: [self.description = self.description or self.url]. *)
Inductive ref_backfill := RefDescOrUrl | RefNoBackfill.

(** One field of a pydantic model: name, Optional[...]?, default. *)
Inductive field_default := NoDefault | DefaultNone | DefaultEmptyList | DefaultEnum (value : str) | DefaultOther.
(** name, annotated type with Optional[...] stripped, Optional?, default *)
Definition field_row := (str * str * bool * field_default)%type.
(** class name, base class ("BaseModel", "Finding", "Enum"), rows (for Enum classes: member name, member value, false, NoDefault). *)
Definition model_row := (str * str * list field_row)%type.

(** libcst_transformer.py [LibcstTransformerPipeline.apply] + [report_change_for_line]. *)
Inductive libcst_apply_variant :=
| LibcstGuardChangesDiff   (* try parse / try transform / if not codemod_changes / if not diff / ChangeSet(relative path) *)
| LibcstNoDiffGuard.       (* the same without the `if not diff` guard *)
(** xml_transformer.py [XMLTransformer.add_change] + [XMLTransformerPipeline.apply]. *)
Inductive xml_apply_variant :=
| XmlDescOrNoneNoDiffGuard (* description=self.change_description or None; only `if not changes` *)
| XmlDescOrNoneDiffGuard.  (* the same plus `if not diff: return None` *)
(** regex_transformer.py [RegexTransformerPipeline.apply]. *)
Inductive regex_apply_variant :=
| RegexNoFailureHandling   (* pinned tree: read/decode, _apply and Change(...) exceptions leave apply: the run aborts *)
| RegexFailureHandled.     (* try/except around the read ("Failed to read file") and around _apply ("Failed to transform file") *)
(** file_context.py [FileContext.add_failure] / [add_unfixed_findings]. *)
Inductive failure_variant := FailureLineZero.
(** context.py aggregation + compile_results + add_description; update_finding_metadata; CodeTF.build/write_report;
    codemodder.py apply_codemods and the `if argv.output:` block of run. *)
Inductive compile_variant := CompileOnePerCodemodInOrder.
Inductive update_meta_variant := UpdateByFindingId.
Inductive build_variant := BuildRunExcludeNone.
Inductive apply_codemods_variant := ApplyEarlyReturnThenLoop.
Inductive run_output_variant := ReportIffOutputCompileAllSelected.
