(** Checkers of the C13 correspondence. *)
From CM Require Import Harness.RunBase Base.Types_Glob Model.Glob Model.LineFilter Spec.GlobSpec Spec.LineFilterSpec Generated.Tables.

Definition defaults : list str * list str := (default_included_paths, default_excluded_paths).
Definition zs_eqb : list Z -> list Z -> bool := list_eqb Z.eqb.
Definition subsetZ (a b : list Z) : bool := forallb (fun x => memZ x b) a.
Definition same_setZ (a b : list Z) : bool := subsetZ a b && subsetZ b a.

(** code_directory.file_line_patterns(path, patterns) observed ([None] = ValueError) *)
Definition flp_case := (str * list str * option (list Z))%type.
Definition flp_model_ok (c : flp_case) : bool :=
  let '(path, pats, obs) := c in option_eqb zs_eqb (file_line_patterns path pats) obs.

(** BaseCodemod._process_file observed: the line list handed to FileContext for one pattern list *)
Definition pf_case := (str * str * list str * option (list Z))%type.
Definition pf_model_ok (c : pf_case) : bool :=
  let '(as_passed, rel, pats, obs) := c in
  option_eqb zs_eqb (process_file_lines line_pattern_path_form as_passed (Some rel) pats) obs.
(** spec: the same lines, as a set, as the reading "relative to the target, or as passed" *)
Definition pf_spec_ok (c : pf_case) : bool :=
  let '(as_passed, rel, pats, obs) := c in
  option_eqb same_setZ (process_file_lines Both as_passed (Some rel) pats) obs.

(** filter_by_path_includes_or_excludes observed (UtilsMixin and the copy in remove_unused_imports.py) *)
Definition lf_case := (list Z * list Z * (Z * Z * (Z * Z)) * bool)%type.
Definition lf_model_ok (c : lf_case) : bool :=
  let '(ex, inc, p, obs) := c in Bool.eqb (filter_by_path_includes_or_excludes line_filter_rule ex inc p) obs.
Definition lf_spec_ok (c : lf_case) : bool :=
  let '(ex, inc, p, obs) := c in
  if Z.eqb (start_line p) (end_line p) then Bool.eqb (permittedb ex inc (start_line p)) obs else true.
(** does the known deviation "a non-empty exclusion list shadows the inclusion list" predict the observation? *)
Definition lf_shadow_ok (c : lf_case) : bool :=
  let '(ex, inc, p, obs) := c in
  if Z.eqb (start_line p) (end_line p) then Bool.eqb (shadow_permittedb ex inc (start_line p)) obs else true.

(** End to end: one file of a CLI run. sites = first lines of the candidate constructs, each spanning [span] lines;
    observed = the sites that were rewritten. *)
Definition site_case := (str * str * list str * list str * list Z * N * list Z)%type.
Definition site_lines (n : Z) (span : N) : list Z := map (fun k => (n + Z.of_nat k)%Z) (seq 0 (N.to_nat span)).
(** the property text: no line of the site excluded, and - when lines of the file are included - all of them included *)
Definition site_permitted_by (v : lf_rule) (Le Li : list Z) (span : N) (n : Z) : bool :=
  match v with
  | ExcludeThenInclude =>
      forallb (fun l => negb (memZ l Le)) (site_lines n span) &&
      match Li with _ :: _ => forallb (fun l => memZ l Li) (site_lines n span) | [] => true end
  | ExcludeShadowsInclude =>
      match Le with
      | _ :: _ => forallb (fun l => negb (memZ l Le)) (site_lines n span)
      | [] => match Li with _ :: _ => forallb (fun l => memZ l Li) (site_lines n span) | [] => true end
      end
  end.
Definition expected_sites_by (v : lf_rule) (form : path_form) (c : site_case) : option (list Z) :=
  let '(as_passed, rel, exc, inc, sites, span, _) := c in
  match ff_files_to_analyze ff_exclude_sentinel defaults [[46; 112; 121]%N] [rel] exc inc with
  | [] => Some []
  | _ => match process_file_lines form as_passed (Some rel) exc, process_file_lines form as_passed (Some rel) inc with
         | Some Le, Some Li => Some (List.filter (site_permitted_by v Le Li span) sites)
         | _, _ => None
         end
  end.
Definition observed_of (c : site_case) : list Z := let '(_, _, _, _, _, _, obs) := c in obs.
Definition expected_sites := expected_sites_by ExcludeThenInclude.
Definition site_spec_ok (c : site_case) : bool := option_eqb zs_eqb (expected_sites Both c) (Some (observed_of c)).
Definition site_aspassed_ok (c : site_case) : bool := option_eqb zs_eqb (expected_sites AsPassedAbsolute c) (Some (observed_of c)).
(** the two known deviations, each predicting the observation exactly *)
Definition site_shadow_ok (c : site_case) : bool :=
  option_eqb zs_eqb (expected_sites_by ExcludeShadowsInclude Both c) (Some (observed_of c)).
Definition site_current_ok (c : site_case) : bool :=
  option_eqb zs_eqb (expected_sites_by line_filter_rule line_pattern_path_form c) (Some (observed_of c)).
