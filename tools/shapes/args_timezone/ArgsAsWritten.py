class TransformDatetimeWithTimezone:
    def leave_Call(self, original_node: cst.Call, updated_node: cst.Call):
        if not self.node_is_selected(original_node):
            return updated_node

        match self.find_base_name(original_node):
            case "datetime.datetime.utcnow":
                self.report_change(original_node)
                maybe_name, kwarg_val, module = self._determine_module_and_kwarg(
                    original_node
                )
                new_args = self.replace_args(
                    original_node,
                    [
                        NewArg(
                            name="tz",
                            value=kwarg_val,
                            add_if_missing=True,
                        )
                    ],
                )
                return self.update_call_target(
                    updated_node, module, "now", replacement_args=new_args
                )
            case "datetime.datetime.utcfromtimestamp":
                self.report_change(original_node)
                maybe_name, kwarg_val, module = self._determine_module_and_kwarg(
                    original_node
                )
                if len(original_node.args) != 2 and not self._has_timezone_arg(
                    original_node, "tz"
                ):
                    new_args = self.replace_args(
                        original_node,
                        [
                            NewArg(
                                name="tz",
                                value=kwarg_val,
                                add_if_missing=True,
                            )
                        ],
                    )
                else:
                    new_args = original_node.args

                return self.update_call_target(
                    updated_node,
                    module,
                    "fromtimestamp",
                    replacement_args=new_args,
                )

        return updated_node

    def _has_timezone_arg(self, original_node: cst.Call, name: str) -> bool:
        return any(
            matchers.matches(arg, matchers.Arg(keyword=matchers.Name(name)))
            for arg in original_node.args
        )

