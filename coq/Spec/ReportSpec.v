(** What C15 demands of a report, independently of how the code builds it.
    1. [schema_ok]: hand transcription of vendor/codetf.schema.json (a RECONSTRUCTION of the CodeTF schema, see its $comment);
       the harness checks on every run that python-jsonschema with that file and [schema_ok] agree.
    2. the structural invariants of the property text, on the report value. *)
From CM Require Import Model.Report.

(* ---------------- 1. the schema ---------------- *)
Definition is_str (j : json) : bool := match j with JStr _ => true | _ => false end.
Definition is_str_min1 (j : json) : bool := match j with JStr (_ :: _) => true | _ => false end.
Definition is_int (j : json) : bool := match j with JNum _ => true | _ => false end.
Definition is_int_ge (m : Z) (j : json) : bool := match j with JNum z => (m <=? z)%Z | _ => false end.
Definition is_enum (vals : list str) (j : json) : bool := match j with JStr s => mem_str s vals | _ => false end.
Definition is_obj (j : json) : bool := match j with JObj _ => true | _ => false end.
Definition arr_of (p : json -> bool) (j : json) : bool := match j with JArr l => forallb p l | _ => false end.
Definition arr1_of (p : json -> bool) (j : json) : bool := match j with JArr (x :: l) => p x && forallb p l | _ => false end.

Definition field_check (fields : list (str * (json -> bool))) (kv : str * json) : bool :=
  match dget str_eqb (fst kv) fields with Some p => p (snd kv) | None => false end.
(** {"type":"object","properties":fields,"required":required,"additionalProperties":false} *)
Definition obj_of (fields : list (str * (json -> bool))) (required : list str) (j : json) : bool :=
  match j with
  | JObj l => forallb (fun k => dhas str_eqb k l) required && forallb (field_check fields) l
  | _ => false
  end.

Definition sch_sarif := obj_of [(k_artifact, is_str); (k_sha1, is_str)] [k_artifact; k_sha1].
Definition sch_run :=
  obj_of [(k_vendor, is_str); (k_tool, is_str); (k_version, is_str); (k_projectName, is_str); (k_commandLine, is_str);
          (k_elapsed, is_int); (k_directory, is_str); (k_sarifs, arr_of sch_sarif)]
         [k_vendor; k_tool; k_version; k_commandLine; k_elapsed; k_directory].
Definition sch_tool := obj_of [(k_name, is_str)] [k_name].
Definition sch_reference := obj_of [(k_url, is_str); (k_description, is_str)] [k_url].
Definition sch_rule := obj_of [(k_id, is_str); (k_name, is_str); (k_url, is_str)] [k_id; k_name].
Definition sch_finding := obj_of [(k_id, is_str); (k_rule, sch_rule)] [k_id; k_rule].
Definition sch_unfixed :=
  obj_of [(k_id, is_str); (k_rule, sch_rule); (k_path, is_str); (k_lineNumber, is_int_ge 0); (k_reason, is_str)]
         [k_id; k_rule; k_path; k_reason].
Definition sch_package_action :=
  obj_of [(k_action, is_enum [s_add; s_remove]); (k_result, is_enum [s_completed; s_failed; s_skipped]); (k_package, is_str)]
         [k_action; k_result; k_package].
Definition sch_change :=
  obj_of [(k_lineNumber, is_int_ge 1); (k_description, is_str_min1); (k_diffSide, is_enum [s_left; s_right]);
          (k_properties, is_obj); (k_packageActions, arr_of sch_package_action); (k_findings, arr_of sch_finding)]
         [k_lineNumber; k_diffSide].
Definition sch_ai := obj_of [(k_provider, is_str); (k_model, is_str); (k_tokens, is_int)] [].
Definition sch_changeset :=
  obj_of [(k_path, is_str_min1); (k_diff, is_str_min1); (k_changes, arr1_of sch_change); (k_ai, sch_ai)]
         [k_path; k_diff; k_changes].
Definition sch_result :=
  obj_of [(k_codemod, is_str); (k_summary, is_str); (k_description, is_str); (k_detectionTool, sch_tool);
          (k_references, arr_of sch_reference); (k_properties, is_obj); (k_failedFiles, arr_of is_str);
          (k_changeset, arr_of sch_changeset); (k_unfixedFindings, arr_of sch_unfixed)]
         [k_codemod; k_summary; k_description; k_changeset].
Definition schema_ok : json -> bool :=
  obj_of [(k_run, sch_run); (k_results, arr_of sch_result)] [k_run; k_results].

(* ---------------- 2. the structural invariants ---------------- *)
(** a change: line number >= 1 and a non-empty description *)
Definition change_ok (c : change) : bool :=
  (1 <=? ch_line c)%Z && match ch_desc c with Some (_ :: _) => true | _ => false end.
(** project-relative: non-empty and not starting with "/" *)
Definition relative_path (p : str) : bool := match p with [] => false | c :: _ => negb (N.eqb c 47) end.
Definition changeset_ok (c : changeset) : bool :=
  relative_path (cs_path c) && negb (is_nil (cs_diff c)) && negb (is_nil (cs_changes c)) && forallb change_ok (cs_changes c).

(** failed and changed files of one result are disjoint ([failedFiles] hold the path under the target directory) *)
Definition failed_of (r : result) : list str := match rs_failed r with Some l => l | None => [] end.
Definition disjoint_ok (dir : str) (r : result) : bool :=
  forallb (fun c => negb (mem_str (abs_of dir (cs_path c)) (failed_of r))) (rs_changeset r).

(** the result of a codemod carries that codemod's id, summary, description (possibly followed by the dependency
    notice), references, and the detection tool iff the codemod has one *)
Definition result_of_codemod (cm : codemod) (r : result) : Prop :=
  rs_codemod r = cm_id cm /\ rs_summary r = cm_summary cm /\
  (exists sfx, rs_description r = cm_description cm ++ sfx) /\
  rs_refs r = Some (cm_refs cm) /\
  rs_tool r = option_map (fun t => {| dt_name := tm_name t |}) (cm_tool cm).
(** exactly one result per executed codemod, in execution order *)
Definition one_result_per_codemod (cms : list codemod) (c : codetf) : Prop := Forall2 result_of_codemod cms (ct_results c).

(** SAST: a finding whose id is one of the codemod's tool rules carries that rule's name and url *)
Definition finding_meta_ok (rules : list rule) (f : finding) : Prop :=
  match rule_lookup (fi_id f) rules with
  | Some r => ru_name (fi_rule f) = ru_name r /\ ru_url (fi_rule f) = ru_url r
  | None => True
  end.
Definition change_findings (c : change) : list finding := match ch_findings c with Some l => l | None => [] end.
Definition result_findings_ok (rules : list rule) (r : result) : Prop :=
  Forall (fun cs => Forall (fun ch => Forall (finding_meta_ok rules) (change_findings ch)) (cs_changes cs)) (rs_changeset r).
