# src/codemodder/registry.py at HEAD: CodemodRegistry.default_include_paths, CodemodRegistry.add_codemod_collection
class CodemodRegistry:
    @property
    def default_include_paths(self) -> list[str]:
        return list(self._default_include_paths)

    def add_codemod_collection(self, collection: CodemodCollection):
        for codemod in collection.codemods:
            wrapper = codemod() if isinstance(codemod, type) else codemod
            if wrapper.id in self._codemods_by_id:
                raise KeyError(
                    f"Codemod with id {wrapper.id} is already registered. Consider changing the codemod name or origin."
                )

            self._codemods_by_id[wrapper.id] = wrapper
            self._default_include_paths.update(
                chain(
                    *[
                        (f"*{ext}", os.path.join("**", f"*{ext}"))
                        for ext in wrapper.default_extensions
                    ]
                )
            )
