import libcst as cst

from codemodder.codemods.libcst_transformer import (
    LibcstResultTransformer,
    LibcstTransformerPipeline,
)
from codemodder.codemods.utils_mixin import NameAndAncestorResolutionMixin
from core_codemods.api import Metadata, Reference, ReviewGuidance
from core_codemods.api.core_codemod import CoreCodemod


class LiteralOrNewObjectIdentityTransformer(
    LibcstResultTransformer, NameAndAncestorResolutionMixin
):
    change_description = "Replace `is` operator with `==`"

    def _is_object_creation_or_literal(self, node: cst.BaseExpression):
        match node:
            case (
                cst.List()
                | cst.Dict()
                | cst.Tuple()
                | cst.Set()
                | cst.Integer()
                | cst.Float()
                | cst.Imaginary()
                | cst.SimpleString()
                | cst.ConcatenatedString()
                | cst.FormattedString()
            ):
                return True
            case cst.Call(func=cst.Name() as name):
                return self.is_builtin_function(node) and name.value in (
                    "dict",
                    "list",
                    "tuple",
                    "set",
                )
        return False

    def leave_Comparison(
        self, original_node: cst.Comparison, updated_node: cst.Comparison
    ) -> cst.BaseExpression:
        match original_node:
            case cst.Comparison(
                left=left, comparisons=[cst.ComparisonTarget() as target]
            ):
                if self.node_is_selected(target.operator) and isinstance(
                    target.operator, cst.Is | cst.IsNot
                ):
                    left = self.resolve_expression(left)
                    right = self.resolve_expression(target.comparator)
                    if self._is_object_creation_or_literal(
                        left
                    ) or self._is_object_creation_or_literal(right):
                        self.report_change(original_node)
                        if isinstance(target.operator, cst.Is):
                            return original_node.with_deep_changes(
                                target,
                                operator=cst.Equal(
                                    whitespace_before=target.operator.whitespace_before,
                                    whitespace_after=target.operator.whitespace_after,
                                ),
                            )
                        return original_node.with_deep_changes(
                            target,
                            operator=cst.NotEqual(
                                whitespace_before=target.operator.whitespace_before,
                                whitespace_after=target.operator.whitespace_after,
                            ),
                        )
        return updated_node


LiteralOrNewObjectIdentity = CoreCodemod(
    metadata=Metadata(
        name="literal-or-new-object-identity",
        summary="Replace `is` with `==` for literal or new object comparisons",
        review_guidance=ReviewGuidance.MERGE_WITHOUT_REVIEW,
        references=[
            Reference(
                url="https://docs.python.org/3/library/stdtypes.html#comparisons"
            ),
        ],
    ),
    transformer=LibcstTransformerPipeline(LiteralOrNewObjectIdentityTransformer),
    detector=None,
)
