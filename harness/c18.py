"""C18 — a codemod acts on what its own detector reports, and the result is clean.   (_partial)

Proved (coq/Properties/C18.v): the positional join, dropped non-node locations, rule-id truncation, nested selected calls.
Tie: (1) the real LibcstResultTransformer (default leave_Call/leave_Assign/leave_ClassDef) on generated modules and result
locations vs Model.Location; (2) SarifResult.extract_rule_id vs short_id, injectivity of the real rule-name table.
Search (the oracle half): for the codemods whose detector is a SemgrepRuleDetector, trigger snippets x import spellings x
contexts x several sites; the codemod's own rule is run with the semgrep binary before and after the real CLI run."""
from __future__ import annotations

import difflib
import json
import shutil
import subprocess
from concurrent.futures import ThreadPoolExecutor
from pathlib import Path

from harness import core
from harness.c06 import IMPORTS as C06_IMPORTS, c_node, c_results, c_zlist, impl, mk_real_result
from harness.core import cN, cZ, clist, cpair, cstr

META = {
    "rule": "join: random modules (calls, nested calls, assignments, classes with decorators, multi-line calls, with-items, "
            "keyword arguments) x result locations at the spans of random nodes of any kind (semgrep columns, perturbed by -2..2) "
            "x line filters through the real LibcstResultTransformer; search: per rule-detected codemod one project of trigger "
            "snippets x import spellings (import m / import m as a / from m import f) x contexts (module level, inside def, as "
            "an argument, call split over lines, two sites, nested, declined shapes); the codemod's own semgrep rule before and "
            "after the real CLI run; non-trivial = a file in which the rule flags a location",
    "trusted": ["semgrep 1.90 (the detector itself: an oracle)", "libcst PositionProvider", "difflib (changed line ranges)"],
    "assumptions": [
        "ORACLE, not proved: each codemod's semgrep pattern and its libcst transformer describe the same construct and "
        "pattern-not excludes the fixed form — decided per run by search over the generated spellings only",
        "a flagged location counts as rewritten when the report has a change entry on one of its lines and the diff touches one of its lines",
        "declined shapes (re-bound names, several with-items, mixed %/+ logging arguments) are tagged by the generator",
    ],
}

IMPORTS = C06_IMPORTS.replace("Harness.C06_run", "Harness.C06_run Harness.C18_run")


# ------------------------------------------------------------------------------------------------
# (1) the positional join, in process
# ------------------------------------------------------------------------------------------------
STMTS = [
    "x{i} = f{i}(a, g{i}(b))",
    "h{i}(k=1, *args)",
    "class C{i}:\n    y = m{i}()\n    z = 1",
    "@dec{i}(1)\nclass D{i}(Base{i}):\n    pass",
    "q{i} = call{i}(\n    1,\n    2,\n)",
    "with ctx{i}() as c{i}, other{i}():\n    pass",
    "t{i} = (1, u{i}())",
    "a{i} = b{i} = w{i}.v.meth()",
    "def fn{i}(p=dflt{i}()):\n    return inner{i}(p)(2)",
    "r{i} = 1; s{i} = k{i}()",
]


def gen_module(rng, k):
    return "\n".join(rng.choice(STMTS).format(i=i) for i in range(k)) + "\n"


def analyse_module(src):
    import libcst as cst
    from libcst.metadata import MetadataWrapper, PositionProvider
    w = MetadataWrapper(cst.parse_module(src), unsafe_skip_copy=True)
    pos = w.resolve(PositionProvider)
    three, others = [], []

    def span(nd):
        r = pos[nd]
        return (r.start.line, r.start.column, r.end.line, r.end.column)

    class V(cst.CSTVisitor):
        def leave_Call(self, node):
            three.append(("KCall", span(node)))

        def leave_Assign(self, node):
            three.append(("KAssign", span(node)))

        def leave_ClassDef(self, node):
            three.append(("KClassDef", span(node)))

        def visit_Name(self, node):
            others.append(span(node))

        def visit_Arg(self, node):
            others.append(span(node))

        def visit_WithItem(self, node):
            others.append(span(node))

        def visit_Decorator(self, node):
            others.append(span(node))

        def visit_Tuple(self, node):
            others.append(span(node))

        def visit_SimpleStatementLine(self, node):
            others.append(span(node))
    w.module.visit(V())
    return three, others


def run_join(ctx):
    rng, I = ctx.rng, impl()
    import libcst as cst
    from codemodder.codemods.libcst_transformer import LibcstResultTransformer
    from codemodder.file_context import FileContext

    seen = []

    class Probe(LibcstResultTransformer):
        change_description = "probe"

        def on_result_found(self, original_node, updated_node):
            p = self.node_position(original_node)
            seen.append((p.start.line, p.start.column, p.end.line, p.end.column))
            return updated_node

    n = 120 if ctx.quick() else 1200
    if getattr(ctx, "deep", False):
        n *= 3
    cases, meta = [], []
    for i in range(n):
        src = gen_module(rng, rng.randint(1, 5))
        three, others = analyse_module(src)
        pool = [s for _, s in three] * 2 + others
        rs = []
        for j in range(rng.randint(0, 4)):
            s = rng.choice(pool)
            d = [rng.choice([0, 0, 0, 0, -1, 1, -2, 2]) for _ in range(2)]
            loc = (s[0], s[1] + 1 + d[0], s[2], s[3] + 1 + d[1])
            if rng.random() < 0.1:
                loc = (loc[0] + 1, loc[1], loc[2] + 1, loc[3])
            rs.append({"ident": j, "cls": "RBase", "rule": "probe", "locs": [("m.py", loc)], "fid": f"F{j}"})
        lf = rng.choice(["", "", "", "excl", "incl"])
        lines = sorted({rng.choice([s[0] for _, s in three] or [1]) for _ in range(rng.randint(1, 2))})
        excl, incl = (lines if lf == "excl" else []), (lines if lf == "incl" else [])
        fc = FileContext(Path("/proj"), Path("/proj/m.py"), excl, incl, [mk_real_result(I, r) for r in rs])
        del seen[:]
        Probe.transform(cst.parse_module(src), fc.results, fc)
        ids = {}
        nodes = []
        for k, (kind, s) in enumerate(three):
            nodes.append((k, kind, s))
            ids.setdefault(s + (kind,), k)
        by_span = {}
        for k, kind, s in nodes:
            by_span.setdefault(s, []).append(k)
        obs_ids = []
        for s in seen:
            obs_ids.append(by_span.get(s, [9999])[0] if len(by_span.get(s, [])) == 1 else -1)
        if -1 in obs_ids:
            ctx.mismatch("span discipline", f"two Call/Assign/ClassDef nodes of a generated module share a span: {src!r}", {"src": src})
            continue
        obs_changes = [(c.lineNumber, [f.id for f in c.findings]) for c in fc.codemod_changes]
        cases.append(cpair(c_results(rs), c_zlist(excl), c_zlist(incl), clist([c_node(x) for x in nodes], "node"),
                           clist([cN(x) for x in obs_ids], "N"),
                           clist([cpair(cZ(l), clist([cstr(x) for x in f], "str")) for l, f in obs_changes], "Z * list str")))
        meta.append((src, rs, excl, incl, obs_ids, obs_changes))
        ctx.count(f"join:handed_over:{min(len(obs_ids), 3)}")
        ctx.count(f"join:results:{len(rs)}")
        ctx.case({"join": [src, rs, excl, incl, obs_ids, obs_changes]}, nontrivial_key=("join", src, repr(rs), tuple(excl), tuple(incl)) if rs else None,
                 sample=bool(obs_ids) and len(rs) > len(obs_ids))
    bad = core.eval_bad_indices(ctx, "c18_join", IMPORTS, "join_case", cases, ["join_model_ok"], chunk=100)
    for i in bad["join_model_ok"]:
        m = meta[i]
        ctx.mismatch("LibcstResultTransformer default leave_* vs Model.Location.on_result_found_nodes/reported_changes",
                     f"module {m[0]!r} results {m[1]} excl={m[2]} incl={m[3]}: handed over {m[4]}, changes {m[5]}",
                     {"op": "join", "src": m[0], "results": m[1], "excl": m[2], "incl": m[3], "observed": [m[4], m[5]]})


# ------------------------------------------------------------------------------------------------
# (2) rule ids
# ------------------------------------------------------------------------------------------------
def rule_detected_codemods():
    from codemodder.codemods.semgrep import SemgrepRuleDetector
    from codemodder.registry import load_registered_codemods
    reg = load_registered_codemods()
    return [c for c in reg.codemods if isinstance(getattr(c, "detector", None), SemgrepRuleDetector)]


def run_short_id(ctx, codemods):
    rng = ctx.rng
    from codemodder.result import SarifResult
    names = [c._internal_name for c in codemods]
    for nm in names:
        ctx.count("short_id:real_rule_names")
        if "." in nm:
            ctx.violation("kf_rule_name_with_dot", f"codemod name {nm!r} contains a dot: its results are keyed by {nm.split('.')[-1]!r} "
                          f"and never found by results_for_rule_and_file({nm!r})", {"op": "short_id", "name": nm})
    dup = sorted({a for a in names if names.count(a) > 1})
    if dup:
        ctx.violation("kf_rule_name_collision", f"rule-detected codemods share an internal rule name {dup}: their results are merged "
                      f"under one key (C18_short_id)", {"op": "short_id", "names": dup})
    alphabet = "ab.-_1"
    cases, meta = [], []
    for nm in names + ["".join(rng.choice(alphabet) for _ in range(rng.randint(0, 9))) for _ in range(60)]:
        for full in (nm, "tmp.dir.x." + nm, "." + nm, nm + "."):
            if not full:
                continue
            obs = SarifResult.extract_rule_id({"ruleId": full}, {}, True)
            cases.append(cpair(cstr(full), cstr(obs)))
            meta.append((full, obs))
            ctx.case({"short_id": [full, obs]}, nontrivial_key=("short", full) if "." in full else None)
    bad = core.eval_bad_indices(ctx, "c18_short", IMPORTS, "short_case", cases, ["short_model_ok"])
    for i in bad["short_model_ok"]:
        ctx.mismatch("SarifResult.extract_rule_id(truncate) vs Model.Location.short_id", f"{meta[i][0]!r} -> {meta[i][1]!r}",
                     {"op": "short_id", "case": meta[i]})


# ------------------------------------------------------------------------------------------------
# (3) search: detector before / CLI / detector after
# ------------------------------------------------------------------------------------------------
# name -> dict(variants=[(header, expression-or-statement)], nested=(header, stmt)|None, declined=[(header, stmt)], stmt=bool)
TRIGGERS = {
    "requests-verify": {"hetero": [('import requests\n', 'requests.get("u", timeout=3, verify=False)'), ('import requests\n', 'requests.post("u", verify=False, data=d)')],
        "variants": [("import requests\n", 'requests.get("u", verify=False)'), ("import requests as rq\n", 'rq.post("u", verify=False)'),
                                     ("from requests import get\n", 'get("u", verify=False)'), ("import httpx\n", 'httpx.get("u", verify=False)')],
                        "nested": ("import requests\n", 'requests.get(requests.get("u", verify=False).text, verify=False)')},
    "add-requests-timeouts": {"hetero": [('import requests\n', 'requests.get("u", verify=True)'), ('import requests\n', 'requests.post("u", data=d, headers=h)')],
        "variants": [("import requests\n", 'requests.get("u")'), ("import requests as rq\n", 'rq.post("u", data=d)'),
                                           ("from requests import get\n", 'get("u")')],
                              "nested": ("import requests\n", 'requests.get(requests.get("u").text)')},
    "secure-random": {"variants": [("import random\n", "random.random()"), ("import random as r\n", "r.randint(0, 9)"),
                                   ("from random import random\n", "random()"), ("import random\n", "random.choice(xs)")]},
    "harden-pyyaml": {"hetero": [('import yaml\n', 'yaml.load(d, Loader=yaml.UnsafeLoader)'), ('import yaml\n', 'yaml.load(d, yaml.Loader)')],
        "variants": [("import yaml\n", "yaml.load(d)"), ("import yaml\n", "yaml.load(d, Loader=yaml.Loader)"),
                                   ("import yaml as y\n", "y.load(d)"), ("from yaml import load\n", "load(d)")],
                      "nested": ("import yaml\n", "yaml.load(yaml.load(d))")},
    "harden-ruamel": {"hetero": [('from ruamel.yaml import YAML\n', 'YAML(typ="unsafe", pure=True)'), ('from ruamel.yaml import YAML\n', 'YAML(typ="base")')],
        "variants": [("from ruamel.yaml import YAML\n", 'YAML(typ="unsafe")'), ("import ruamel.yaml\n", 'ruamel.yaml.YAML(typ="base")'),
                                   ("from ruamel import yaml\n", 'yaml.YAML(typ="unsafe")')]},
    "jwt-decode-verify": {"hetero": [('import jwt\n', 'jwt.decode(t, "k", algorithms=["HS256"], options={"verify_signature": False, "verify_exp": False})'), ('import jwt\n', 'jwt.decode(t, "k", algorithms=["HS256"], verify=False, options={"verify_exp": True})')],
        "variants": [("import jwt\n", 'jwt.decode(t, "k", algorithms=["HS256"], verify=False)'),
                                       ("import jwt\n", 'jwt.decode(t, "k", algorithms=["HS256"], options={"verify_signature": False})'),
                                       ("from jwt import decode\n", 'decode(t, "k", algorithms=["HS256"], verify=False)')]},
    "limit-readline": {"variants": [("f = open('x')\n", "f.readline()"), ("f = open('x')\ng = open('y')\n", "g.readline()")]},
    "safe-lxml-parser-defaults": {"hetero": [('import lxml.etree\n', 'lxml.etree.XMLParser(resolve_entities=True)'), ('import lxml.etree\n', 'lxml.etree.XMLParser(no_network=False, dtd_validation=True)'), ('from lxml import etree\n', 'etree.XMLParser(resolve_entities=True, no_network=False)')],
        "variants": [("import lxml.etree\n", "lxml.etree.XMLParser()"), ("from lxml import etree\n", "etree.XMLParser()"),
                                               ("from lxml.etree import XMLParser\n", "XMLParser()")]},
    "safe-lxml-parsing": {"hetero": [('import lxml.etree\n', 'lxml.etree.parse("f.xml", parser=None)'), ('import lxml.etree\n', 'lxml.etree.fromstring("<a/>")')],
        "variants": [("import lxml.etree\n", 'lxml.etree.parse("f.xml")'), ("from lxml import etree\n", 'etree.fromstring("<a/>")')]},
    "sandbox-process-creation": {"hetero": [('import subprocess\n', 'subprocess.run(cmd, shell=True)'), ('import subprocess\n', 'subprocess.run(cmd, check=True, timeout=3)')],
        "variants": [("import subprocess\n", "subprocess.run(cmd)"), ("import subprocess\n", "subprocess.Popen(cmd)"),
                                              ("from subprocess import run\n", "run(cmd)"), ("import subprocess as sp\n", "sp.call(cmd)")]},
    "url-sandbox": {"variants": [("import requests\n", "requests.get(url)"), ("from requests import get\n", "get(url)")]},
    "upgrade-sslcontext-tls": {"hetero": [('import ssl\n', 'ssl.SSLContext(protocol=ssl.PROTOCOL_SSLv3)'), ('import ssl\n', 'ssl.SSLContext()')],
        "variants": [("import ssl\n", "ssl.SSLContext(ssl.PROTOCOL_SSLv2)"), ("import ssl\n", "ssl.SSLContext(protocol=ssl.PROTOCOL_TLSv1)"),
                                            ("from ssl import SSLContext, PROTOCOL_SSLv3\n", "SSLContext(PROTOCOL_SSLv3)")]},
    "enable-jinja2-autoescape": {"hetero": [('from jinja2 import Environment\n', 'Environment(autoescape=False)'), ('from jinja2 import Environment\n', 'Environment(loader=ldr)'), ('from jinja2 import Environment\n', 'Environment(loader=ldr, autoescape=False)')],
        "variants": [("from jinja2 import Environment\n", "Environment()"), ("import jinja2\n", "jinja2.Environment(autoescape=False)"),
                                              ("import jinja2 as j\n", "j.Environment()")]},
    "fix-deprecated-logging-warn": {"variants": [("import logging\n", 'logging.warn("m")'), ("import logging\nlog = logging.getLogger('a')\n", 'log.warn("m")'),
                                                 ("from logging import warn\n", 'warn("m")')]},
    "lazy-logging": {"variants": [("import logging\n", 'logging.info("a %s" % x)'), ("import logging\n", 'logging.info("a " + x)'),
                                  ("import logging\nname = 's'\n", 'logging.info("a " + name)'),
                                  ("import logging\nlog = logging.getLogger('a')\n", 'log.error("a %s" % x)')],
                     "declined": [("import logging\n", 'logging.info("a %s" % x + y)')]},
    "fix-hasattr-call": {"variants": [("", 'hasattr(obj, "__call__")'), ("", 'hasattr(other.attr, "__call__")')]},
    "secure-flask-cookie": {"hetero": [("import flask\nresp = flask.make_response('x')\n", 'resp.set_cookie("k", "v", secure=False, httponly=False)'), ("import flask\nresp = flask.make_response('x')\n", 'resp.set_cookie("k", "v", samesite=None)')],
        "variants": [("import flask\nresp = flask.make_response('x')\n", 'resp.set_cookie("k", "v")'),
                                         ("from flask import make_response\nresp = make_response('x')\n", 'resp.set_cookie("k", "v", secure=False)')]},
    "bad-lock-with-statement": {"stmt": True, "variants": [("import threading\n", "with threading.Lock():\n    pass"),
                                                           ("from threading import Lock\n", "with Lock():\n    pass")],
                                "declined": [("import threading\n", "with threading.Lock(), open('f') as g:\n    pass")]},
    "django-json-response-type": {"variants": [("import json\nfrom django.http import HttpResponse\n", "HttpResponse(json.dumps(d))"),
                                               ("import json\nimport django.http\n", "django.http.HttpResponse(json.dumps(d))"),
                                               ("from json import dumps\nfrom django.http import HttpResponse\n", "HttpResponse(dumps(d))")],
                                  "hetero": [("import json\nfrom django.http import HttpResponse\n", "HttpResponse(json.dumps(d), status=200)"),
                                             ("import json\nfrom django.http import HttpResponse\n", "HttpResponse(content=json.dumps(d))")]},
    # Django settings codemods: the rule is restricted to files named settings.py and the transformer to settings.py files whose
    # grandparent directory holds a manage.py; every program is its own little site <dir>/manage.py + <dir>/app/settings.py
    "django-debug-flag-on": {"settings": True, "variants": [
        "DEBUG = True", "SECRET_KEY = 'x'\nDEBUG = True\nALLOWED_HOSTS = []", "DEBUG = True  # development only",
        "import os\nif os.environ.get('DEV'):\n    DEBUG = True\nelse:\n    DEBUG = False",
        "DEBUG = True\nTEMPLATE_DEBUG = DEBUG\nDEBUG = True", "DEBUG = (\n    True\n)", "A = 1; DEBUG = True"],
        "no_manage": ["DEBUG = True"]},
    "django-session-cookie-secure-off": {"settings": True, "file_level": True, "variants": [
        "SECRET_KEY = 'x'", "SESSION_COOKIE_SECURE = False", "SECRET_KEY = 'x'\nSESSION_COOKIE_SECURE = not True\nX = 1",
        "SESSION_COOKIE_SECURE = None", "SESSION_COOKIE_SECURE = False\nY = 2\nSESSION_COOKIE_SECURE = 0"],
        "fixed": ["SESSION_COOKIE_SECURE = True", "X = 1\nSESSION_COOKIE_SECURE = True\n"],
        "no_manage": ["SECRET_KEY = 'x'"]},
    "upgrade-sslcontext-minimum-version": {"stmt": True, "variants": [
        ("import ssl\nctx = ssl.SSLContext(ssl.PROTOCOL_TLS_CLIENT)\n", "ctx.minimum_version = ssl.TLSVersion.SSLv3")]},
}
QUICK = ["requests-verify", "add-requests-timeouts", "secure-random", "harden-pyyaml", "jwt-decode-verify", "sandbox-process-creation",
         "fix-deprecated-logging-warn", "lazy-logging", "upgrade-sslcontext-tls", "bad-lock-with-statement"]


def indent(text, pre):
    return "".join(pre + l if l.strip() else l for l in text.splitlines(keepends=True))


def nest_into(outer_e: str, inner_e: str):
    """the call outer_e with inner_e as its first argument (replaces a leading positional argument, else prepends one)"""
    import libcst as cst
    try:
        o, inner = cst.parse_expression(outer_e), cst.parse_expression(inner_e)
    except Exception:
        return None
    if not isinstance(o, cst.Call):
        return None
    args = list(o.args)
    if args and args[0].keyword is None and not args[0].star:
        args[0] = args[0].with_changes(value=inner)
    else:
        args = [cst.Arg(value=inner, comma=cst.Comma(whitespace_after=cst.SimpleWhitespace(" ")) if args else cst.MaybeSentinel.DEFAULT)] + args
    return cst.Module([]).code_for_node(o.with_changes(args=args))


def nest_with(outer_s: str, inner_s: str):
    """`with A:\n    pass` around another with-statement"""
    if not (outer_s.startswith("with ") and outer_s.endswith("    pass")):
        return None
    return outer_s[: -len("    pass")] + indent(inner_s + "\n", "    ").rstrip("\n")


def header_bindings(header: str):
    import ast
    out = {}
    for st in ast.parse(header).body:
        if isinstance(st, ast.Import):
            for a in st.names:
                out[a.asname or a.name.split(".")[0]] = ("import", a.name if a.asname else a.name.split(".")[0])
        elif isinstance(st, ast.ImportFrom):
            for a in st.names:
                out[a.asname or a.name] = ("from", st.module, a.name)
        elif isinstance(st, ast.Assign):
            for t in st.targets:
                out[ast.unparse(t)] = ("assign", ast.unparse(st.value))
    return out


def merge_headers(h1: str, h2: str):
    b1, b2 = header_bindings(h1), header_bindings(h2)
    if any(k in b2 and b2[k] != v for k, v in b1.items()):
        return None
    return h1 + "".join(l for l in h2.splitlines(keepends=True) if l not in h1.splitlines(keepends=True))


def build_search_project(rng, spec):
    """files: relpath -> dict(src, tag, declined)"""
    files = {}
    k = [0]

    def add(header, body, tag, declined=False):
        k[0] += 1
        files[f"pkg/m{k[0]:02d}_{tag}.py"] = {"src": header + "\n" + body + ("\n" if not body.endswith("\n") else ""), "tag": tag, "declined": declined}

    if spec.get("settings"):
        def site(body, tag, manage=True, **kw):
            k[0] += 1
            d = f"s{k[0]:02d}_{tag}"
            files[f"{d}/app/settings.py"] = {"src": body + ("" if body.endswith("\n") else "\n"), "tag": tag, "declined": False, **kw}
            if manage:
                files[f"{d}/manage.py"] = {"src": "import sys\n", "tag": "aux", "declined": True}
            else:
                files[f"{d}/app/other.py"] = {"src": "import sys\n", "tag": "aux", "declined": True}
        for vi, body in enumerate(spec["variants"]):
            site(body, f"v{vi}_module")
        for vi, body in enumerate(spec.get("fixed", [])):
            site(body, f"fixed{vi}", fixed=True)
        for vi, body in enumerate(spec.get("no_manage", [])):
            site(body, f"nomanage{vi}", manage=False, no_manage=True)
        return files
    is_stmt = spec.get("stmt", False)
    for vi, (header, e) in enumerate(spec["variants"]):
        if is_stmt:
            add(header, e, f"v{vi}_module")
            add(header, "def f(x):\n" + indent(e + "\n", "    ") + "    return x", f"v{vi}_def")
            add(header, e + "\n\n\n" + e, f"v{vi}_two")
            continue
        add(header, f"v = {e}", f"v{vi}_module")
        add(header, f"def f(x):\n    v = {e}\n    return v", f"v{vi}_def")
        add(header, f"print({e})", f"v{vi}_arg")
        add(header, f"class K:\n    def m(self):\n        pad = 0; v = {e}\n        return v", f"v{vi}_method_pad")
        if "(" in e:
            j = e.index("(")
            add(header, f"v = {e[:j + 1]}\n    {e[j + 1:-1]}\n)", f"v{vi}_multiline")
        add(header, f"v = {e}\nw = 1\nz = {e}", f"v{vi}_two")
        add(header, f"{e}", f"v{vi}_bare")
    # nested shapes for every codemod: the flagged construct as first argument of the same construct, and of a
    # different flagged construct of the same rule
    variants = spec["variants"]
    for vi, (header, e) in enumerate(variants):
        nest = nest_with if is_stmt else nest_into
        body = nest(e, e)
        if body:
            add(header, body if is_stmt else f"v = {body}", f"nested_self_v{vi}")
        for vj, (header2, e2) in enumerate(variants):
            if vj == vi or e2 == e:
                continue
            merged = merge_headers(header2, header)
            body = nest(e2, e) if merged is not None else None
            if body:
                add(merged, body if is_stmt else f"v = {body}", f"nested_other_v{vi}_in_v{vj}")
                break
    if spec.get("nested"):
        add(spec["nested"][0], f"v = {spec['nested'][1]}", "nested")
    # heterogeneous spellings: a site that already spells out some of the keywords the codemod sets (with other values),
    # alone in files that sort first, and mixed with plain sites in one file, in both orders
    hetero = spec.get("hetero", [])
    for hi, (header, e) in enumerate(hetero):
        files[f"pkg/a{hi:02d}_hetero.py"] = {"src": header + "\n" + f"v = {e}\n", "tag": f"hetero{hi}_alone", "declined": False}
    if not is_stmt:
        allv = list(hetero) + list(variants)
        for order, seq in (("fwd", allv), ("rev", allv[::-1])):
            hdr, exprs = "", []
            for header, e in seq:
                m = merge_headers(hdr, header) if hdr else header
                if m is None or e in exprs:
                    continue
                hdr = m
                exprs.append(e)
            if len(exprs) >= 2:
                body = "".join(f"s{i} = {e}\n" + ("\n" if rng.random() < 0.5 else "") for i, e in enumerate(exprs))
                add(hdr, body, f"mixed_{order}")
    for di, (header, e) in enumerate(spec.get("declined", [])):
        add(header, e if is_stmt else f"v = {e}", f"declined{di}", declined=True)
    return files


def semgrep_scan(yamls: list[Path], target: Path, out: Path):
    """One semgrep call with the given rule files over `target`; returns {rule name: {path relative to target: [locations]}}."""
    cmd = ["semgrep", "scan", "--no-error", "--sarif", "-o", str(out)]
    for y in yamls:
        cmd += ["--config", str(y)]
    p = subprocess.run(cmd + [str(target)], env=core.cli_env(), stdout=subprocess.PIPE, stderr=subprocess.PIPE, text=True, timeout=600)
    if p.returncode != 0:
        raise RuntimeError(f"semgrep failed: {p.stderr[-500:]}")
    d = json.loads(out.read_text())
    flagged = {}
    for run in d["runs"]:
        for r in run["results"]:
            rule = r["ruleId"].split(".")[-1]
            for l in r["locations"]:
                pl = l["physicalLocation"]
                uri = Path(pl["artifactLocation"]["uri"])
                rel = str(uri.resolve().relative_to(target.resolve())) if uri.is_absolute() else str(uri)
                if not uri.is_absolute() and rel.startswith(str(target).lstrip("/")):
                    rel = rel[len(str(target).lstrip("/")) + 1:]
                rg = pl["region"]
                flagged.setdefault(rule, {}).setdefault(rel, []).append((rg["startLine"], rg["startColumn"], rg["endLine"], rg["endColumn"]))
    return flagged


def search_one(ctx, base, cm, spec, quick):
    rng = ctx.rng
    name = cm._internal_name
    proj = base / "projects" / name
    files = build_search_project(rng, spec)
    if quick:
        files = {f: i for f, i in files.items() if not (i["tag"].endswith("_bare") or i["tag"].endswith("_method_pad"))}
    # corpus witnesses of this codemod (run on every tier)
    for f in sorted((core.VERIF / "corpus" / "C18").glob("*.json")):
        body = json.loads(f.read_text())
        if body.get("codemod") == cm.id:
            for fn, src in core.unb64tree(body["project"]).items():
                files[f"corpus_{f.stem}/{Path(fn).name}"] = {"src": src.decode(), "tag": "corpus:" + body.get("tag", ""), "declined": False}
    for fn, info in files.items():
        (proj / fn).parent.mkdir(parents=True, exist_ok=True)
        (proj / fn).write_text(info["src"])
    (base / "rules").mkdir(exist_ok=True)
    ypath = base / "rules" / f"{name}.yaml"
    tmp = cm.detector.get_yaml_files(name)[0]
    shutil.move(str(tmp), ypath)
    return {"cm": cm, "root": base / "out" / name, "proj": proj, "files": files, "yaml": ypath, "error": None}


def exec_search(job):
    try:
        job["root"].mkdir(parents=True, exist_ok=True)
        out = job["root"] / "out.json"
        r = core.run_cli([str(job["proj"]), "--codemod-include", job["cm"].id, "--output", str(out)])
        job["rc"], job["stderr"] = r["rc"], r["stderr"][-1200:]
        job["report"] = json.loads(out.read_text()) if out.exists() else {}
    except Exception as e:  # harness-level problem: reported as a tie break, not silently dropped
        job["error"] = repr(e)
    return job


def detect_all(base, jobs, which):
    """the codemods' own rules over all projects in one semgrep call; per job {relpath: [locations]} of its own rule"""
    flagged = semgrep_scan([j["yaml"] for j in jobs], base / "projects", base / f"{which}.sarif")
    for j in jobs:
        name = j["cm"]._internal_name
        j[which] = {rel[len(name) + 1:]: locs for rel, locs in flagged.get(name, {}).items() if rel.startswith(name + "/")}


def changed_new_lines(old: str, new: str):
    a, b = old.splitlines(), new.splitlines()
    out = set()
    for tag, i1, i2, j1, j2 in difflib.SequenceMatcher(None, a, b, autojunk=False).get_opcodes():
        if tag in ("replace", "insert"):
            out.update(range(j1 + 1, j2 + 1))
    return out


def classify_not_rewritten(cm, info, L=None):
    """narrow classes for flagged-but-untouched shapes that the property does not list as declined"""
    import re
    if info.get("no_manage"):
        return f"kf_settings_py_without_manage_py:{cm._internal_name}"
    if info.get("fixed"):
        return f"kf_rule_flags_fixed_form:{cm._internal_name}"
    if cm._internal_name == "lazy-logging":
        text = info["src"] if L is None else "\n".join(info["src"].splitlines()[L[0] - 1:L[2]])
        m = re.search(r'\(\s*"[^"%]*" \+ (\w+)\s*\)', text)
        if m and not re.search(rf"^{m.group(1)} = ['\"]", info["src"], re.M):
            return "kf_lazy_logging_plus_untyped_operand"
    return "kf_flagged_not_rewritten"


def changed_old_lines(old: str, new: str):
    a, b = old.splitlines(), new.splitlines()
    out = set()
    for tag, i1, i2, j1, j2 in difflib.SequenceMatcher(None, a, b, autojunk=False).get_opcodes():
        if tag in ("replace", "delete"):
            out.update(range(i1 + 1, i2 + 1))
    return out


def contains(outer, inner):
    return outer != inner and (outer[0], outer[1]) <= (inner[0], inner[1]) and (inner[2], inner[3]) <= (outer[2], outer[3])


def run_search(ctx, codemods):
    quick = ctx.quick()
    by_name = {c._internal_name: c for c in codemods}
    # every codemod with a trigger table on both tiers (the detector runs are batched); quick drops two contexts per variant
    names = [n for n in TRIGGERS if n in by_name]
    missing = [n for n in TRIGGERS if n not in by_name]
    if missing:
        ctx.notes.append(f"trigger table names not in the registry as rule-detected codemods: {missing}")
    ctx.notes.append("rule-detected codemods without a trigger table entry (not searched): " +
                     ", ".join(sorted(n for n in by_name if n not in TRIGGERS)))
    base = ctx.scratch / "search"
    base.mkdir(parents=True, exist_ok=True)
    jobs = [search_one(ctx, base, by_name[n], TRIGGERS[n], quick) for n in names]
    try:
        detect_all(base, jobs, "before")
        with ThreadPoolExecutor(max_workers=8) as ex:
            jobs = list(ex.map(exec_search, jobs))
        detect_all(base, jobs, "after")
    except Exception as e:
        ctx.mismatch("search harness", f"the semgrep binary could not run the codemods' rules: {e!r}", {})
        return
    ctx.cli_runs += len(jobs)
    nested_seen = set()
    for job in jobs:
        cm = job["cm"]
        if job["error"] or job.get("rc") != 0:
            ctx.mismatch("search harness", f"{cm.id}: detector/CLI run failed: {job['error'] or job.get('stderr', '')[-300:]}", {"codemod": cm.id})
            continue
        res = [x for x in job["report"].get("results", []) if x["codemod"] == cm.id]
        failed = set()
        changes = {}
        if res:
            failed = {str(Path(f).resolve().relative_to(job["proj"].resolve())) if Path(f).is_absolute() else f for f in res[0].get("failedFiles") or []}
            for cs in res[0]["changeset"]:
                changes.setdefault(cs["path"], []).extend(c["lineNumber"] for c in cs["changes"])
        # the search is vacuous for a codemod whose rule no longer flags its own triggers (review B15): that is lost
        # coverage, i.e. a broken tie, never a silent pass
        flagged_files = [fn for fn, info in job["files"].items() if not info["declined"] and job["before"].get(fn)]
        plain = [fn for fn, info in job["files"].items() if not info["declined"] and "_module" in info["tag"]]
        if not flagged_files or not any(job["before"].get(fn) for fn in plain):
            ctx.mismatch("C18 search coverage", f"{cm.id}: the codemod's own rule flags none of its plain trigger programs "
                         f"({len(flagged_files)} of {len(job['files'])} generated files flagged): nothing is being searched",
                         {"op": "search_coverage", "codemod": cm.id, "files": {fn: job["files"][fn]["src"] for fn in plain[:3]}})
        for fn, info in job["files"].items():
            before = job["before"].get(fn, [])
            after = job["after"].get(fn, [])
            new = (job["proj"] / fn).read_text()
            changed = new != info["src"]
            ctx.count(f"search:{cm._internal_name}:flagged={bool(before)}:changed={changed}")
            ctx.case({"codemod": cm.id, "file": fn, "flagged_before": before, "changes": changes.get(fn, []), "flagged_after": after},
                     nontrivial_key=("search", cm.id, info["src"]) if before else None, sample=bool(before) and info["tag"].endswith("two"))
            payload = {"op": "search", "codemod": cm.id, "file": fn, "tag": info["tag"], "project": core.b64tree({fn: info["src"]}),
                       "flagged_before": before, "flagged_after": after, "changes": changes.get(fn, []), "failed": sorted(failed)}
            nested = any(contains(a, b) for a in before for b in before)
            if nested:
                nested_seen.add(cm._internal_name)
            # (a) flagged and not a declined shape => rewritten at that location, or the file is listed as failed
            if before and not info["declined"] and fn not in failed:
                old_touched = changed_old_lines(info["src"], new)
                file_level = TRIGGERS.get(cm._internal_name, {}).get("file_level", False)
                for L in before:
                    hit = changed and any(L[0] <= ln <= L[2] for ln in changes.get(fn, [])) and \
                        any(L[0] <= ln <= L[2] for ln in old_touched)
                    if file_level:
                        # the rule marks the FILE (`pattern-regex: ^`): rewritten = the file changed and a change is reported
                        hit = changed and bool(changes.get(fn))
                    if not hit:
                        ctx.violation(classify_not_rewritten(cm, info, L),
                                      f"{cm.id} {fn}: the codemod's own rule flags {L} in\n{info['src']}\nbut the run neither rewrote that "
                                      f"location (changes at lines {changes.get(fn, [])}, file changed={changed}) nor listed the file as failed",
                                      {**payload, "expected": "a change entry on the flagged lines or the file in failedFiles"})
                        break
            # (b) after the run nothing is flagged inside a statement the run rewrote
            if changed and after:
                touched = changed_new_lines(info["src"], new)
                inside = [L for L in after if any(L[0] <= ln <= L[2] for ln in touched)]
                if inside:
                    # an inner match that semgrep reports only once the enclosing match is gone: it starts inside a location
                    # flagged before the run (same line, the prefix of the line is unchanged) and was not itself flagged
                    hidden = (not nested) and all(
                        any(B[0] == L[0] and (B[0], B[1]) < (L[0], L[1]) and (L[0], L[1]) < (B[2], B[3]) for B in before)
                        and not any((B[0], B[1]) == (L[0], L[1]) for B in before) for L in inside)
                    if nested:
                        ctx.count(f"search:{cm._internal_name}:nested_still_flagged")
                    file_marker = TRIGGERS.get(cm._internal_name, {}).get("file_level", False) and \
                        all(L[0] == 1 and (L[0], L[1]) == (L[2], L[3]) for L in inside)
                    cls = f"kf_rule_flags_fixed_form:{cm._internal_name}" if file_marker else \
                        f"kf_nested_selected_calls:{cm._internal_name}" if nested else (
                        f"kf_inner_match_reported_only_after:{cm._internal_name}" if hidden else "kf_flagged_after_rewrite")
                    ctx.violation(cls,
                                  f"{cm.id} {fn}: after the run the codemod's own rule still flags {inside} inside rewritten lines "
                                  f"{sorted(touched)}:\n{new}", {**payload, "after_src": new,
                                                                 "expected": "no flagged location inside a rewritten statement"})
    no_nested = sorted(j["cm"]._internal_name for j in jobs if j["cm"]._internal_name not in nested_seen)
    ctx.notes.append("searched codemods for which no generated program has a flagged location inside another flagged location: "
                     + (", ".join(no_nested) or "none"))
    shutil.rmtree(base, ignore_errors=True)


def run(ctx: core.Ctx):
    codemods = rule_detected_codemods()
    ctx.count("registry:rule_detected_codemods", len(codemods))
    run_join(ctx)
    run_short_id(ctx, codemods)
    run_search(ctx, codemods)


def replay(ctx, body):
    op = body.get("op")
    if op == "search":
        codemods = {c.id: c for c in rule_detected_codemods()}
        cm = codemods[body["codemod"]]
        base = ctx.scratch / "replay"
        name = cm._internal_name
        proj = base / "projects" / name
        proj.mkdir(parents=True)
        core.write_tree(proj, core.unb64tree(body["project"]))
        (base / "rules").mkdir()
        ypath = base / "rules" / f"{name}.yaml"
        shutil.move(str(cm.detector.get_yaml_files(name)[0]), ypath)
        fn = body["file"]
        job = {"cm": cm, "root": base / "out" / name, "proj": proj, "yaml": ypath, "files": {}, "error": None}
        detect_all(base, [job], "before")
        exec_search(job)
        detect_all(base, [job], "after")
        print("flagged before:", job.get("before"), "| recorded:", body.get("flagged_before"))
        print("after the run:\n" + (proj / fn).read_text())
        print("flagged after:", job.get("after"), "| recorded:", body.get("flagged_after"))
        print("expected:", body.get("expected"))
        return 0
    print(json.dumps(body, indent=1)[:3000])
    return 0
