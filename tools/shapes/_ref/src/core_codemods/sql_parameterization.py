import itertools
import re
from dataclasses import replace
from typing import Any, ClassVar, Collection, Optional

import libcst as cst
from libcst.codemod import Codemod, CodemodContext, ContextAwareVisitor
from libcst.codemod.commands.unnecessary_format_string import UnnecessaryFormatString
from libcst.metadata import (
    ClassScope,
    GlobalScope,
    ParentNodeProvider,
    PositionProvider,
    ProviderT,
    ScopeProvider,
)

from codemodder.codemods.base_visitor import UtilsMixin
from codemodder.codemods.libcst_transformer import (
    LibcstResultTransformer,
    LibcstTransformerPipeline,
)
from codemodder.codemods.transformations.remove_empty_string_concatenation import (
    RemoveEmptyStringConcatenation,
)
from codemodder.codemods.utils import (
    Append,
    ReplacementNodeType,
    ReplaceNodes,
    get_function_name_node,
    infer_expression_type,
)
from codemodder.codemods.utils_mixin import NameAndAncestorResolutionMixin
from codemodder.utils.clean_code import (
    NormalizeFStrings,
    RemoveEmptyExpressionsFormatting,
    RemoveUnusedVariables,
)
from codemodder.utils.format_string_parser import (
    PrintfStringExpression,
    PrintfStringText,
    StringLiteralNodeType,
    extract_raw_value,
)
from codemodder.utils.linearize_string_expression import (
    LinearizedStringExpression,
    LinearizeStringMixin,
)
from core_codemods.api import Metadata, Reference, ReviewGuidance
from core_codemods.api.core_codemod import CoreCodemod

parameter_token = "?"

quote_pattern = re.compile(r"(?<!\\)\\'|(?<!\\)'")
raw_quote_pattern = re.compile(r"(?<!\\)'")


class ExtractPrefixMixin(cst.MetadataDependent):

    METADATA_DEPENDENCIES: ClassVar[Collection[ProviderT]] = (ParentNodeProvider,)

    def extract_prefix(self, node: StringLiteralNodeType) -> str:
        match node:
            case cst.SimpleString():
                return node.prefix.lower()
            case cst.FormattedStringText():
                try:
                    parent = self.get_metadata(ParentNodeProvider, node)
                    parent = cst.ensure_type(parent, cst.FormattedString)
                except Exception:
                    return ""
                return parent.start.lower()
            case PrintfStringText():
                return self.extract_prefix(node.origin)
        return ""

    def _extract_prefix_raw_value(self, node: StringLiteralNodeType) -> tuple[str, str]:
        raw_value = extract_raw_value(node)
        prefix = self.extract_prefix(node)
        return prefix, raw_value


class CleanCode(Codemod):

    METADATA_DEPENDENCIES = (
        ParentNodeProvider,
        ScopeProvider,
    )

    def transform_module_impl(self, tree: cst.Module) -> cst.Module:
        result = RemoveEmptyStringConcatenation(self.context).transform_module(tree)
        result = RemoveEmptyExpressionsFormatting(self.context).transform_module(result)
        result = NormalizeFStrings(self.context).transform_module(result)
        result = RemoveUnusedVariables(self.context).transform_module(result)
        result = UnnecessaryFormatString(self.context).transform_module(result)
        return result

    def should_allow_multiple_passes(self) -> bool:
        return True


class SQLQueryParameterizationTransformer(
    LibcstResultTransformer, UtilsMixin, ExtractPrefixMixin
):
    change_description = "Parameterized SQL query execution."

    METADATA_DEPENDENCIES: ClassVar[Collection[ProviderT]] = (
        PositionProvider,
        ScopeProvider,
        ParentNodeProvider,
    )

    def __init__(
        self,
        *codemod_args,
        **codemod_kwargs,
    ) -> None:
        self.changed_nodes: dict[
            cst.CSTNode | PrintfStringText | PrintfStringExpression,
            ReplacementNodeType
            | PrintfStringText
            | PrintfStringExpression
            | dict[str, Any],
        ] = {}
        LibcstResultTransformer.__init__(self, *codemod_args, **codemod_kwargs)
        UtilsMixin.__init__(
            self,
            codemod_args[1],
            line_exclude=self.file_context.line_exclude,
            line_include=self.file_context.line_include,
        )

    def _build_param_element(self, prepend, middle, append, linearized_query):
        middle = [linearized_query.aliased.get(e, e) for e in middle]
        new_middle = (
            ([prepend] if prepend else []) + middle + ([append] if append else [])
        )
        format_pieces: list[str] = []
        format_expr_count = 0
        args = []
        if len(new_middle) == 1:
            # TODO maybe handle conversion here?
            return new_middle[0]
        for e in new_middle:
            exception = False
            if isinstance(
                e, cst.SimpleString | cst.FormattedStringText | PrintfStringText
            ):
                prefix, raw_value = self._extract_prefix_raw_value(e)
                if all(char not in prefix for char in "bru"):
                    format_pieces.append(raw_value)
                    exception = True
            if not exception:
                format_pieces.append(f"{{{format_expr_count}}}")
                format_expr_count += 1
                args.append(cst.Arg(e))

        format_string = "".join(format_pieces)
        format_string_node = cst.SimpleString(f"'{format_string}'")
        return cst.Call(
            func=cst.Attribute(value=format_string_node, attr=cst.Name(value="format")),
            args=args,
        )

    def transform_module_impl(self, tree: cst.Module) -> cst.Module:
        """
        The transformation is composed of 3 steps, each step is done by a codemod/visitor: (1) FindQueryCalls, (2) ExtractParameters, and (3) _fix_injection
        Step (1) finds the `execute` calls and linearizing the query argument. Step (2) extracts the expressions that are parameters to the query.
        Step (3) swaps the parameters in the query for `?` tokens and passes them as an arguments for the `execute` call. At the end of the transformation, the `CleanCode` codemod is executed to remove leftover empty strings and unused variables.
        """

        # Step (1)
        find_queries = FindQueryCalls(self.context)
        tree.visit(find_queries)

        for call, linearized_query in find_queries.calls.items():
            # filter node
            if not self.node_is_selected(call):
                continue

            # Step (2)
            ep = ExtractParameters(self.context, linearized_query)
            tree.visit(ep)

            # Step (3)
            params_elements: list[cst.Element] = []
            for start, middle, end in ep.injection_patterns:
                prepend, append = self._fix_injection(
                    start, middle, end, linearized_query
                )
                expr = self._build_param_element(
                    prepend, middle, append, linearized_query
                )
                params_elements.append(
                    cst.Element(
                        value=expr,
                        comma=cst.Comma(whitespace_after=cst.SimpleWhitespace(" ")),
                    )
                )

            # TODO research if named parameters are widely supported
            # it could solve for the case of existing parameters
            # TODO Do all middle expressions hail from a single source?
            # e.g. the following
            # name = 'user_' + input() + '_name'
            # execute("'" + name + "'")
            # should produce: execute("?", name)
            # instead of: execute("?", 'user_{0}_name'.format(input()))
            if params_elements:
                tuple_arg = cst.Arg(cst.Tuple(elements=params_elements))
                self.changed_nodes[call] = {"args": Append([tuple_arg])}

            # made changes
            if self.changed_nodes:
                # build changed_nodes from parts here
                new_changed_nodes = {}
                new_parts_for = set()
                for k, v in self.changed_nodes.items():
                    match k:
                        case PrintfStringText():
                            new_parts_for.add(k.origin)
                        case _:
                            new_changed_nodes[k] = v
                for node in new_parts_for:
                    new_raw_value = ""
                    for part in linearized_query.node_pieces[node]:
                        new_part = self.changed_nodes.get(part) or part
                        match new_part:
                            case cst.SimpleString():
                                new_raw_value += new_part.raw_value
                            case PrintfStringText() | PrintfStringExpression():
                                new_raw_value += new_part.value
                            case _:
                                new_raw_value = ""
                    match node:
                        case cst.SimpleString():
                            new_changed_nodes[node] = node.with_changes(
                                value=node.prefix
                                + node.quote
                                + new_raw_value
                                + node.quote
                            )
                        case cst.FormattedStringText():
                            new_changed_nodes[node] = node.with_changes(
                                value=new_raw_value
                            )

                result = tree.visit(ReplaceNodes(new_changed_nodes))
                self.changed_nodes = {}
                line_number = self.get_metadata(PositionProvider, call).start.line
                self.report_change_for_line(
                    line_number, SQLQueryParameterizationTransformer.change_description
                )

                # Normalization and cleanup
                result = CleanCode(self.context).transform_module(result)

                # return after a single change
                return result
        return tree

    def should_allow_multiple_passes(self) -> bool:
        return True

    def _fix_injection(
        self,
        start: cst.CSTNode,
        middle: list[cst.CSTNode],
        end: cst.CSTNode,
        linearized_query: LinearizedStringExpression,
    ):
        for expr in middle:
            if expr in linearized_query.aliased:
                self.changed_nodes[linearized_query.aliased[expr]] = (
                    cst.parse_expression('""')
                )
            else:
                match expr:
                    case cst.FormattedStringText() | cst.FormattedStringExpression():
                        self.changed_nodes[expr] = cst.RemovalSentinel.REMOVE
                    case _:
                        self.changed_nodes[expr] = cst.parse_expression('""')
        # remove quote literal from start
        updated_start = self.changed_nodes.get(start) or start

        prefix, raw_value = self._extract_prefix_raw_value(updated_start)

        # gather string after the quote
        if "r" in prefix:
            quote_span = list(raw_quote_pattern.finditer(raw_value))[-1]
        else:
            quote_span = list(quote_pattern.finditer(raw_value))[-1]

        new_raw_value = raw_value[: quote_span.start()] + parameter_token
        prepend_raw_value = raw_value[quote_span.end() :]

        prepend = self._remove_literal_and_gather_extra(
            start, updated_start, prefix, new_raw_value, prepend_raw_value
        )

        # remove quote literal from end
        updated_end = self.changed_nodes.get(end) or end

        prefix, raw_value = self._extract_prefix_raw_value(updated_end)
        if "r" in prefix:
            quote_span = list(raw_quote_pattern.finditer(raw_value))[0]
        else:
            quote_span = list(quote_pattern.finditer(raw_value))[0]

        new_raw_value = raw_value[quote_span.end() :]
        append_raw_value = raw_value[: quote_span.start()]

        append = self._remove_literal_and_gather_extra(
            end, updated_end, prefix, new_raw_value, append_raw_value
        )

        return (prepend, append)

    def _remove_literal_and_gather_extra(
        self, original_node, updated_node, prefix, new_raw_value, extra_raw_value
    ) -> Optional[cst.SimpleString]:
        extra = None
        match updated_node:
            case cst.SimpleString():
                # gather string after or before the quote
                if extra_raw_value:
                    extra = cst.SimpleString(
                        value=updated_node.prefix
                        + updated_node.quote
                        + extra_raw_value
                        + updated_node.quote
                    )

                new_value = (
                    updated_node.prefix
                    + updated_node.quote
                    + new_raw_value
                    + updated_node.quote
                )
                self.changed_nodes[original_node] = updated_node.with_changes(
                    value=new_value
                )
            case cst.FormattedStringText():
                if extra_raw_value:
                    extra = cst.SimpleString(
                        value=("r" if "r" in prefix else "") + f"'{extra_raw_value}'"
                    )

                new_value = new_raw_value
                self.changed_nodes[original_node] = updated_node.with_changes(
                    value=new_value
                )
            case PrintfStringText():
                if extra_raw_value:
                    extra = cst.SimpleString(
                        value=("r" if "r" in prefix else "") + f"'{extra_raw_value}'"
                    )

                new_value = new_raw_value
                self.changed_nodes[original_node] = replace(
                    updated_node, value=new_value
                )
        return extra


SQLQueryParameterization = CoreCodemod(
    metadata=Metadata(
        name="sql-parameterization",
        summary="Parameterize SQL Queries",
        review_guidance=ReviewGuidance.MERGE_AFTER_CURSORY_REVIEW,
        references=[
            Reference(url="https://cwe.mitre.org/data/definitions/89.html"),
            Reference(url="https://owasp.org/www-community/attacks/SQL_Injection"),
        ],
    ),
    transformer=LibcstTransformerPipeline(SQLQueryParameterizationTransformer),
    detector=None,
)


class ExtractParameters(
    ContextAwareVisitor, NameAndAncestorResolutionMixin, ExtractPrefixMixin
):
    """
    This visitor a takes the linearized query and extracts the expressions that are parameters in this query. An expression is a parameter if it is surrounded by single quotes in the query. It results in a list of triples (start, middle, end), where start and end contains the expressions with single quotes marking the parameter, and middle is a list of expressions that composes the parameter.
    """

    def __init__(
        self,
        context: CodemodContext,
        linearized_query: LinearizedStringExpression,
    ) -> None:
        self.linearized_query = linearized_query
        self.injection_patterns: list[
            tuple[
                cst.CSTNode,
                list[cst.CSTNode],
                cst.CSTNode,
            ]
        ] = []
        super().__init__(context)

    def leave_Module(self, original_node: cst.Module):
        leaves = list(reversed(self.linearized_query.parts))
        modulo_2 = 1
        # treat it as a stack
        while leaves:
            # search for the literal start, we detect the single quote
            start = leaves.pop()
            if not self._is_literal_start(start, modulo_2):
                continue
            middle = []
            # gather expressions until the literal ends
            while leaves and not self._is_literal_end(leaves[-1]):
                middle.append(leaves.pop())
            # could not find the literal end
            if not leaves:
                break
            end = leaves.pop()
            if any(map(self._is_injectable, middle)):
                if (
                    self._can_be_changed(start)
                    and self._can_be_changed(end)
                    and all(map(self._can_be_changed_middle, middle))
                ):
                    self.injection_patterns.append((start, middle, end))
            # end may contain the start of another literal, put it back
            # should not be a single quote

            if self._is_literal_start(end, 0) and self._is_not_a_single_quote(end):
                modulo_2 = 0
                leaves.append(end)
            else:
                modulo_2 = 1

    def _is_not_a_single_quote(self, expression: StringLiteralNodeType) -> bool:
        prefix, raw_value = self._extract_prefix_raw_value(expression)
        if "b" in prefix:
            return False
        if "r" in prefix:
            return raw_quote_pattern.fullmatch(raw_value) is None
        return quote_pattern.fullmatch(raw_value) is None

    def _is_assigned_to_exposed_scope(self, expression):
        # is it part of an expression that is assigned to a variable in an exposed scope?
        path = self.path_to_root(expression)
        for i, node in enumerate(path):
            # ensure it descend from the value attribute
            if isinstance(node, cst.Assign) and (i > 0 and path[i - 1] == node.value):
                expression = node.value
                scope = self.get_metadata(ScopeProvider, node, None)
                match scope:
                    case GlobalScope() | ClassScope() | None:
                        return True

        named, other = self.find_transitive_assignment_targets(expression)
        for t in itertools.chain(named, other):
            scope = self.get_metadata(ScopeProvider, t, None)
            match scope:
                case GlobalScope() | ClassScope() | None:
                    return True
        return False

    def _is_target_in_exposed_scope(self, expression):
        assignments = self.find_assignments(expression)
        for assignment in assignments:
            match assignment.scope:
                case GlobalScope() | ClassScope() | None:
                    return True
        return False

    def _can_be_changed_middle(self, expression):
        # is it assigned to a variable with global/class scope?
        # is itself a target in global/class scope?
        # if the expression is aliased, it is just a reference and we can always change
        match expression:
            case PrintfStringText():
                expression = expression.origin

        if expression in self.linearized_query.aliased:
            return True
        return not (
            self._is_target_in_exposed_scope(expression)
            or self._is_assigned_to_exposed_scope(expression)
        )

    def _can_be_changed(self, expression):
        # is it assigned to a variable with global/class scope?
        # is itself a target in global/class scope?
        match expression:
            case PrintfStringText():
                expression = expression.origin
        return not (
            self._is_target_in_exposed_scope(expression)
            or self._is_assigned_to_exposed_scope(expression)
        )

    def _is_injectable(self, expression: cst.BaseExpression) -> bool:
        return not bool(infer_expression_type(expression))

    def _is_literal_start(
        self,
        node: cst.CSTNode | PrintfStringText | PrintfStringExpression,
        modulo_2: int,
    ) -> bool:
        if isinstance(
            node, cst.SimpleString | cst.FormattedStringText | PrintfStringText
        ):
            prefix, raw_value = self._extract_prefix_raw_value(node)

            if "b" in prefix:
                return False
            if "r" in prefix:
                matches = list(raw_quote_pattern.finditer(raw_value))
            else:
                matches = list(quote_pattern.finditer(raw_value))
            # avoid cases like: "where name = 'foo\\\'s name'"
            # don't count \\' as these are escaped in string literals
            return (matches is not None) and len(matches) % 2 == modulo_2
        return False

    def _is_literal_end(
        self, node: cst.CSTNode | PrintfStringExpression | PrintfStringText
    ) -> bool:
        if isinstance(
            node, cst.SimpleString | cst.FormattedStringText | PrintfStringText
        ):
            prefix, raw_value = self._extract_prefix_raw_value(node)
            if prefix is None:
                return False

            if "b" in prefix:
                return False
            if "r" in prefix:
                matches = list(raw_quote_pattern.finditer(raw_value))
            else:
                matches = list(quote_pattern.finditer(raw_value))
            return bool(matches)
        return False


class FindQueryCalls(ContextAwareVisitor, LinearizeStringMixin):
    """
    Finds `execute` calls and linearizes the query argument. The result is a dict mappig each detected call with the linearized query.
    """

    # Right now it works by looking into some sql keywords in any pieces of the query
    # Ideally we should infer what driver we are using
    sql_keywords: list[str] = ["insert", "select", "delete", "create", "alter", "drop"]

    def __init__(self, context: CodemodContext) -> None:
        self.calls: dict = {}
        super().__init__(context)

    def _has_keyword(self, string: str) -> bool:
        for keyword in self.sql_keywords:
            if keyword in string.lower():
                return True
        return False

    def leave_Call(self, original_node: cst.Call) -> None:
        maybe_call_name = get_function_name_node(original_node)
        if maybe_call_name and maybe_call_name.value == "execute":
            # TODO don't parameterize if there are parameters already
            # may be temporary until I figure out if named parameter will work on most drivers
            if len(original_node.args) > 0 and len(original_node.args) < 2:
                first_arg = original_node.args[0] if original_node.args else None
                if first_arg:
                    linearized_string_expr = self.linearize_string_expression(
                        first_arg.value
                    )
                    for part in (
                        linearized_string_expr.parts if linearized_string_expr else []
                    ):
                        match part:
                            case (
                                cst.SimpleString()
                                | cst.FormattedStringText()
                                | PrintfStringText()
                            ) if self._has_keyword(part.value):
                                self.calls[original_node] = linearized_string_expr
                                break
