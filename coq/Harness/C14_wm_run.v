(** Checkers tying [W_manifest] (Model/ManifestRun.v: the writer oracle used by C03_run_diffs_compose_manifest and
    C09_stores_reparse_manifest) and the parser model [names_req] to the implementation. *)
From CM Require Import Harness.RunBase Harness.C14_run Model.Manifest Spec.ManifestSpec Model.ManifestRun Generated.Tables.
From CM Require Model.Diff Model.Run.

Definition one_hunk (a b : list str) : Diff.script := {| Diff.gap0 := []; Diff.hunks := [([Diff.SRep a b], [])] |}.

Fixpoint line_lookup (l : list Manifest.dep) (n : str) : str :=
  match l with [] => [] | d :: r => if str_eqb (dname d) n then dline d else line_lookup r n end.

(** what the oracle answers for the dependencies the writer was handed (those not held by the store) *)
(** [None] = the writer is not called at all (nothing new: Run.v's [attempt] answers None without consulting W) *)
Definition wm_answer (k : Types_Run.skind) (text : str) (defined : option str) (declared : list str) (deps : list (str * str)) :=
  let new := add_deps requirement_name_cmp (mkdeps deps) declared in
  match new with
  | [] => Some (text, ([] : str), ([] : list Run.change))
  | _ => W_manifest one_hunk (line_lookup new) (fun _ => defined) cfg_last_line_form k (Some text) (map dname new)
  end.

(** soundness: when the oracle answers, its new content is the file the implementation wrote *)
Definition wm_req_sound (c : req_case) : bool :=
  let '(text, declared, _, deps, dry, (kind, _, after)) := c in
  match wm_answer Types_Run.SReqTxt text None declared deps with
  | Some (b', _, _) => dry || str_eqb b' after
  | None => true
  end.
(** coverage: on an LF manifest for which a changeset was produced the oracle does answer *)
Definition wm_req_covers (c : req_case) : bool :=
  let '(text, declared, _, deps, dry, (kind, _, after)) := c in
  negb (N.eqb kind 2) || negb (no_cr text) ||
  match wm_answer Types_Run.SReqTxt text None declared deps with Some _ => true | None => false end.

Definition wm_cfg_sound (c : cfg_case) : bool :=
  let '(text, defined, declared, _, deps, dry, _, (kind, _, after)) := c in
  match wm_answer Types_Run.SSetupCfg text defined declared deps with
  | Some (b', _, _) => dry || str_eqb b' after
  | None => true
  end.
Definition wm_cfg_covers (c : cfg_case) : bool :=
  let '(text, defined, declared, _, deps, dry, _, (kind, _, after)) := c in
  match wm_answer Types_Run.SSetupCfg text defined declared deps with Some _ => true | None => false end.

(** the parser model: (decoded text, canonical names the real store holds, in file order is not observable: as sets;
    cleaned line -> canonical name as packaging gives it, for every cleaned line of the text) *)
Definition names_case := (str * list str * list (str * option str))%type.
Fixpoint cname_lookup (tbl : list (str * option str)) (l : str) : option str :=
  match tbl with [] => None | (k, v) :: r => if str_eqb k l then v else cname_lookup r l end.
Definition names_model_ok (c : names_case) : bool :=
  let '(text, held, tbl) := c in
  let m := names_req (cname_lookup tbl) text in
  subset_str m held && subset_str held m.
