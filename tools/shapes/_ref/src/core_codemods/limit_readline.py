import libcst as cst

from core_codemods.api import Metadata, Reference, ReviewGuidance, SimpleCodemod

default_limit = "5_000_000"


class LimitReadline(SimpleCodemod):
    metadata = Metadata(
        name="limit-readline",
        summary="Limit readline()",
        review_guidance=ReviewGuidance.MERGE_AFTER_CURSORY_REVIEW,
        references=[
            Reference(url="https://cwe.mitre.org/data/definitions/400.html"),
        ],
    )
    change_description = "Adds a size limit argument to readline() calls."
    detector_pattern = """
        rules:
          - id: limit-readline
            mode: taint
            pattern-sources:
              - pattern-either:
                  - patterns:
                    - pattern: io.StringIO(...)
                    - pattern-inside: |
                        import io
                        ...
                  - patterns:
                    - pattern: io.BytesIO(...)
                    - pattern-inside: |
                        import io
                        ...
                  - pattern: open(...)
            pattern-sinks:
              - pattern: $SINK.readline()
        """

    def on_result_found(self, _, updated_node):
        return self.update_arg_target(updated_node, [cst.Integer(default_limit)])
