From CM Require Import Model.SarifTools.

Lemma run_events_char evs : forall st m,
  run_events st evs = TOk m ->
  forall t f, In (t, f) m <-> In (t, f) st \/ In (f, t, DYes) evs.
Proof.
  induction evs as [|[[f0 t0] r0] evs IH]; intros st m H t f; cbn [run_events] in H.
  - inversion H; subst. split; [auto | intros [H1|[]]; exact H1].
  - unfold step in H. destruct r0.
    + destruct (has_tool t0 st) eqn:E; [discriminate|].
      rewrite (IH _ _ H). rewrite in_app_iff. cbn [In]. split.
      * intros [[H1|[H1|[]]]|H1]; auto. inversion H1; subst. right. left. reflexivity.
      * intros [H1|[H1|H1]]; auto. inversion H1; subst. left. right. left. reflexivity.
    + rewrite (IH _ _ H). cbn [In]. split; [intros [H1|H1]; auto | intros [H1|[H1|H1]]; auto; discriminate].
    + rewrite (IH _ _ H). cbn [In]. split; [intros [H1|H1]; auto | intros [H1|[H1|H1]]; auto; discriminate].
    + discriminate.
Qed.

Lemma NoDup_app_one {A} (l : list A) (x : A) : NoDup l -> ~ In x l -> NoDup (l ++ [x]).
Proof.
  induction l as [|a l IH]; intros Hnd Hx; cbn [app].
  - constructor; [intros []|constructor].
  - inversion Hnd as [|a' l' Ha Hl]; subst. constructor.
    + rewrite in_app_iff. cbn [In]. intros [H|[H|[]]]; [contradiction|]. subst. apply Hx. now left.
    + apply IH; [exact Hl|]. intros H. apply Hx. now right.
Qed.

(** no tool is attributed twice *)
Lemma run_events_nodup evs : forall st m,
  NoDup (map fst st) -> run_events st evs = TOk m -> NoDup (map fst m).
Proof.
  induction evs as [|[[f0 t0] r0] evs IH]; intros st m Hnd H; cbn [run_events] in H.
  - now inversion H; subst.
  - unfold step in H. destruct r0; try (now apply (IH _ _ Hnd H)); try discriminate.
    destruct (has_tool t0 st) eqn:E; [discriminate|].
    apply (IH _ _) in H; [exact H|]. rewrite map_app. cbn [map fst].
    apply NoDup_app_one; [exact Hnd|].
    intros Hin. apply in_map_iff in Hin. destruct Hin as [[t1 f1] [Ht Hin]]. cbn [fst] in Ht. subst t1.
    unfold has_tool in E. assert (existsb (fun p => tool_eqb (fst p) t0) st = true) as C.
    { apply existsb_exists. exists (t0, f1). split; [exact Hin|]. destruct t0; reflexivity. }
    congruence.
Qed.

Lemma in_file_events ord f runs f' t r :
  In (f', t, r) (file_events ord f runs) <-> f' = f /\ In t ord /\ exists run, In run runs /\ r = detect t run.
Proof.
  unfold file_events. rewrite in_flat_map. split.
  - intros [t0 [Ht Hin]]. apply in_map_iff in Hin. destruct Hin as [run [E Hr]]. inversion E; subst. eauto.
  - intros [-> [Ht [run [Hr ->]]]]. exists t. split; [exact Ht|]. apply in_map_iff. exists run. auto.
Qed.

(** Attribution is exact, whatever the order in which the detectors are iterated (as long as each is iterated): when
    detection succeeds, a file is attributed to a tool iff one of ITS runs is recognised by that tool's detector — runs a
    detector cannot inspect, and other tools' runs, in any position, change nothing. *)
Theorem detect_tools_ord_exact ord files m :
  (forall t, In t ord) ->
  detect_tools_ord ord files = TOk m ->
  NoDup (map fst m) /\
  forall t f, In (t, f) m <-> exists runs, In (f, Some runs) files /\ exists run, In run runs /\ detect t run = DYes.
Proof.
  intros Hord. unfold detect_tools_ord. destruct (forallb _ files) eqn:Hall; [|discriminate]. intros H. split.
  - eapply run_events_nodup; [|exact H]. constructor.
  - intros t f. rewrite (run_events_char _ _ _ H t f). cbn [In]. split.
    + intros [[]|Hin]. apply in_flat_map in Hin. destruct Hin as [[f1 r1] [Hf Hin]]. cbn [fst snd] in Hin.
      destruct r1 as [runs|].
      * apply in_file_events in Hin. destruct Hin as [-> [_ [run [Hr Hd]]]]. exists runs. split; [exact Hf|]. exists run. split; [exact Hr|]. now symmetry.
      * apply in_file_events in Hin. destruct Hin as [_ [_ [run [[] _]]]].
    + intros [runs [Hf [run [Hr Hd]]]]. right. apply in_flat_map. exists (f, Some runs). split; [exact Hf|]. cbn [fst snd].
      apply in_file_events. split; [reflexivity|]. split; [apply Hord|]. exists run. split; [exact Hr|]. now symmetry.
Qed.

Theorem detect_tools_exact files m :
  detect_tools files = TOk m ->
  NoDup (map fst m) /\
  forall t f, In (t, f) m <-> exists runs, In (f, Some runs) files /\ exists run, In run runs /\ detect t run = DYes.
Proof. apply detect_tools_ord_exact. intros [|]; cbn; auto. Qed.

(** witnesses for the non-vacuity example: one file with a Semgrep and a CodeQL run, one with a foreign run *)
Definition w_trun (name : str) : json := JObj [(s_tool, JObj [(s_driver, JObj [(s_name, JStr name)])])].
Definition w_tfiles : list (N * option (list json)) :=
  [(0%N, Some [w_trun [83;110;121;107]%N; w_trun [115;101;109;103;114;101;112]%N]);
   (1%N, Some [w_trun s_CodeQL])].
