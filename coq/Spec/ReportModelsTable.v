(** The classes of codetf.py as the records of Model/Report.v and [to_json] assume them: class, base, and per field
    (name, type, Optional?, default); for enums (member, value).  [Harness/C15_run.v: models_table_ok] compares this with
    the table the translator extracts from the source on every run. *)
From CM Require Import Base.Types_Report.
From Coq Require Import String.
Definition expected_models : list model_row :=
  [(lit "Action", lit "Enum",
     [(lit "ADD", lit "add", false, NoDefault);
      (lit "REMOVE", lit "remove", false, NoDefault)]);
   (lit "PackageResult", lit "Enum",
     [(lit "COMPLETED", lit "completed", false, NoDefault);
      (lit "FAILED", lit "failed", false, NoDefault);
      (lit "SKIPPED", lit "skipped", false, NoDefault)]);
   (lit "DiffSide", lit "Enum",
     [(lit "LEFT", lit "left", false, NoDefault);
      (lit "RIGHT", lit "right", false, NoDefault)]);
   (lit "PackageAction", lit "BaseModel",
     [(lit "action", lit "Action", false, NoDefault);
      (lit "result", lit "PackageResult", false, NoDefault);
      (lit "package", lit "str", false, NoDefault)]);
   (lit "Change", lit "BaseModel",
     [(lit "lineNumber", lit "int", false, NoDefault);
      (lit "description", lit "str", true, NoDefault);
      (lit "diffSide", lit "DiffSide", false, DefaultEnum (lit "right"));
      (lit "properties", lit "dict", true, DefaultNone);
      (lit "packageActions", lit "list[PackageAction]", true, DefaultNone);
      (lit "findings", lit "list[Finding]", true, DefaultNone)]);
   (lit "AIMetadata", lit "BaseModel",
     [(lit "provider", lit "str", true, DefaultNone);
      (lit "model", lit "str", true, DefaultNone);
      (lit "tokens", lit "int", true, DefaultNone)]);
   (lit "ChangeSet", lit "BaseModel",
     [(lit "path", lit "str", false, NoDefault);
      (lit "diff", lit "str", false, NoDefault);
      (lit "changes", lit "list[Change]", false, DefaultEmptyList);
      (lit "ai", lit "AIMetadata", true, DefaultNone)]);
   (lit "Reference", lit "BaseModel",
     [(lit "url", lit "str", false, NoDefault);
      (lit "description", lit "str", true, DefaultNone)]);
   (lit "Rule", lit "BaseModel",
     [(lit "id", lit "str", false, NoDefault);
      (lit "name", lit "str", false, NoDefault);
      (lit "url", lit "str", true, DefaultNone)]);
   (lit "Finding", lit "BaseModel",
     [(lit "id", lit "str", false, NoDefault);
      (lit "rule", lit "Rule", false, NoDefault)]);
   (lit "UnfixedFinding", lit "Finding",
     [(lit "path", lit "str", false, NoDefault);
      (lit "lineNumber", lit "int", true, DefaultNone);
      (lit "reason", lit "str", false, NoDefault)]);
   (lit "DetectionTool", lit "BaseModel",
     [(lit "name", lit "str", false, NoDefault)]);
   (lit "Result", lit "BaseModel",
     [(lit "codemod", lit "str", false, NoDefault);
      (lit "summary", lit "str", false, NoDefault);
      (lit "description", lit "str", false, NoDefault);
      (lit "detectionTool", lit "DetectionTool", true, DefaultNone);
      (lit "references", lit "list[Reference]", true, DefaultNone);
      (lit "properties", lit "dict", true, DefaultNone);
      (lit "failedFiles", lit "list[str]", true, DefaultNone);
      (lit "changeset", lit "list[ChangeSet]", false, NoDefault);
      (lit "unfixedFindings", lit "list[UnfixedFinding]", true, DefaultNone)]);
   (lit "Sarif", lit "BaseModel",
     [(lit "artifact", lit "str", false, NoDefault);
      (lit "sha1", lit "str", false, NoDefault)]);
   (lit "Run", lit "BaseModel",
     [(lit "vendor", lit "str", false, NoDefault);
      (lit "tool", lit "str", false, NoDefault);
      (lit "version", lit "str", false, NoDefault);
      (lit "projectName", lit "str", true, DefaultNone);
      (lit "commandLine", lit "str", false, NoDefault);
      (lit "elapsed", lit "int", true, NoDefault);
      (lit "directory", lit "str", false, NoDefault);
      (lit "sarifs", lit "list[Sarif]", false, DefaultEmptyList)]);
   (lit "CodeTF", lit "BaseModel",
     [(lit "run", lit "Run", false, NoDefault);
      (lit "results", lit "list[Result]", false, NoDefault)])].
