# src/codemodder/context.py @ HEAD
class CodemodExecutionContext:
    def process_results(self, codemod_id: str, results: Iterator[FileContext]):
        for file_context in results:
            self.add_changesets(codemod_id, file_context.changesets)
            self.add_failures(codemod_id, file_context.failures)
            self.add_dependencies(codemod_id, file_context.dependencies)
            self.add_unfixed_findings(codemod_id, file_context.unfixed_findings)
            self.timer.aggregate(file_context.timer)

    def add_changesets(self, codemod_name: str, change_sets: List[ChangeSet]):
        self._changesets_by_codemod.setdefault(codemod_name, []).extend(change_sets)

    def add_failures(self, codemod_name: str, failed_files: List[Path]):
        self._failures_by_codemod.setdefault(codemod_name, []).extend(failed_files)

    def add_dependencies(self, codemod_id: str, dependencies: set[Dependency]):
        self.dependencies.setdefault(codemod_id, set()).update(dependencies)

    def add_unfixed_findings(
        self, codemod_id: str, unfixed_findings: list[UnfixedFinding]
    ):
        self._unfixed_findings_by_codemod.setdefault(codemod_id, []).extend(
            unfixed_findings
        )
