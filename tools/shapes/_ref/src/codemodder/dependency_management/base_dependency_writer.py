from abc import ABCMeta, abstractmethod
from pathlib import Path
from typing import Callable, List, Optional, Union

from packaging.requirements import Requirement

from codemodder.codetf import Action, Change, ChangeSet, PackageAction, PackageResult
from codemodder.dependency import Dependency
from codemodder.project_analysis.file_parsers.package_store import PackageStore


class DependencyWriter(metaclass=ABCMeta):
    dependency_store: PackageStore

    def __init__(self, dependency_store: PackageStore, parent_directory: Path):
        self.dependency_store = dependency_store
        self.path = Path(dependency_store.file)
        self.parent_directory = parent_directory

    @abstractmethod
    def add_to_file(
        self, dependencies: list[Dependency], dry_run: bool = False
    ) -> Optional[ChangeSet]:
        pass

    def write(
        self, dependencies: list[Dependency], dry_run: bool = False
    ) -> Optional[ChangeSet]:
        if new_dependencies := self.add(dependencies):
            return self.add_to_file(new_dependencies, dry_run)
        return None

    def add(self, dependencies: list[Dependency]) -> list[Dependency]:
        """add any number of dependencies to the end of list of dependencies."""
        new = []

        for new_dep in dependencies:
            requirement: Requirement = new_dep.requirement
            if not self.dependency_store.has_requirement(requirement):
                self.dependency_store.dependencies.add(requirement)
                new.append(new_dep)
        return new

    def build_changes(
        self,
        dependencies: list[Dependency],
        line_number_strategy: Callable,
        strategy_arg: Union[int, List[str], List[int]],
    ) -> list[Change]:
        return [
            Change(
                lineNumber=line_number_strategy(strategy_arg, i),
                description=dep.build_description(),
                # Contextual comments should be added to the right side of split diffs
                properties={
                    "contextual_description": True,
                    # TODO: `contextual_description_position` is deprecated in
                    # favor of Change.diffSide.
                    # We're keeping it here for backwards compatibility but it
                    # should eventually be removed.
                    "contextual_description_position": "right",
                },
                packageActions=[
                    PackageAction(
                        action=Action.ADD,
                        result=PackageResult.COMPLETED,
                        package=str(dep.requirement),
                    )
                ],
            )
            for i, dep in enumerate(dependencies)
        ]
