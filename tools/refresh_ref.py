#!/usr/bin/env python3
"""Refresh tools/shapes/_ref/ (the reference text of every source file a translator fragment reads) from /repo.
Run after a `fix:` commit once the recognisers have been taught the new shape.  A stale reference is harmless
(it only means local-variable renames in the changed functions are not seen through)."""
import ast
import re
import shutil
import sys
from pathlib import Path

VERIF = Path(__file__).resolve().parents[1]
REPO = Path(sys.argv[1] if len(sys.argv) > 1 else "/repo")
sys.path.insert(0, str(VERIF / "tools"))
import translate  # noqa: E402

files = {f.file for f in translate.FRAGMENTS}
# files the custom recognisers open themselves
for frag_py in (VERIF / "tools").glob("fragments_*.py"):
    files |= set(re.findall(r'"(src/[A-Za-z0-9_/]+\.py)"', frag_py.read_text()))
files |= {str(p.relative_to(REPO)) for p in (REPO / "src/core_codemods").glob("*.py")}
ref = VERIF / "tools" / "shapes" / "_ref"
if ref.exists():
    shutil.rmtree(ref)
n = 0
for rel in sorted(files):
    src = REPO / rel
    if src.is_file():
        dst = ref / rel
        dst.parent.mkdir(parents=True, exist_ok=True)
        shutil.copyfile(src, dst)
        n += 1
print(f"{n} reference files written to {ref}")
