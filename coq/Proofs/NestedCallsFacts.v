From CM Require Import Model.NestedCalls.

Fixpoint call_ind' (P : call -> Prop) (H : forall i v args, Forall P args -> P (Call i v args)) (c : call) : P c :=
  match c with
  | Call i v args =>
      H i v args ((fix go (l : list call) : Forall P l :=
                     match l with [] => Forall_nil P | x :: r => Forall_cons x (call_ind' P H x) (go r) end) args)
  end.

Lemma updated_clears sel : forall c i, sel i = true -> ~ In i (flagged (rewrite FromUpdated sel c)).
Proof.
  intros c. induction c as [i0 v args IH] using call_ind'. intros i Hi Hin.
  assert (Hargs : ~ In i (flat_map flagged (map (rewrite FromUpdated sel) args))).
  { intros H. apply in_flat_map in H. destruct H as [x [Hx Hf]]. apply in_map_iff in Hx.
    destruct Hx as [y [<- Hy]]. rewrite Forall_forall in IH. exact (IH y Hy i Hi Hf). }
  simpl in Hin. destruct (sel i0) eqn:E; simpl in Hin.
  - exact (Hargs Hin).
  - apply in_app_or in Hin. destruct Hin as [Hin|Hin]; [|exact (Hargs Hin)].
    destruct v; simpl in Hin; [|contradiction]. destruct Hin as [<-|[]]. congruence.
Qed.

(** requests.get(requests.get(u, verify=False).text, verify=False): both reported, the inner rewrite is discarded *)
Definition w_nested : call := Call 1 true [Call 2 true []].
Lemma original_keeps_inner :
  In 2%N (flagged (rewrite FromOriginal (fun _ => true) w_nested)).
Proof. vm_compute. now left. Qed.
