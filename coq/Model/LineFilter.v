(** Model of the line-level include/exclude logic (C13) — definitions only.
    codemods/base_visitor.py: match_line, UtilsMixin.filter_by_path_includes_or_excludes, node_is_selected, lineno_for_node
    (the same text is duplicated in core_codemods/remove_unused_imports.py — tied by the translator);
    codemods/base_codemod.py: _file_line_patterns / _process_file (both variants, selected by [path_form]);
    codemods/libcst_transformer.py: report_change. *)
From CM Require Export Base.Types_Glob Model.Glob.

(** A libcst CodeRange: ((start line, start column), (end line, end column)). *)
Definition pos := ((Z * Z) * (Z * Z))%type.
Definition start_line (p : pos) : Z := fst (fst p).
Definition end_line (p : pos) : Z := fst (snd p).

(** `pos.start.line == line and pos.end.line == line` *)
Definition match_line (p : pos) (line : Z) : bool := Z.eqb (start_line p) line && Z.eqb (end_line p) line.

(** as written: `if self.line_exclude: return not any(...)`, `if self.line_include: return any(...)`, `return True`;
    repaired: `if self.line_exclude and any(...): return False`, `if self.line_include: return any(...)`, `return True` *)
Definition filter_by_path_includes_or_excludes (v : lf_rule) (line_exclude line_include : list Z) (p : pos) : bool :=
  match v with
  | ExcludeShadowsInclude =>
      match line_exclude with
      | _ :: _ => negb (existsb (match_line p) line_exclude)
      | [] => match line_include with
              | _ :: _ => existsb (match_line p) line_include
              | [] => true
              end
      end
  | ExcludeThenInclude =>
      match line_exclude with
      | _ :: _ => if existsb (match_line p) line_exclude then false
                  else match line_include with _ :: _ => existsb (match_line p) line_include | [] => true end
      | [] => match line_include with _ :: _ => existsb (match_line p) line_include | [] => true end
      end
  end.

(** `filter_by_result(node) and filter_by_path_includes_or_excludes(pos)`; the result test is an input here. *)
Definition node_is_selected (v : lf_rule) (by_result : bool) (line_exclude line_include : list Z) (p : pos) : bool :=
  by_result && filter_by_path_includes_or_excludes v line_exclude line_include p.

(** `lineno_for_node` / `report_change`: the change entry carries the start line of the node position. *)
Definition lineno_for_node (p : pos) : Z := start_line p.
Definition report_change (p : pos) : Z := lineno_for_node p.

(** ** Which lines a pattern list denotes for a file: `_process_file` *)
Definition memZ (z : Z) (l : list Z) : bool := existsb (Z.eqb z) l.

(** `for line in extra: if line not in lines: lines.append(line)` *)
Fixpoint append_new (lines extra : list Z) : list Z :=
  match extra with
  | [] => lines
  | x :: r => if memZ x lines then append_new lines r else append_new (lines ++ [x]) r
  end.

(** [as_passed] = `str(filename)` (the target directory as given on the command line joined with the relative
    path); [relative] = `str(filename.relative_to(directory))` when `filename.is_relative_to(directory)`.
    [None] = the ValueError of `int(...)` on a matching pattern. *)
Definition process_file_lines (form : path_form) (as_passed : str) (relative : option str) (patterns : list str)
  : option (list Z) :=
  match form with
  | AsPassedAbsolute => file_line_patterns as_passed patterns
  | Both =>
      match file_line_patterns as_passed patterns with
      | None => None
      | Some lines =>
          match relative with
          | None => Some lines
          | Some rel => match file_line_patterns rel patterns with
                        | None => None
                        | Some extra => Some (append_new lines extra)
                        end
          end
      end
  end.

(** ** A transformer that sends every candidate node through the filter (what `node_is_selected` users do):
    the candidates it rewrites and the change lines it reports. *)
Definition rewritten (v : lf_rule) (line_exclude line_include : list Z) (candidates : list pos) : list pos :=
  List.filter (filter_by_path_includes_or_excludes v line_exclude line_include) candidates.
Definition reported (v : lf_rule) (line_exclude line_include : list Z) (candidates : list pos) : list Z :=
  map report_change (rewritten v line_exclude line_include candidates).
