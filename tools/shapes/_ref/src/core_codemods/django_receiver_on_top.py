from typing import Union

import libcst as cst

from codemodder.codemods.libcst_transformer import (
    LibcstResultTransformer,
    LibcstTransformerPipeline,
)
from codemodder.codemods.utils_mixin import NameResolutionMixin
from core_codemods.api import Metadata, Reference, ReviewGuidance
from core_codemods.api.core_codemod import CoreCodemod


class DjangoReceiverOnTopTransformer(LibcstResultTransformer, NameResolutionMixin):
    change_description = "Moved @receiver to the top."

    def leave_FunctionDef(
        self, original_node: cst.FunctionDef, updated_node: cst.FunctionDef
    ) -> Union[
        cst.BaseStatement, cst.FlattenSentinel[cst.BaseStatement], cst.RemovalSentinel
    ]:
        maybe_receiver_with_index = None
        for i, decorator in enumerate(original_node.decorators):
            if self.find_base_name(decorator.decorator) == "django.dispatch.receiver":
                maybe_receiver_with_index = (i, decorator)

        if maybe_receiver_with_index and self.node_is_selected(
            maybe_receiver_with_index[1]
        ):
            index, receiver = maybe_receiver_with_index
            if index > 0:
                new_decorators = [receiver]
                new_decorators.extend(
                    d for d in original_node.decorators if d != receiver
                )
                for decorator in new_decorators:
                    self.report_change(decorator)
                return updated_node.with_changes(decorators=new_decorators)
        return updated_node


DjangoReceiverOnTop = CoreCodemod(
    metadata=Metadata(
        name="django-receiver-on-top",
        summary="Ensure Django @receiver is the first decorator",
        review_guidance=ReviewGuidance.MERGE_WITHOUT_REVIEW,
        references=[
            Reference(url="https://docs.djangoproject.com/en/4.1/topics/signals/"),
        ],
    ),
    transformer=LibcstTransformerPipeline(DjangoReceiverOnTopTransformer),
    detector=None,
)
