(** C03 — the diff in the report is exactly the change made on disk.

    Full statement: for every file a run changes, the unified diff recorded for it, applied to the file's
    content before that codemod ran, reproduces the content found on disk afterwards (up to the presence
    of a final newline); the diffs of several codemods compose in execution order; a file without a
    changeset is byte-identical and every changeset names a file that changed.

    Proved here (Model/Diff.v = diff.py + difflib.unified_diff given the grouped opcodes; the matcher
    [SequenceMatcher.get_grouped_opcodes] is an oracle: the theorems hold for EVERY script):
      - C03_patch_roundtrip (+ _eq_nl, _text): the TEXT-level round trip through the reference applier
        (header printing/parsing with the stdlib decimal functions included), exact up to [norm_nl];
      - C03_header_decimal_roundtrip, C03_splitlines_join, C03_splitlines_lf_clean: supporting facts;
      - C03_empty_diff_iff_no_group / C03_empty_diff_iff_equal;
      - C03_refuted_exotic_breaks: outside [lf_clean] (finding class kf_exotic_linebreak) the round trip fails;
      - C03_linenums (+ _refuted_dashes): calc_line_num_changes;
      - C03_diffs_compose_steps / _scripts: composition of per-step round trips (Proofs/DiffCompose.v);
      - C03_libcst_step: table-indexed by what LibcstTransformerPipeline.apply diffs (Generated/Tables.v
        [diff_source]); FromTrees needs the oracle contract code(parse t) = t and is refuted without it
        (BOM; finding class kf_lossy_roundtrip).
    On the orchestration model (Model/Run.v, owned by the Run engineer; lemmas in Proofs/RunLift.v, Proofs/RunDiff.v):
      - C03_unchanged_files_identical (= RunLift.C03_unchanged, re-audited here): a completed run leaves every path
        without a change set with exactly its initial content;
      - C03_run_diffs_compose: in a real run with distinct codemod ids, the diffs reported for a path, in report
        order, fold from the initial content to the final content (up to norm_nl); conditional on explicit premises
        (see Proofs/RunDiff.v): the table value t_diff = diff_source = FromFileText (old side of the pipeline diff = file text; the
        statement's other branch is True and C03_run_tables_branch shows which one /repo takes), the matcher's two contracts, transformers introduce
        no exotic line boundary, and [HW]: the four manifest writers' (diff, content) pairs have the round trip -
        the writers are oracles of Run.v; HW is proved for the requirements.txt / setup.cfg writer models inside their guard and
        discharged in C03_run_diffs_compose_manifest at the end of this file; elsewhere it is a premise (false on /repo for kf_manifest_crlf and
        kf_pyproject_phantom_line); so for manifests the claim rests on the end-to-end observation;
      - C03_changeset_changes_file: a change set made by a pipeline that has the `if not diff` guard (libcst, XML)
        names a file whose content that step changed, and its diff applies to the content before the step.
        For the regex pipeline (no such guard: C03_regex_has_no_diff_guard) this is not proved.
    NOT proved anywhere (DESIGN §4.5-§4.7/§5 name them; they do not exist): C03_req_diff_faithful (requirements
    writer's diff under lf_manifest), C03_refuted_bom_cr as a Run.v theorem (its content is the FromTrees branch
    of C03_libcst_step), and a whole-run "net change" form of changeset => changed (a later codemod may revert). *)
From CM Require Import Model.Run Spec.RunSpec Proofs.RunSteps Proofs.RunLift.
From CM Require Import Spec.DiffSpec Proofs.DiffFacts Proofs.DiffSplit Proofs.DiffLinenums Proofs.DiffCompose Proofs.RunDiff
  Generated.Tables.
Local Open Scope N_scope.

(** ** The round trip, for every script *)
Theorem C03_patch_roundtrip : forall s : script,
  lf_clean (a_of s) = true -> lf_clean (b_of s) = true ->
  apply_udiff (difflines_to_str (udiff_lines s)) (concat (a_of s)) = Some (norm_nl (concat (b_of s))).
Proof. exact patch_roundtrip. Qed.
Print Assumptions C03_patch_roundtrip.

Theorem C03_patch_roundtrip_eq_nl : forall s : script,
  lf_clean (a_of s) = true -> lf_clean (b_of s) = true ->
  apply_udiff (difflines_to_str (udiff_lines s)) (concat (a_of s)) ≈nl Some (concat (b_of s)).
Proof.
  intros s Ha Hb. pose proof (patch_roundtrip s Ha Hb) as H. unfold create_diff in H. rewrite H.
  cbn. unfold eq_nl. apply norm_nl_idem.
Qed.
Print Assumptions C03_patch_roundtrip_eq_nl.

(** the same on texts: [ta], [tb] are split as diff.py does; any script between the two line lists *)
Theorem C03_patch_roundtrip_text : forall (ta tb : str) (s : script),
  has_exotic ta = false -> has_exotic tb = false ->
  a_of s = splitlines_keepends ta -> b_of s = splitlines_keepends tb ->
  apply_udiff (create_diff s) ta = Some (norm_nl tb).
Proof.
  intros ta tb s Ha Hb Ea Eb.
  rewrite <- (splitlines_concat ta), <- (splitlines_concat tb), <- Ea, <- Eb.
  apply patch_roundtrip; [rewrite Ea|rewrite Eb]; apply splitlines_lf_clean; assumption.
Qed.
Print Assumptions C03_patch_roundtrip_text.

Theorem C03_header_decimal_roundtrip : forall n : N, parse_dec (dec n) = Some n.
Proof. exact parse_dec_dec. Qed.
Print Assumptions C03_header_decimal_roundtrip.

Theorem C03_splitlines_join : forall t, concat (splitlines_keepends t) = t.
Proof. exact splitlines_concat. Qed.
Print Assumptions C03_splitlines_join.

Theorem C03_splitlines_lf_clean : forall t, has_exotic t = false -> lf_clean (splitlines_keepends t) = true.
Proof. exact splitlines_lf_clean. Qed.
Print Assumptions C03_splitlines_lf_clean.

(** ** Empty diff *)
Theorem C03_empty_diff_iff_no_group : forall s,
  (create_diff s = [] <-> hunks s = []) /\ (hunks s = [] -> a_of s = b_of s).
Proof. intros s. split; [apply create_diff_nil_iff|apply no_group_same_text]. Qed.
Print Assumptions C03_empty_diff_iff_no_group.

(** with the matcher oracle's two contracts (tested by the harness on every run):
    its script rebuilds the two inputs, and it yields no group for equal inputs *)
Theorem C03_empty_diff_iff_equal : forall matcher : list str -> list str -> script,
  (forall a b, a_of (matcher a b) = a /\ b_of (matcher a b) = b) ->
  (forall a, hunks (matcher a a) = []) ->
  forall a b, create_diff (matcher a b) = [] <-> a = b.
Proof.
  intros matcher Hv He a b. rewrite create_diff_nil_iff. split.
  - intros H. destruct (Hv a b) as [Ea Eb]. pose proof (no_group_same_text _ H) as E. congruence.
  - intros <-. apply He.
Qed.
Print Assumptions C03_empty_diff_iff_equal.

(** ** Outside lf_clean: exotic line boundaries (kf_exotic_linebreak) *)
Definition w_ff_a : str := [120; 12; 121; 10; 122; 10].        (* "x\fy\nz\n" *)
Definition w_ff_b : str := [120; 12; 121; 50; 10; 122; 10].    (* "x\fy2\nz\n" *)
Definition w_ff : script :=
  {| gap0 := []; hunks := [([SEq [[120; 12]]; SRep [[121; 10]] [[121; 50; 10]]; SEq [[122; 10]]], [])] |}.
Definition w_cr_a : str := [120; 13; 121; 10].                 (* "x\ry\n" *)
Definition w_cr_b : str := [120; 13; 122; 10].                 (* "x\rz\n" *)
Definition w_cr : script := {| gap0 := []; hunks := [([SEq [[120; 13]]; SRep [[121; 10]] [[122; 10]]], [])] |}.

Theorem C03_refuted_exotic_breaks :
  (a_of w_ff = splitlines_keepends w_ff_a /\ b_of w_ff = splitlines_keepends w_ff_b /\
   has_exotic w_ff_a = true /\ apply_udiff (create_diff w_ff) w_ff_a = None) /\
  (a_of w_cr = splitlines_keepends w_cr_a /\ b_of w_cr = splitlines_keepends w_cr_b /\
   has_exotic w_cr_a = true /\ apply_udiff (create_diff w_cr) w_cr_a = None).
Proof. vm_compute. repeat split; reflexivity. Qed.
Print Assumptions C03_refuted_exotic_breaks.

(** ** calc_line_num_changes *)
Theorem C03_linenums : forall s,
  pm_ok s = true ->
  exists L, calc_line_num_changes (udiff_lines s) = Some L /\ forall z, In z L <-> In z (changed_positions s).
Proof. exact linenums_exact. Qed.
Print Assumptions C03_linenums.

(** removing the line "-- x\n" (line 1 of a): the diff line "--- x\n" is taken for the file header *)
Definition w_dashes : script := {| gap0 := []; hunks := [([SRep [[45; 45; 32; 120; 10]] []; SEq [[121; 10]]], [])] |}.
Theorem C03_linenums_refuted_dashes :
  changed_positions w_dashes = [1%Z] /\ calc_line_num_changes (udiff_lines w_dashes) = Some [].
Proof. vm_compute. split; reflexivity. Qed.
Print Assumptions C03_linenums_refuted_dashes.

(** ** Composition (self-contained form; see Proofs/DiffCompose.v for the final-newline discussion) *)
Theorem C03_diffs_compose_steps : forall c steps,
  steps_ok c steps ->
  fold_apply (map fst steps) c = Some (match steps with [] => c | _ => norm_nl (final c steps) end).
Proof. exact diffs_compose. Qed.
Print Assumptions C03_diffs_compose_steps.

Theorem C03_diffs_compose_scripts : forall c ss,
  scripts_ok c ss ->
  fold_apply (map create_diff ss) c = Some (match ss with [] => c | _ => norm_nl (final_of c ss) end).
Proof. exact script_diffs_compose. Qed.
Print Assumptions C03_diffs_compose_scripts.

(** the applier neither sees nor preserves the termination of the last line: why composition is unconditional *)
Theorem C03_applier_final_newline : forall d x,
  apply_udiff d (norm_nl x) = apply_udiff d x /\ (forall r, apply_udiff d x = Some r -> norm_nl r = r).
Proof. intros d x. split; [apply apply_udiff_norm_nl|intros r; apply apply_udiff_normal]. Qed.
Print Assumptions C03_applier_final_newline.

(** ** One libcst pipeline step, indexed by what the source diffs *)
Definition step_faithful (v : diff_from) : Prop :=
  forall (file_text source_code new_code : str) (s : script),
    has_exotic file_text = false -> has_exotic source_code = false -> has_exotic new_code = false ->
    a_of s = splitlines_keepends (libcst_diff_old v file_text source_code) ->
    b_of s = splitlines_keepends new_code ->
    apply_udiff (create_diff s) file_text = Some (norm_nl new_code).
Definition w_bom_file : str := [65279; 97; 10; 98; 10].   (* "﻿a\nb\n" *)
Definition w_bom_src : str := [97; 10; 98; 10].           (* libcst re-renders it without the BOM *)
Definition w_bom_new : str := [97; 10; 99; 10].
Definition w_bom : script := {| gap0 := []; hunks := [([SEq [[97; 10]]; SRep [[98; 10]] [[99; 10]]], [])] |}.

Definition C03_libcst_step_statement (v : diff_from) : Prop :=
  match v with
  | FromFileText => step_faithful v
  | FromTrees =>
      (* faithful under the oracle contract code(parse t) = t ... *)
      (forall (file_text source_code new_code : str) (s : script),
         source_code = file_text ->
         has_exotic file_text = false -> has_exotic new_code = false ->
         a_of s = splitlines_keepends (libcst_diff_old v file_text source_code) ->
         b_of s = splitlines_keepends new_code ->
         apply_udiff (create_diff s) file_text = Some (norm_nl new_code))
      (* ... and refuted where libcst's re-rendering differs from the file (BOM): kf_lossy_roundtrip *)
      /\ (has_exotic w_bom_file = false /\ has_exotic w_bom_src = false /\ has_exotic w_bom_new = false /\
          a_of w_bom = splitlines_keepends (libcst_diff_old v w_bom_file w_bom_src) /\
          b_of w_bom = splitlines_keepends w_bom_new /\
          apply_udiff (create_diff w_bom) w_bom_file = None)
  end.
Lemma C03_libcst_step_all v : C03_libcst_step_statement v.
Proof.
  destruct v; cbn [C03_libcst_step_statement].
  - split.
    + intros ft sc nc s -> Hf Hn Ea Eb. cbn [libcst_diff_old] in Ea.
      apply C03_patch_roundtrip_text; assumption.
    + vm_compute. repeat split; reflexivity.
  - intros ft sc nc s Hf Hs Hn Ea Eb. cbn [libcst_diff_old] in Ea. apply C03_patch_roundtrip_text; assumption.
Qed.
Theorem C03_libcst_step : C03_libcst_step_statement diff_source.
Proof. exact (C03_libcst_step_all diff_source). Qed.
Print Assumptions C03_libcst_step.

(** ** On the orchestration model *)
Theorem C03_unchanged_files_identical : C03_unchanged_statement.
Proof. exact C03_unchanged. Qed.
Print Assumptions C03_unchanged_files_identical.

Definition diff_from_text (tb : run_tables) : bool := match t_diff tb with FromFileText => true | FromTrees => false end.
Lemma diff_from_text_eq tb : diff_from_text tb = true -> t_diff tb = FromFileText.
Proof. unfold diff_from_text. destruct (t_diff tb); [discriminate|reflexivity]. Qed.

Definition C03_run_diffs_compose_statement (tb : run_tables) : Prop :=
  if nochange_guarded tb && diff_from_text tb then
    forall (tree : Type) parse code T S R (matcher : list str -> list str -> script) W fsel (cfg : config) (p : path),
      (forall a b, a_of (matcher a b) = a /\ b_of (matcher a b) = b) ->
      (forall a, hunks (matcher a a) = []) ->
      dry_run cfg = false ->
      (forall K b t fi t' chs ds, parse (cpipe K) b = Some t -> T K t fi = Changed t' chs ds -> clean b ->
                                  clean (code (cpipe K) t')) ->
      (forall k b ds b' d chs, W k (Some b) ds = Some (b', d, chs) -> clean b ->
                               apply_udiff d b = Some (norm_nl b') /\ clean b') ->
      forall (Ks : list codemod) (fs : fsys) (stores : list store) (s' : state) (c : bytes),
        run tb tree parse code T S R (real_diff matcher) W fsel cfg Ks fs stores = Run.Ok s' ->
        NoDup (map cid Ks) -> lookup fs p = Some c -> clean c ->
        exists c', lookup (s_fs s') p = Some c' /\
                   fold_apply (reported p Ks s') c = Some (match reported p Ks s' with [] => c | _ => norm_nl c' end) /\
                   (reported p Ks s' = [] -> c' = c)
  else True.
Lemma C03_run_diffs_compose_all tb : C03_run_diffs_compose_statement tb.
Proof.
  unfold C03_run_diffs_compose_statement. destruct (nochange_guarded tb) eqn:G; [|exact I].
  destruct (diff_from_text tb) eqn:D; [|exact I]. cbn [andb]. apply diff_from_text_eq in D.
  intros tree parse code T S R matcher W fsel cfg p Hv He Hdry HT HW Ks fs stores s' c Hr Hnd Hl Hc.
  exact (run_diffs_compose tb tree parse code T S R (real_diff matcher) W fsel cfg p Hdry G D
           (real_diff_roundtrip matcher Hv) (real_diff_refl matcher He) HT HW Ks fs stores s' c Hr Hnd Hl Hc).
Qed.
Theorem C03_run_diffs_compose : C03_run_diffs_compose_statement run_tables_v.
Proof. exact (C03_run_diffs_compose_all run_tables_v). Qed.
Print Assumptions C03_run_diffs_compose.

Definition C03_changeset_changes_file_statement (tb : run_tables) : Prop :=
  if nochange_guarded tb && diff_from_text tb then
    forall (tree : Type) parse code T (matcher : list str -> list str -> script) (cfg : config) (p : path),
      (forall a b, a_of (matcher a b) = a /\ b_of (matcher a b) = b) ->
      (forall a, hunks (matcher a a) = []) ->
      dry_run cfg = false ->
      (forall K b t fi t' chs ds, parse (cpipe K) b = Some t -> T K t fi = Changed t' chs ds -> clean b ->
                                  clean (code (cpipe K) t')) ->
      forall K res (fs : fsys) cx cs b,
        has_guard IfNoDiff (guards_of tb (cpipe K)) = true ->
        lookup fs p = Some b -> clean b ->
        fst (process_file tb tree parse code T (real_diff matcher) cfg K res fs p) = FCtx cx -> In cs (fc_cs cx) ->
        exists b', lookup (snd (process_file tb tree parse code T (real_diff matcher) cfg K res fs p)) p = Some b' /\
                   b' <> b /\ cs_path cs = p /\ apply_udiff (cs_diff cs) b = Some (norm_nl b')
  else True.
Lemma C03_changeset_changes_file_all tb : C03_changeset_changes_file_statement tb.
Proof.
  unfold C03_changeset_changes_file_statement. destruct (nochange_guarded tb) eqn:G; [|exact I].
  destruct (diff_from_text tb) eqn:D; [|exact I]. cbn [andb]. apply diff_from_text_eq in D.
  intros tree parse code T matcher cfg p Hv He Hdry HT K res fs cx cs b Hg Hl Hc Hf Hin.
  exact (changeset_changes_file tb tree parse code T (real_diff matcher) cfg p Hdry G D
           (real_diff_roundtrip matcher Hv) (real_diff_refl matcher He) HT K res fs cx cs b Hg Hl Hc Hf Hin).
Qed.
Theorem C03_changeset_changes_file : C03_changeset_changes_file_statement run_tables_v.
Proof. exact (C03_changeset_changes_file_all run_tables_v). Qed.
Print Assumptions C03_changeset_changes_file.

(** the positive branches are the ones taken on the tables extracted from /repo, and which pipelines test the diff *)
Example C03_run_tables_branch :
  nochange_guarded run_tables_v = true /\ diff_from_text run_tables_v = true /\
  has_guard IfNoDiff (guards_of run_tables_v PLibcst) = true /\ has_guard IfNoDiff (guards_of run_tables_v PXml) = true.
Proof. vm_compute. repeat split. Qed.
Example C03_regex_has_no_diff_guard : has_guard IfNoDiff (guards_of run_tables_v PRegex) = false.
Proof. vm_compute. reflexivity. Qed.

(** a concrete instance meeting every premise of the two statements, on which a run reports one change set *)
Definition whole_matcher (a b : list str) : script :=
  if list_eqb str_eqb a b then {| gap0 := a; hunks := [] |} else {| gap0 := []; hunks := [([SRep a b], [])] |}.
Definition ex_T (K : codemod) (t : bytes) (fi : option (list finding)) : outcome bytes :=
  if str_eqb t [97; 10] then Changed [98; 10] [(1, [])] [] else NoChange.
Definition ex_K : codemod := {| cid := [107]; cpipe := PLibcst; cdet := DNone; cbase := FindAndFix; cavail := true |}.
Definition ex_cfg : config := {| dry_run := false; all_files := [[102]]; ff_paths := [[102]]; scan_all := [] |}.
Definition ex_run := run run_tables_v bytes (fun _ b => Some b) (fun _ t => t) ex_T (fun _ _ _ => []) (fun _ => [])
                         (real_diff whole_matcher) (fun _ _ _ => None) (fun _ _ => true) ex_cfg [ex_K] [([102], [97; 10])] [].
Example C03_run_example :
  (forall a b, a_of (whole_matcher a b) = a /\ b_of (whole_matcher a b) = b) /\
  (forall a, hunks (whole_matcher a a) = []) /\
  (forall K b t fi t' chs ds, Some b = Some t -> ex_T K t fi = Changed t' chs ds -> clean b -> clean t') /\
  exists s', ex_run = Run.Ok s' /\ lookup (s_fs s') [102] = Some [98; 10] /\
             fold_apply (reported [102] [ex_K] s') [97; 10] = Some [98; 10] /\ reported [102] [ex_K] s' <> [].
Proof.
  split; [|split; [|split]].
  - intros a b. unfold whole_matcher, a_of, b_of.
    destruct (list_eqb_spec str_eqb str_eqb_spec a b) as [->|_]; cbn; rewrite ?app_nil_r; split; reflexivity.
  - intros a. unfold whole_matcher. destruct (list_eqb_spec str_eqb str_eqb_spec a a) as [_|H]; [reflexivity|congruence].
  - intros K b t fi t' chs ds _ H _. unfold ex_T in H. destruct (str_eqb t [97; 10]); [|discriminate].
    inversion H; subst. reflexivity.
  - eexists. split; [vm_compute; reflexivity|]. vm_compute. repeat split; discriminate.
Qed.

(** ** Non-vacuity *)
Definition ex_script : script :=
  {| gap0 := [[97; 10]];
     hunks := [([SEq [[98; 13; 10]]; SRep [[99; 10]] [[120; 10]; [121; 10]]; SEq [[100; 10]]], [[101; 10]; [102; 10]]);
               ([SRep [] [[122]]], [])] |}.
Example C03_roundtrip_example :
  lf_clean (a_of ex_script) = true /\ lf_clean (b_of ex_script) = true /\ a_of ex_script <> b_of ex_script /\
  pm_ok ex_script = true /\
  apply_udiff (create_diff ex_script) (concat (a_of ex_script)) = Some (concat (b_of ex_script) ++ [10]).
Proof. vm_compute. repeat split; try reflexivity. discriminate. Qed.

Example C03_compose_example :
  scripts_ok (concat (a_of ex_script))
             [ex_script; {| gap0 := removelast (b_of ex_script); hunks := [([SRep [[122]] [[122; 10]; [119; 10]]], [])] |}].
Proof.
  vm_compute. repeat split.
Qed.

Example C03_matcher_example :
  let matcher := fun a b : list str =>
    if list_eqb str_eqb a b then {| gap0 := a; hunks := [] |} else {| gap0 := []; hunks := [([SRep a b], [])] |} in
  (forall a b, a_of (matcher a b) = a /\ b_of (matcher a b) = b) /\ (forall a, hunks (matcher a a) = []).
Proof.
  cbn zeta. split.
  - intros a b. unfold a_of, b_of.
    destruct (list_eqb_spec str_eqb str_eqb_spec a b) as [->|_]; cbn; rewrite ?app_nil_r; split; reflexivity.
  - intros a. destruct (list_eqb_spec str_eqb str_eqb_spec a a) as [_|H]; [reflexivity|congruence].
Qed.

(* ------------------------------------------------------------------------------------------------------------------ *)
(** ** [C03_run_diffs_compose] WITHOUT the premise [HW], for runs whose dependency manifests are written by the modelled
    requirements.txt / setup.cfg writers (added by the C14 engineer; Model/ManifestRun.v, Proofs/ManifestRunFacts.v,
    Properties/C14.v: C14_writer_diff_roundtrip).
    The writer oracle [W] is instantiated by [W_manifest matcher line_of defined_of lv]: the line surgery of
    Model/Manifest.v with the diff the real writers report (create_diff over difflib's opcodes of the lines read and the
    lines written).  It answers only inside a decidable guard - LF manifest (no "\r": kf_manifest_crlf), requirement
    strings without line boundary, setup.cfg with a newline-separated list whose rewritten lines are LF-clean (no inline
    list, no glued unterminated last line, no phantom line) - and [None] otherwise and for pyproject.toml / setup.py
    stores: for those (tomlkit / libcst oracles; kf_pyproject_phantom_line) HW stays an unproved premise and the claim
    rests on the end-to-end observation only.  What remains assumed here: the two difflib-matcher contracts and the
    transformer contract, exactly as in [C03_run_diffs_compose]. *)
From CM Require Import Base.Types_Manifest Model.ManifestRun Proofs.ManifestRunFacts.

Definition C03_run_diffs_compose_manifest_statement (tb : run_tables) : Prop :=
  if nochange_guarded tb && diff_from_text tb then
    forall (tree : Type) parse code T S R (matcher : list str -> list str -> script)
           (line_of : str -> str) (defined_of : str -> option str) (lv : cfg_last_line) fsel (cfg : config) (p : path),
      (forall a b, a_of (matcher a b) = a /\ b_of (matcher a b) = b) ->
      (forall a, hunks (matcher a a) = []) ->
      dry_run cfg = false ->
      (forall K b t fi t' chs ds, parse (cpipe K) b = Some t -> T K t fi = Changed t' chs ds -> clean b ->
                                  clean (code (cpipe K) t')) ->
      forall (Ks : list codemod) (fs : fsys) (stores : list store) (s' : state) (c : bytes),
        run tb tree parse code T S R (real_diff matcher) (W_manifest matcher line_of defined_of lv) fsel cfg Ks fs stores = Run.Ok s' ->
        NoDup (map cid Ks) -> lookup fs p = Some c -> clean c ->
        exists c', lookup (s_fs s') p = Some c' /\
                   fold_apply (reported p Ks s') c = Some (match reported p Ks s' with [] => c | _ => norm_nl c' end) /\
                   (reported p Ks s' = [] -> c' = c)
  else True.
Lemma C03_run_diffs_compose_manifest_all tb : C03_run_diffs_compose_manifest_statement tb.
Proof.
  pose proof (C03_run_diffs_compose_all tb) as H.
  unfold C03_run_diffs_compose_manifest_statement, C03_run_diffs_compose_statement in *.
  destruct (nochange_guarded tb && diff_from_text tb); [|exact I].
  intros tree parse code T S R matcher line_of defined_of lv fsel cfg p Hv He Hdry HT Ks fs stores s' c Hr Hnd Hl Hc.
  exact (H tree parse code T S R matcher (W_manifest matcher line_of defined_of lv) fsel cfg p Hv He Hdry HT
           (fun k b ds b' d chs HW Hb => W_manifest_roundtrip matcher line_of defined_of lv Hv k b ds b' d chs HW Hb)
           Ks fs stores s' c Hr Hnd Hl Hc).
Qed.
Theorem C03_run_diffs_compose_manifest : C03_run_diffs_compose_manifest_statement run_tables_v.
Proof. exact (C03_run_diffs_compose_manifest_all run_tables_v). Qed.
Print Assumptions C03_run_diffs_compose_manifest.
