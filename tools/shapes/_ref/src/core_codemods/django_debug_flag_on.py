import libcst as cst

from codemodder.codemods.utils import is_django_settings_file
from core_codemods.api import Metadata, Reference, ReviewGuidance, SimpleCodemod


class DjangoDebugFlagOn(SimpleCodemod):
    metadata = Metadata(
        name="django-debug-flag-on",
        summary="Disable Django Debug Mode",
        review_guidance=ReviewGuidance.MERGE_AFTER_CURSORY_REVIEW,
        references=[
            Reference(
                url="https://owasp.org/www-project-top-ten/2017/A3_2017-Sensitive_Data_Exposure"
            ),
            Reference(
                url="https://docs.djangoproject.com/en/4.2/ref/settings/#std-setting-DEBUG"
            ),
        ],
    )
    change_description = "Flip `Django` debug flag to off."
    detector_pattern = """
        rules:
          - id: django-debug-flag-on
            pattern: DEBUG = True
            paths:
              include:
               - settings.py
        """

    def visit_Module(self, _: cst.Module) -> bool:
        """
        Only visit module with this codemod if it's a settings.py file.
        """
        return is_django_settings_file(self.file_context.file_path)

    def on_result_found(self, _, updated_node):
        return updated_node.with_changes(value=cst.Name("False"))
