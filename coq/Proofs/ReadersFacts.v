From CM Require Import Model.Readers Spec.ReadersSpec.
Arguments jget : simpl never.

Lemma mapM_all {A B} (f : A -> option B) (g : A -> B) (P : A -> bool) l :
  (forall x, P x = true -> f x = Some (g x)) -> forallb P l = true -> mapM f l = Some (map g l).
Proof.
  intros H. induction l as [|x l IH]; simpl; intros Hall; [reflexivity|].
  apply andb_prop in Hall. destruct Hall as [Hx Hl]. rewrite (H x Hx), (IH Hl). reflexivity.
Qed.

Lemma j_or_arr (j : json) : (j = JNull \/ exists l, j = JArr l) -> j_or j (JArr []) = JArr (arr_or_empty j).
Proof. intros [->|[l ->]]; [reflexivity|]. destruct l; reflexivity. Qed.

Lemma wf_list_shape j : wf_list j = true -> (j = JNull \/ exists l, j = JArr l).
Proof. destruct j; simpl; try discriminate; eauto. Qed.

Lemma wf_list_forall j : wf_list j = true -> forallb wf_entry (arr_or_empty j) = true.
Proof. destruct j; simpl; try discriminate; auto. Qed.

Lemma sonar_entries_wf doc : wf_sonar doc = true ->
  sonar_entries IssuesPlusHotspots doc =
  Some (arr_or_empty (jget_or_null s_issues doc) ++ arr_or_empty (jget_or_null s_hotspots doc)).
Proof.
  unfold wf_sonar, sonar_entries. destruct doc; try discriminate. intros H.
  apply andb_prop in H. destruct H as [Hi Hh].
  rewrite (j_or_arr _ (wf_list_shape _ Hi)), (j_or_arr _ (wf_list_shape _ Hh)). reflexivity.
Qed.

Definition entry_spec (e : json) : list finding := if is_open e then sonar_finding_of e else [].

Lemma sonar_entry_wf e : wf_entry e = true -> sonar_entry e = Some (entry_spec e).
Proof.
  unfold wf_entry, sonar_entry, entry_spec, status_open, is_open.
  destruct e as [| | | | |l]; try discriminate.
  destruct (jget s_status (JObj l)) as [[| | |s| |]|] eqn:Es; try discriminate.
  intros H. apply andb_prop in H. destruct H as [Hr Ht].
  destruct (str_eqb (lower_ascii s) s_open || str_eqb (lower_ascii s) s_to_review); [|reflexivity].
  unfold sonar_from_result, sonar_finding_of, jget_or_null.
  (* the rule *)
  assert (Hrule : exists r, j_or (match jget s_rule (JObj l) with Some v => v | None => JNull end)
                                 (match jget s_ruleKey (JObj l) with Some v => v | None => JNull end) = JStr r
                            /\ r <> [] /\ rule_has_colon r = true
                            /\ sonar_rule (JObj l) = r).
  { unfold sonar_rule. destruct (jget s_rule (JObj l)) as [[| | |[|c r]| |]|]; try discriminate.
    - destruct (jget s_ruleKey (JObj l)) as [[| | |[|c r]| |]|]; try discriminate.
      exists (c :: r). repeat split; auto; discriminate.
    - destruct (jget s_ruleKey (JObj l)) as [[| | |[|c r]| |]|]; try discriminate.
      exists (c :: r). repeat split; auto; discriminate.
    - exists (c :: r). repeat split; auto; discriminate.
    - destruct (jget s_ruleKey (JObj l)) as [[| | |[|c r]| |]|]; try discriminate.
      exists (c :: r). repeat split; auto; discriminate. }
  destruct Hrule as [r [Hor [Hne [Hcol Hsr]]]].
  rewrite Hor, Hsr. destruct r as [|c r]; [congruence|]. cbn [jtruthy negb jstr].
  rewrite Hcol. cbn [negb].
  destruct (jget s_textRange (JObj l)) as [[| | | | |tl]|]; try discriminate; try reflexivity.
  destruct tl as [|[k v] t]; [reflexivity|].
  destruct (jget s_component (JObj l)) as [[| | |comp| |]|]; try discriminate.
  reflexivity.
Qed.

Theorem sonar_reader_spec doc : wf_sonar doc = true -> sonar_reader IssuesPlusHotspots doc = sonar_spec doc.
Proof.
  intros H. unfold sonar_reader, sonar_spec. rewrite (sonar_entries_wf _ H).
  assert (Hall : forallb wf_entry (arr_or_empty (jget_or_null s_issues doc) ++ arr_or_empty (jget_or_null s_hotspots doc)) = true).
  { unfold wf_sonar in H. destruct doc; try discriminate. apply andb_prop in H. destruct H as [Hi Hh].
    rewrite forallb_app, (wf_list_forall _ Hi), (wf_list_forall _ Hh). reflexivity. }
  rewrite (mapM_all sonar_entry entry_spec wf_entry _ sonar_entry_wf Hall).
  rewrite flat_map_concat_map. reflexivity.
Qed.

(** The pinned expression ignores hotspots whenever issues is non-empty. *)
Definition w_issue (key : N) : json :=
  JObj [(s_rule, JStr [112;58;83;49]%N); (s_status, JStr [79;80;69;78]%N); (s_key, JStr [key]);
        (s_component, JStr [112;58;97]%N);
        (s_textRange, JObj [(s_startLine, JNum 1); (s_endLine, JNum 1); (s_startOffset, JNum 0); (s_endOffset, JNum 2)])].
Definition w_doc : json := JObj [(s_issues, JArr [w_issue 65]); (s_hotspots, JArr [w_issue 66])].

Lemma sonar_pinned_refuted : wf_sonar w_doc = true /\ sonar_reader IssuesOrElse w_doc <> sonar_spec w_doc.
Proof. split; [vm_compute; reflexivity | vm_compute; discriminate]. Qed.

Lemma sonar_spec_example : length (sonar_spec w_doc) = 2.
Proof. vm_compute. reflexivity. Qed.
