# Readers (C12): which expression selects the entries of a Sonar document; shape of the DefectDojo reader.
TABLE_IMPORTS.append("From CM Require Import Base.Types_Readers.")
shape("sonar_reader", "src/core_codemods/sonar/results.py", ["C12", "C06"],
      "sonar_select_expr", "sonar_select", "IssuesPlusHotspots",
      ["sonar_url_from_id", "SonarLocation.from_json_location", "SonarResult.from_result", "SonarResultSet.from_json"],
      doc="SonarResultSet.from_json / SonarResult.from_result / SonarLocation.from_json_location")
shape("dd_reader", "src/core_codemods/defectdojo/results.py", ["C12", "C06"],
      "dd_reader_shape", "dd_shape", "DDAsPinned",
      ["DefectDojoLocation.from_result", "DefectDojoResult.from_result", "DefectDojoResultSet.from_json"],
      doc="DefectDojoResultSet.from_json / DefectDojoResult.from_result")

shape("sarif_detect", "src/codemodder/sarifs.py", ["C12", "C20"],
      "sarif_detect_shape", "sarif_detect_form", "PerRunTry",
      ["detect_sarif_tools"],
      doc="detect_sarif_tools: per file, per detector, per run; KeyError/AttributeError/ValueError skip the run; duplicate tool raises")
shape("sarif_detector_semgrep", "src/codemodder/semgrep.py", ["C12"],
      "sarif_detector_semgrep_shape", "sarif_detector_form", "NameContainsSemgrepLower",
      ["SemgrepSarifToolDetector.detect", "SemgrepLocation.from_sarif", "SemgrepResult.from_sarif", "SemgrepResultSet.from_sarif"],
      doc="SemgrepSarifToolDetector.detect ('semgrep' in driver name, lower-cased) and the Semgrep SARIF reader")
shape("sarif_detector_codeql", "src/codemodder/codeql.py", ["C12"],
      "sarif_detector_codeql_shape", "sarif_detector_form", "NameContainsCodeQL",
      ["CodeQLSarifToolDetector.detect", "CodeQLLocation.from_sarif", "CodeQLResult.from_sarif", "CodeQLResultSet.from_sarif"],
      doc="CodeQLSarifToolDetector.detect ('CodeQL' in driver name) and the CodeQL SARIF reader (only CodeQL runs are read)")
