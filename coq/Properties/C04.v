(** C04 — --dry-run never touches the project and predicts the real run.
    Full statement: with --dry-run no file under the target is created, modified or deleted (sources and manifests
    alike), for every project, codemod list, pipeline kind and option set; for a single codemod the report equals the
    one of a real run on a copy, timing erased.
    Model: Model/Run.v (orchestration), statements indexed by the guard tables extracted from the three pipelines'
    [apply] and the four manifest writers (Generated/Tables.v: run_tables_v).
    - [C04_dry_run_fs]: positive branch (every write sits under `if not dry_run`): the final file system IS the
      initial one, whether the run completes or aborts; negative branch: a concrete run that writes.
    - [C04_dry_report]: report(dry) = report(real) for ONE codemod, for every table value, under the decidable guard
      [manifests_untouched] (no manifest that receives the dependency is also rewritten as a source by the codemod).
    - [C04_dry_report_refuted_manifest]: without that guard the two reports differ (setup.py that is both rewritten
      and given the dependency: the dry run diffs the manifest against the ORIGINAL text) — finding class
      kf_dry_manifest_also_rewritten.
    Not in the model: mtime/atime, temporary files outside the target, write errors of the OS. *)
From CM Require Import Base.Dict Model.Run Spec.RunSpec Proofs.RunFacts Proofs.RunSteps Proofs.C04Facts Generated.Tables.

Definition C04_dry_run_fs_statement (tb : run_tables) : Prop :=
  if dry_guarded tb then
    forall (tree : Type) parse code T S R diff W fsel (cfg : config) (Ks : list codemod) (fs : fsys) (stores : list store),
      dry_run cfg = true ->
      final_fs (run tb tree parse code T S R diff W fsel cfg Ks fs stores) = fs /\
      forall p, lookup (final_fs (run tb tree parse code T S R diff W fsel cfg Ks fs stores)) p = lookup fs p
  else
    exists (tree : Type) parse code T S R diff W fsel (cfg : config) (Ks : list codemod) (fs : fsys) (stores : list store) (p : path),
      dry_run cfg = true /\
      lookup (final_fs (run tb tree parse code T S R diff W fsel cfg Ks fs stores)) p <> lookup fs p.
Lemma C04_dry_run_fs_all tb : C04_dry_run_fs_statement tb.
Proof.
  unfold C04_dry_run_fs_statement. destruct (dry_guarded tb) eqn:E.
  - intros. rewrite dry_run_fs_pos by assumption. auto.
  - unfold dry_guarded in E. apply andb_false_iff in E. destruct E as [E|E].
    + destruct (pipes_unguarded_ex tb E) as [k Hk].
      exists bytes, toy_parse, toy_code, toy_T, toy_S, toy_R, toy_diff, toy_W, toy_fsel, (toy_cfg true [[112%N]]),
        [toy_codemod 1 k DNone], [([112%N],[1%N])], [], [112%N].
      split; [reflexivity|]. fold (toy_run tb (toy_cfg true [[112%N]])). rewrite (toy_pipe_witness tb k Hk). discriminate.
    + destruct (writers_unguarded_ex tb E) as [k Hk].
      exists bytes, toy_parse, toy_code, toy_T, toy_S, toy_R, toy_diff, toy_W, toy_fsel, (toy_cfg true [[112%N]]),
        [toy_codemod 1 PLibcst DNone], [([112%N],[3%N]); ([109%N],[9%N])],
        [{| st_kind := k; st_path := [109%N]; st_deps := [] |}], [109%N].
      split; [reflexivity|]. fold (toy_run tb (toy_cfg true [[112%N]])). rewrite (toy_writer_witness tb k Hk). discriminate.
Qed.
Theorem C04_dry_run_fs : C04_dry_run_fs_statement run_tables_v.
Proof. exact (C04_dry_run_fs_all run_tables_v). Qed.
Print Assumptions C04_dry_run_fs.

(** single codemod: the dry report is the real report (every table value) *)
Theorem C04_dry_report :
  forall (tb : run_tables) (tree : Type) parse code T S R diff W fsel (cfg : config) (K : codemod) (fs : fsys) (stores : list store),
    NoDup (ff_paths cfg) -> NoDup (all_files cfg) ->
    manifests_untouched tb tree parse code T S R diff fsel cfg K fs stores = true ->
    report [K] (run tb tree parse code T S R diff W fsel (with_dry true cfg) [K] fs stores) =
    report [K] (run tb tree parse code T S R diff W fsel (with_dry false cfg) [K] fs stores).
Proof. exact dry_report_pos. Qed.
Print Assumptions C04_dry_report.

(** the guard is needed: a manifest that the codemod also rewrites *)
Definition w_manifest_fs : fsys := [([109%N], [3%N])].
Definition w_manifest_store : store := {| st_kind := SSetupPy; st_path := [109%N]; st_deps := [] |}.
Definition w_manifest_K : codemod := toy_codemod 1 PLibcst DNone.
Definition C04_dry_report_refuted_statement (tb : run_tables) : Prop :=
  if dry_guarded tb then
    manifests_untouched tb bytes toy_parse toy_code toy_T toy_S toy_R toy_diff toy_fsel (toy_cfg false [[109%N]])
        w_manifest_K w_manifest_fs [w_manifest_store] = false /\
    report [w_manifest_K] (toy_run tb (with_dry true (toy_cfg false [[109%N]])) [w_manifest_K] w_manifest_fs [w_manifest_store]) <>
    report [w_manifest_K] (toy_run tb (with_dry false (toy_cfg false [[109%N]])) [w_manifest_K] w_manifest_fs [w_manifest_store])
  else True.
Lemma C04_dry_report_refuted_all tb : C04_dry_report_refuted_statement tb.
Proof.
  unfold C04_dry_report_refuted_statement. destruct (dry_guarded tb) eqn:E; [|exact I].
  unfold dry_guarded in E. apply andb_true_iff in E. destruct E as [Ep Ew].
  pose proof (pipes_dry_guarded_k tb PLibcst Ep) as Hp. pose proof (writers_dry_guarded_k tb SSetupPy Ew) as Hw.
  unfold toy_run, run, manifests_untouched, phase1_outs, w_manifest_K, toy_codemod, toy_cfg, with_dry.
  destruct (t_diff tb) eqn:Ed; cbn -[has_guard writer_guarded t_diff] in *; unfold diff_base; rewrite Hp, ?Ed; cbn -[has_guard writer_guarded];
  (split;
   [ repeat match goal with |- context [has_guard ?g ?l] => destruct (has_guard g l) end; reflexivity
   | repeat match goal with |- context [has_guard ?g ?l] => destruct (has_guard g l) end;
       cbn -[writer_guarded]; rewrite ?Hw; cbn; discriminate ]).
Qed.
Theorem C04_dry_report_refuted_manifest : C04_dry_report_refuted_statement run_tables_v.
Proof. exact (C04_dry_report_refuted_all run_tables_v). Qed.
Print Assumptions C04_dry_report_refuted_manifest.

(** OS write errors are outside the whole-run theorems (they are about [try_stores], the instance of [try_stores_os] in which
    every write succeeds: [C04_no_write_error_instance]).  With a write error in a writer that swallows it (requirements.txt,
    setup.cfg: `open(path, "w")` truncates, the write raises, `except Exception: return None`) the dry run still promises the
    manifest change set while the real run returns none AND leaves the manifest empty: [C04_write_failure_refuted]
    (reproduced on the real classes with an injected ENOSPC; finding class kf_manifest_truncated_on_write_error). *)
Theorem C04_no_write_error_instance : forall tb W cfg catches ds stores fs,
  try_stores_os tb W cfg catches (fun _ => true) ds fs stores = try_stores tb W cfg ds fs stores.
Proof. exact try_stores_os_ok. Qed.
Print Assumptions C04_no_write_error_instance.
Definition catches_of (t : list (skind * bool)) (k : skind) : bool :=
  match find (fun kb => skind_eqb k (fst kb)) t with Some kb => snd kb | None => false end.
Definition C04_write_failure_statement (tb : run_tables) (t : list (skind * bool)) : Prop :=
  forall k, catches_of t k = true -> writer_guarded tb k = true ->
    let fs := [([109%N], [9%N])] in
    snd (try_stores_os tb toy_W (toy_cfg true []) (catches_of t) (fun _ => false) [toy_dep] fs [w_fail_store k]) <> None /\
    snd (fst (try_stores_os tb toy_W (toy_cfg true []) (catches_of t) (fun _ => false) [toy_dep] fs [w_fail_store k])) = fs /\
    snd (try_stores_os tb toy_W (toy_cfg false []) (catches_of t) (fun _ => false) [toy_dep] fs [w_fail_store k]) = None /\
    lookup (snd (fst (try_stores_os tb toy_W (toy_cfg false []) (catches_of t) (fun _ => false) [toy_dep] fs [w_fail_store k]))) [109%N] = Some [].
Theorem C04_write_failure_refuted : C04_write_failure_statement run_tables_v writer_catch_table.
Proof.
  intros k Hc Hg fs. destruct (write_failure_witness run_tables_v k (catches_of writer_catch_table) Hc Hg) as [H1 [H2 H3]].
  fold fs in H1, H2, H3. rewrite H1. repeat split; auto. discriminate.
Qed.
Print Assumptions C04_write_failure_refuted.
(** the statement is not vacuous on the current source: requirements.txt and setup.cfg writers swallow the error *)
Example C04_write_failure_kinds : catches_of writer_catch_table SReqTxt = true /\ catches_of writer_catch_table SSetupCfg = true.
Proof. split; reflexivity. Qed.

(** Non-vacuity: the current tables are dry-guarded; a project with a manifest that is NOT rewritten meets the
    hypotheses of [C04_dry_report] and the dry run reports a source change set plus a manifest change set. *)
Example C04_example_guard_and_report :
  manifests_untouched tables_pinned bytes toy_parse toy_code toy_T toy_S toy_R toy_diff toy_fsel (toy_cfg false [[112%N]])
      w_manifest_K [([112%N], [3%N]); ([109%N], [9%N])] [w_manifest_store] = true /\
  option_map (map (fun r => length (r_changeset r)))
    (report [w_manifest_K] (toy_run tables_pinned (toy_cfg true [[112%N]]) [w_manifest_K]
                              [([112%N], [3%N]); ([109%N], [9%N])] [w_manifest_store])) = Some [2].
Proof. vm_compute. split; reflexivity. Qed.
