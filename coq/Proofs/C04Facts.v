(** C04: --dry-run leaves the file system untouched; the report of a single-codemod dry run equals the real one. *)
From CM Require Import Base.Dict Model.Run Spec.RunSpec Proofs.DictFacts Proofs.RunFacts Proofs.RunSteps.

(** everything of the state that the report reads (and the stores): all but the file system *)
Definition nofs (s : state) := (s_cs s, s_fail s, s_deps s, s_unf s, s_upd s, s_stores s).
Definition same_nofs (a b : run_result) : Prop :=
  match a, b with
  | Ok x, Ok y => nofs x = nofs y
  | Aborted x, Aborted y => nofs x = nofs y
  | _, _ => False
  end.

Lemma presults_nofs id outs : forall s1 s2, nofs s1 = nofs s2 ->
  same_nofs (process_results id outs s1) (process_results id outs s2).
Proof.
  induction outs as [|[|c] r IH]; intros s1 s2 H; simpl; auto.
  apply IH. unfold nofs, merge_ctx in *. simpl. inversion H. reflexivity.
Qed.

Lemma In_changed_paths outs cx cs : In (FCtx cx) outs -> In cs (fc_cs cx) -> In (cs_path cs) (changed_paths outs).
Proof.
  intros H1 H2. unfold changed_paths. apply in_flat_map. exists (FCtx cx). split; [exact H1|]. now apply in_map.
Qed.

Section C04.
  Variable tb : run_tables.
  Variable tree : Type.
  Variable parse : pipe_kind -> bytes -> option tree.
  Variable code : pipe_kind -> tree -> bytes.
  Variable T : codemod -> tree -> option (list finding) -> outcome tree.
  Variable S : codemod -> path -> bytes -> list finding.
  Variable R : codemod -> list (path * list finding).
  Variable diff : bytes -> bytes -> str.
  Variable W : skind -> option bytes -> list dep -> option (bytes * str * list change).
  Variable fsel : codemod -> path -> bool.

  Local Notation mfiles := (map_files tb tree parse code T diff).
  Local Notation acodemod := (apply_codemod tb tree parse code T S R diff fsel).
  Local Notation tstores := (try_stores tb W).
  Local Notation pdeps := (process_dependencies tb W).
  Local Notation acodemods := (apply_codemods tb tree parse code T S R diff W fsel).
  Local Notation mrun := (run tb tree parse code T S R diff W fsel).

  (** ---- the file system ---- *)
  Lemma dry_run_fs_pos cfg Ks fs stores :
    dry_guarded tb = true -> dry_run cfg = true -> final_fs (mrun cfg Ks fs stores) = fs.
  Proof.
    intros Hg Hd. unfold run. destruct (all_files cfg); [reflexivity|].
    now rewrite (acodemods_dry tb tree parse code T S R diff W fsel cfg _ Ks _ _ Hg Hd eq_refl).
  Qed.

  (** ---- the report of a single codemod ---- *)
  (** the per-file phase of the (single) codemod [K] on [fs]: the FileContexts that executor.map yields *)
  Definition phase1_outs (cfg : config) (K : codemod) (fs : fsys) : list fres :=
    let res := detect S R cfg K (prefilter_of S cfg [K] fs) fs in
    fst (mfiles cfg K res fs (files_to_analyze fsel cfg K res)).
  (** decidable guard: no manifest is also rewritten as a source file by the codemod in this run *)
  Definition manifests_untouched (cfg : config) (K : codemod) (fs : fsys) (stores : list store) : bool :=
    forallb (fun st => negb (mem_str (st_path st) (changed_paths (phase1_outs cfg K fs)))) stores.

  Lemma mfiles_outs_cfg cfg cfg' K res files fs : NoDup files ->
    fst (mfiles cfg K res fs files) = fst (mfiles cfg' K res fs files).
  Proof.
    intros Hnd. rewrite !mfiles_outs by exact Hnd. apply map_ext. intros p.
    apply (fstep_fst_cfg tb tree parse code T diff).
  Qed.

  Lemma files_nodup cfg K res : NoDup (ff_paths cfg) -> NoDup (all_files cfg) -> NoDup (files_to_analyze fsel cfg K res).
  Proof.
    intros H1 H2. unfold files_to_analyze. destruct (cbase K); [now apply NoDup_filter|].
    destruct res; [now apply NoDup_filter | constructor].
  Qed.

  Lemma tstores_ext cfg cfg' ds : forall stores fs fs',
    (forall st, In st stores -> lookup fs (st_path st) = lookup fs' (st_path st)) ->
    fst (fst (tstores cfg ds fs stores)) = fst (fst (tstores cfg' ds fs' stores)) /\
    snd (tstores cfg ds fs stores) = snd (tstores cfg' ds fs' stores).
  Proof.
    induction stores as [|st rest IH]; intros fs fs' H; simpl; [auto|].
    assert (Ea : attempt W ds fs st = attempt W ds fs' st).
    { unfold attempt. rewrite (H st) by now left. reflexivity. }
    rewrite Ea. destruct (attempt W ds fs' st) as [[[b' d] chs]|]; simpl; [auto|].
    destruct (IH fs fs') as [H1 H2]; [intros; apply H; now right|]. rewrite H1, H2. auto.
  Qed.

  Lemma pdeps_nofs cfg cfg' id s s' :
    nofs s = nofs s' ->
    (forall st, In st (s_stores s) -> lookup (s_fs s) (st_path st) = lookup (s_fs s') (st_path st)) ->
    nofs (pdeps cfg id s) = nofs (pdeps cfg' id s').
  Proof.
    intros Hn Hl. unfold nofs in Hn. inversion Hn as [[H1 H2 H3 H4 H5 H6]].
    unfold process_dependencies. rewrite <- H3, <- H6.
    destruct (dgetl id (s_deps s)) as [|d0 ds0]; [exact Hn|].
    destruct (s_stores s) eqn:Es; [unfold nofs; simpl; now rewrite H1, H2, H3, H4, H5|]. rewrite <- Es in *.
    destruct (tstores_ext cfg cfg' (d0 :: ds0) (s_stores s) (s_fs s) (s_fs s') Hl) as [E1 E2].
    rewrite <- E2. destruct (snd (tstores cfg (d0 :: ds0) (s_fs s) (s_stores s))); unfold nofs; simpl;
      now rewrite E1, H1, H2, H3, H4, H5.
  Qed.

  Lemma compile_nofs Ks s s' : nofs s = nofs s' -> compile_results Ks s = compile_results Ks s'.
  Proof. intros H. unfold nofs in H. inversion H as [[H1 H2 H3 H4 H5 H6]]. unfold compile_results. now rewrite H1, H2, H3, H4, H5. Qed.

  Lemma dry_report_pos cfg K fs stores :
    NoDup (ff_paths cfg) -> NoDup (all_files cfg) ->
    manifests_untouched cfg K fs stores = true ->
    report [K] (mrun (with_dry true cfg) [K] fs stores) = report [K] (mrun (with_dry false cfg) [K] fs stores).
  Proof.
    intros Hn1 Hn2 Hm. unfold run. change (all_files (with_dry true cfg)) with (all_files cfg).
    change (all_files (with_dry false cfg)) with (all_files cfg).
    destruct (all_files cfg) as [|f0 fl] eqn:Eall; [reflexivity|]. rewrite <- Eall in *.
    change (prefilter_of S (with_dry true cfg) [K] fs) with (prefilter_of S cfg [K] fs).
    change (prefilter_of S (with_dry false cfg) [K] fs) with (prefilter_of S cfg [K] fs).
    set (pre := prefilter_of S cfg [K] fs). cbn [apply_codemods].
    set (s0 := init_state fs stores).
    (* one codemod application in both modes *)
    assert (HA : (acodemod (with_dry true cfg) pre K s0 = Ok s0 /\ acodemod (with_dry false cfg) pre K s0 = Ok s0) \/
                 exists outs fsd fsr,
                   acodemod (with_dry true cfg) pre K s0 = process_results (cid K) outs (with_fs s0 fsd) /\
                   acodemod (with_dry false cfg) pre K s0 = process_results (cid K) outs (with_fs s0 fsr) /\
                   (forall q, ~ In q (changed_paths outs) -> lookup fsd q = lookup fs q /\ lookup fsr q = lookup fs q) /\
                   outs = phase1_outs cfg K fs).
    { unfold apply_codemod.
      change (detect S R (with_dry true cfg) K pre (s_fs s0)) with (detect S R cfg K pre fs).
      change (detect S R (with_dry false cfg) K pre (s_fs s0)) with (detect S R cfg K pre fs).
      change (files_to_analyze fsel (with_dry true cfg) K) with (files_to_analyze fsel cfg K).
      change (files_to_analyze fsel (with_dry false cfg) K) with (files_to_analyze fsel cfg K).
      destruct (negb (cavail K)); [now left|]. destruct (_ && _ && _); [now left|].
      set (res := detect S R cfg K pre fs).
      assert (Hgen : forall files, files = files_to_analyze fsel cfg K res -> files <> [] ->
                exists outs fsd fsr,
                  process_results (cid K) (fst (mfiles (with_dry true cfg) K res (s_fs s0) files))
                    {| s_fs := snd (mfiles (with_dry true cfg) K res (s_fs s0) files); s_cs := s_cs s0; s_fail := s_fail s0;
                       s_deps := s_deps s0; s_unf := s_unf s0; s_upd := s_upd s0; s_stores := s_stores s0 |} =
                  process_results (cid K) outs (with_fs s0 fsd) /\
                  process_results (cid K) (fst (mfiles (with_dry false cfg) K res (s_fs s0) files))
                    {| s_fs := snd (mfiles (with_dry false cfg) K res (s_fs s0) files); s_cs := s_cs s0; s_fail := s_fail s0;
                       s_deps := s_deps s0; s_unf := s_unf s0; s_upd := s_upd s0; s_stores := s_stores s0 |} =
                  process_results (cid K) outs (with_fs s0 fsr) /\
                  (forall q, ~ In q (changed_paths outs) -> lookup fsd q = lookup fs q /\ lookup fsr q = lookup fs q) /\
                  outs = phase1_outs cfg K fs).
      { intros files Ef Hne.
        assert (Hnd : NoDup files) by (subst files; now apply files_nodup).
        exists (fst (mfiles cfg K res fs files)), (snd (mfiles (with_dry true cfg) K res fs files)),
               (snd (mfiles (with_dry false cfg) K res fs files)).
        change (s_fs s0) with fs.
        rewrite (mfiles_outs_cfg (with_dry true cfg) cfg) by exact Hnd.
        rewrite (mfiles_outs_cfg (with_dry false cfg) cfg) by exact Hnd.
        split; [reflexivity|]. split; [reflexivity|]. split.
        - intros q Hq. split.
          + destruct (mfiles_changed tb tree parse code T diff (with_dry true cfg) K res files fs q) as [He|[cx [cs [H1 [H2 H3]]]]];
              [exact He|]. exfalso. apply Hq. rewrite (mfiles_outs_cfg (with_dry true cfg) cfg) in H1 by exact Hnd.
            rewrite <- H3. eapply In_changed_paths; eauto.
          + destruct (mfiles_changed tb tree parse code T diff (with_dry false cfg) K res files fs q) as [He|[cx [cs [H1 [H2 H3]]]]];
              [exact He|]. exfalso. apply Hq. rewrite (mfiles_outs_cfg (with_dry false cfg) cfg) in H1 by exact Hnd.
            rewrite <- H3. eapply In_changed_paths; eauto.
        - unfold phase1_outs. fold pre. fold res. now rewrite <- Ef. }
      destruct res as [[|x r]|] eqn:Er; [now left| |];
        (destruct (files_to_analyze fsel cfg K _) as [|f fl'] eqn:Ef; [now left|]); right;
        (apply Hgen; [reflexivity | discriminate]). }
    destruct HA as [[E1 E2]|[outs [fsd [fsr [E1 [E2 [Hfr Eouts]]]]]]]; rewrite E1, E2.
    - (* nothing applied: both states are the initial one *)
      cbn [apply_codemods report]. apply f_equal. apply compile_nofs. apply pdeps_nofs; [reflexivity|reflexivity].
    - pose proof (presults_nofs (cid K) outs (with_fs s0 fsd) (with_fs s0 fsr) eq_refl) as Hs.
      destruct (process_results (cid K) outs (with_fs s0 fsd)) as [sd|sd] eqn:Ed;
        destruct (process_results (cid K) outs (with_fs s0 fsr)) as [sr|sr] eqn:Er; simpl in Hs; try contradiction;
        [|reflexivity].
      cbn [apply_codemods report]. apply f_equal. apply compile_nofs. apply pdeps_nofs; [exact Hs|].
      intros st Hin.
      pose proof (presults_fs _ _ _ _ (or_introl Ed)) as [Fd [Sd _]].
      pose proof (presults_fs _ _ _ _ (or_introl Er)) as [Fr _].
      rewrite Fd, Fr. simpl. rewrite Sd in Hin. simpl in Hin.
      unfold manifests_untouched in Hm. rewrite forallb_forall in Hm. specialize (Hm st Hin).
      rewrite <- Eouts in Hm. apply negb_true_iff in Hm.
      assert (Hq : ~ In (st_path st) (changed_paths outs)).
      { intros Hc. apply mem_str_In in Hc. congruence. }
      destruct (Hfr _ Hq) as [A B]. now rewrite A, B.
  Qed.
End C04.

(** ---- witnesses for the negative branches (any table value lacking a dry-run guard) ---- *)
Lemma toy_pipe_witness tb k : has_guard IfNotDryWrite (guards_of tb k) = false ->
  lookup (final_fs (toy_run tb (toy_cfg true [[112%N]]) [toy_codemod 1 k DNone] [([112%N],[1%N])] [])) [112%N] = Some [2%N].
Proof.
  intros H. unfold toy_run, run, toy_cfg, toy_codemod.
  destruct (t_diff tb) eqn:Ed; destruct k; cbn -[has_guard t_diff] in *; unfold diff_base; rewrite H, ?Ed; cbn -[has_guard];
  repeat match goal with |- context [has_guard ?g ?l] => destruct (has_guard g l) end; reflexivity.
Qed.
Lemma toy_writer_witness tb k : writer_guarded tb k = false ->
  lookup (final_fs (toy_run tb (toy_cfg true [[112%N]]) [toy_codemod 1 PLibcst DNone] [([112%N],[3%N]); ([109%N],[9%N])]
     [{| st_kind := k; st_path := [109%N]; st_deps := [] |}])) [109%N] = Some [9%N; 100%N].
Proof.
  intros H. unfold toy_run, run, toy_cfg, toy_codemod.
  destruct (t_diff tb) eqn:Ed; cbn -[has_guard writer_guarded t_diff]; unfold diff_base; rewrite ?Ed; cbn -[has_guard writer_guarded];
  repeat match goal with |- context [has_guard ?g ?l] => destruct (has_guard g l) end;
  cbn -[writer_guarded]; rewrite H; reflexivity.
Qed.
Lemma pipes_unguarded_ex tb : pipes_dry_guarded tb = false -> exists k, has_guard IfNotDryWrite (guards_of tb k) = false.
Proof.
  unfold pipes_dry_guarded, all_pipes. simpl.
  destruct (has_guard IfNotDryWrite (t_libcst tb)) eqn:E1; [|exists PLibcst; exact E1].
  destruct (has_guard IfNotDryWrite (t_regex tb)) eqn:E2; [|exists PRegex; exact E2].
  destruct (has_guard IfNotDryWrite (t_xml tb)) eqn:E3; [|exists PXml; exact E3]. discriminate.
Qed.
Lemma writers_unguarded_ex tb : writers_dry_guarded tb = false -> exists k, writer_guarded tb k = false.
Proof.
  unfold writers_dry_guarded, all_skinds. simpl.
  destruct (writer_guarded tb SReqTxt) eqn:E1; [|exists SReqTxt; exact E1].
  destruct (writer_guarded tb SToml) eqn:E2; [|exists SToml; exact E2].
  destruct (writer_guarded tb SSetupPy) eqn:E3; [|exists SSetupPy; exact E3].
  destruct (writer_guarded tb SSetupCfg) eqn:E4; [|exists SSetupCfg; exact E4]. discriminate.
Qed.

(** ---- OS write errors (the variant [try_stores_os]) ---- *)
Lemma try_stores_os_ok tb W cfg catches ds : forall stores fs,
  try_stores_os tb W cfg catches (fun _ => true) ds fs stores = try_stores tb W cfg ds fs stores.
Proof.
  induction stores as [|st rest IH]; intros fs; simpl; [reflexivity|].
  destruct (attempt W ds fs st) as [[[b' d] chs]|]; [|now rewrite IH].
  destruct (writer_guarded tb (st_kind st) && dry_run cfg); reflexivity.
Qed.

(** a failing write of a catching writer: the manifest ends up empty, no change set, although the dry run promises one *)
Definition w_fail_store (k : skind) : store := {| st_kind := k; st_path := [109%N]; st_deps := [] |}.
Lemma write_failure_witness tb k (catches : skind -> bool) : catches k = true -> writer_guarded tb k = true ->
  let fs := [([109%N], [9%N])] in
  (* dry run: change set, file intact *)
  try_stores_os tb toy_W (toy_cfg true []) catches (fun _ => false) [toy_dep] fs [w_fail_store k] =
    ([store_added (w_fail_store k) [toy_dep]], fs, Some {| cs_path := [109%N]; cs_diff := [9%N; 0%N; 9%N; 100%N]; cs_changes := [(1%N, [])] |}) /\
  (* real run with the write error: no change set, manifest truncated *)
  snd (try_stores_os tb toy_W (toy_cfg false []) catches (fun _ => false) [toy_dep] fs [w_fail_store k]) = None /\
  lookup (snd (fst (try_stores_os tb toy_W (toy_cfg false []) catches (fun _ => false) [toy_dep] fs [w_fail_store k]))) [109%N] = Some [].
Proof.
  intros Hc Hg fs. unfold fs, w_fail_store. cbn -[writer_guarded]. rewrite Hg, Hc. cbn. repeat split; reflexivity.
Qed.
