(** Mini-Python expression AST for the rewrite kernels (C01, C02, C07, C08).

    The tree is the *libcst* tree: [EBool]/[ENot]/[ECmp]/[EGen] carry the flag "this node is written inside its own
    parentheses" (libcst's lpar/rpar).  [pp] prints exactly those parentheses; [norm] is the tree CPython's parser
    builds from the printed text (precedence climbing over or / and / not / comparison), all flags set.
    The evaluator (PySem.v) ignores the flags, so the meaning of a printed tree [t] is [eval (norm t)].
    Definitions only. *)
From CM Require Export Base.Str Base.Types_Kernels.
From Coq Require Import String Ascii.

Definition lit (x : string) : str := map N_of_ascii (list_ascii_of_string x).

Inductive ty := TObject | TInt | TBool | TStr | TTuple | TList | TSet | TFloat | TType | TNoneT | TUser (c : N).
Inductive const := CBool (b : bool) | CInt (z : Z) | CStr (s : str) | CNone | CNaN.
Inductive meth := Startswith | Endswith.
Inductive builtin := BIsinstance | BIssubclass | BHasattr | BCallable | BAny | BAll | BSum | BMin | BMax | BSet | BLen | BBool.
Inductive bop := BOr | BAnd.

Inductive expr :=
| EName (x : N)                                   (* v<x> *)
| EConst (c : const)                              (* True False None 12 (-3) "s" NAN  (NAN is bound by the sandbox prelude) *)
| EType (t : ty)                                  (* int str ... : a Name for libcst *)
| ETuple (es : list expr)
| EList (es : list expr)
| ESet (es : list expr)
| EMeth (recv : N) (m : meth) (args : list expr)  (* v<recv>.startswith(args) *)
| ECall (f : builtin) (args : list expr)
| EBool (par : bool) (op : bop) (l r : expr)
| ENot (par : bool) (a : expr)
| ECmp (par : bool) (l : expr) (rest : list (cmpop * expr))
| EListComp (elt : expr) (x : N) (it : expr)      (* [elt for v<x> in it] *)
| EGen (par : bool) (elt : expr) (x : N) (it : expr)
| EFloorDiv (l r : expr)                          (* (l // r), always parenthesised *)
| EJuxt (n : N) (a : expr).                       (* the text of [a] 2+n times, no separator: what the pinned default branch of
                                                     _invert_comparisons prints in the comparator slot after 1+n inversions;
                                                     never well-formed *)

Definition cmpop_eqb (a b : cmpop) : bool :=
  match a, b with
  | Eq, Eq | NotEq, NotEq | Lt, Lt | LtE, LtE | Gt, Gt | GtE, GtE | Is, Is | IsNot, IsNot | In, In | NotIn, NotIn => true
  | _, _ => false
  end.
Definition bop_eqb (a b : bop) : bool := match a, b with BOr, BOr | BAnd, BAnd => true | _, _ => false end.
Definition meth_eqb (a b : meth) : bool := match a, b with Startswith, Startswith | Endswith, Endswith => true | _, _ => false end.
Definition builtin_eqb (a b : builtin) : bool :=
  match a, b with
  | BIsinstance, BIsinstance | BIssubclass, BIssubclass | BHasattr, BHasattr | BCallable, BCallable | BAny, BAny | BAll, BAll
  | BSum, BSum | BMin, BMin | BMax, BMax | BSet, BSet | BLen, BLen | BBool, BBool => true
  | _, _ => false
  end.
Definition ty_eqb (a b : ty) : bool :=
  match a, b with
  | TObject, TObject | TInt, TInt | TBool, TBool | TStr, TStr | TTuple, TTuple | TList, TList | TSet, TSet | TFloat, TFloat
  | TType, TType | TNoneT, TNoneT => true
  | TUser c, TUser d => N.eqb c d
  | _, _ => false
  end.

(** * Printer *)
Fixpoint uint_str (u : Decimal.uint) : str :=
  match u with
  | Decimal.Nil => []
  | Decimal.D0 r => 48%N :: uint_str r | Decimal.D1 r => 49%N :: uint_str r | Decimal.D2 r => 50%N :: uint_str r
  | Decimal.D3 r => 51%N :: uint_str r | Decimal.D4 r => 52%N :: uint_str r | Decimal.D5 r => 53%N :: uint_str r
  | Decimal.D6 r => 54%N :: uint_str r | Decimal.D7 r => 55%N :: uint_str r | Decimal.D8 r => 56%N :: uint_str r
  | Decimal.D9 r => 57%N :: uint_str r
  end.
Definition dec (n : N) : str := uint_str (N.to_uint n).
Definition pp_name (x : N) : str := 118%N :: dec x.                      (* v12 *)
Definition pp_int (z : Z) : str :=
  match z with
  | Z0 => [48%N]
  | Zpos p => dec (Npos p)
  | Zneg p => lit "(-" ++ dec (Npos p) ++ lit ")"
  end.
Definition pp_ty (t : ty) : str :=
  match t with
  | TObject => lit "object" | TInt => lit "int" | TBool => lit "bool" | TStr => lit "str" | TTuple => lit "tuple"
  | TList => lit "list" | TSet => lit "set" | TFloat => lit "float" | TType => lit "type" | TNoneT => lit "type(None)"
  | TUser c => 67%N :: dec c                                            (* C3 : class defined by the sandbox prelude *)
  end.
Definition pp_const (c : const) : str :=
  match c with
  | CBool true => lit "True" | CBool false => lit "False" | CNone => lit "None" | CNaN => lit "NAN"
  | CInt z => pp_int z
  | CStr s => 34%N :: s ++ [34%N]
  end.
Definition pp_cmpop (c : cmpop) : str :=
  match c with
  | Eq => lit "==" | NotEq => lit "!=" | Lt => lit "<" | LtE => lit "<=" | Gt => lit ">" | GtE => lit ">="
  | Is => lit "is" | IsNot => lit "is not" | In => lit "in" | NotIn => lit "not in"
  end.
Definition pp_meth (m : meth) : str := match m with Startswith => lit "startswith" | Endswith => lit "endswith" end.
Definition pp_builtin (f : builtin) : str :=
  match f with
  | BIsinstance => lit "isinstance" | BIssubclass => lit "issubclass" | BHasattr => lit "hasattr" | BCallable => lit "callable"
  | BAny => lit "any" | BAll => lit "all" | BSum => lit "sum" | BMin => lit "min" | BMax => lit "max" | BSet => lit "set"
  | BLen => lit "len" | BBool => lit "bool"
  end.
Definition pp_bop (o : bop) : str := match o with BOr => lit " or " | BAnd => lit " and " end.
Definition paren (p : bool) (s : str) : str := if p then 40%N :: s ++ [41%N] else s.

Fixpoint pp (e : expr) : str :=
  let pps := fix pps (es : list expr) : str :=
    match es with
    | [] => []
    | a :: t => match t with [] => pp a | _ :: _ => pp a ++ lit ", " ++ pps t end
    end in
  match e with
  | EName x => pp_name x
  | EConst c => pp_const c
  | EType t => pp_ty t
  | ETuple es => match es with
                 | [] => lit "()"
                 | a :: t => match t with [] => 40%N :: pp a ++ lit ",)" | _ :: _ => 40%N :: pps es ++ [41%N] end
                 end
  | EList es => 91%N :: pps es ++ [93%N]
  | ESet es => 123%N :: pps es ++ [125%N]
  | EMeth r m args => pp_name r ++ 46%N :: pp_meth m ++ 40%N :: pps args ++ [41%N]
  | ECall f args => pp_builtin f ++ 40%N :: pps args ++ [41%N]
  | EBool p o l r => paren p (pp l ++ pp_bop o ++ pp r)
  | ENot p a => paren p (lit "not " ++ pp a)
  | ECmp p l rest => paren p (pp l ++ (fix go (rs : list (cmpop * expr)) : str :=
                                         match rs with
                                         | [] => []
                                         | (c, b) :: t => 32%N :: pp_cmpop c ++ 32%N :: pp b ++ go t
                                         end) rest)
  | EListComp elt x it => 91%N :: pp elt ++ lit " for " ++ pp_name x ++ lit " in " ++ pp it ++ [93%N]
  | EGen p elt x it => paren p (pp elt ++ lit " for " ++ pp_name x ++ lit " in " ++ pp it)
  | EFloorDiv l r => 40%N :: pp l ++ lit " // " ++ pp r ++ [41%N]
  | EJuxt n a => let s := pp a in N.iter n (fun acc => acc ++ s) (s ++ s)
  end.

(** the content of 2+n adjacent copies of the literal "s" *)
Definition juxt_text (n : N) (s : str) : str := N.iter n (fun acc => acc ++ s) (s ++ s).

(** * The tree CPython parses from [pp e] *)
Inductive tok := TAtom (e : expr) | TOp (o : bop) | TNot | TCmp (c : cmpop) | TDiv.

Fixpoint split_on (o : bop) (ts cur : list tok) : list (list tok) :=
  match ts with
  | [] => [rev cur]
  | TOp o' :: r => if bop_eqb o o' then rev cur :: split_on o r [] else split_on o r (TOp o' :: cur)
  | t :: r => split_on o r (t :: cur)
  end.
(** operand of a comparison: atom (// atom)*, left associative *)
Fixpoint parse_arith (acc : expr) (ts : list tok) : expr :=
  match ts with
  | TDiv :: TAtom b :: r => parse_arith (EFloorDiv acc b) r
  | _ => acc                 (* anything else is not produced by well-formed trees *)
  end.
Definition parse_operand (ts : list tok) : expr :=
  match ts with
  | TAtom a :: r => parse_arith a r
  | _ => EConst CNone        (* not produced by well-formed trees *)
  end.
Fixpoint split_cmp (ts cur : list tok) : list tok * list (cmpop * list tok) :=
  match ts with
  | [] => (rev cur, [])
  | TCmp c :: r => let fr := split_cmp r [] in (rev cur, (c, fst fr) :: snd fr)
  | t :: r => split_cmp r (t :: cur)
  end.
Definition parse_cmp (ts : list tok) : expr :=
  let fr := split_cmp ts [] in
  match snd fr with
  | [] => parse_operand (fst fr)
  | tg => ECmp true (parse_operand (fst fr)) (map (fun cr => (fst cr, parse_operand (snd cr))) tg)
  end.
Fixpoint parse_inv (ts : list tok) : expr :=
  match ts with
  | TNot :: r => ENot true (parse_inv r)
  | _ => parse_cmp ts
  end.
Definition fold_bop (o : bop) (es : list expr) : expr :=
  match es with [] => EConst CNone | a :: r => fold_left (EBool true o) r a end.
Definition parse_conj (ts : list tok) : expr := fold_bop BAnd (map parse_inv (split_on BAnd ts [])).
Definition parse_disj (ts : list tok) : expr := fold_bop BOr (map parse_conj (split_on BOr ts [])).

Fixpoint toks (e : expr) : list tok :=
  let norms := fix norms (es : list expr) : list expr :=
    match es with [] => [] | a :: t => parse_disj (toks a) :: norms t end in
  let wrap := fun (p : bool) (ts : list tok) => if p then [TAtom (parse_disj ts)] else ts in
  match e with
  | EName _ | EConst _ | EType _ => [TAtom e]
  | ETuple es => [TAtom (ETuple (norms es))]
  | EList es => [TAtom (EList (norms es))]
  | ESet es => [TAtom (ESet (norms es))]
  | EMeth r m args => [TAtom (EMeth r m (norms args))]
  | ECall f args => [TAtom (ECall f (norms args))]
  | EBool p o l r => wrap p (toks l ++ TOp o :: toks r)
  | ENot p a => wrap p (TNot :: toks a)
  | ECmp p l rest => wrap p (toks l ++ (fix go (rs : list (cmpop * expr)) : list tok :=
                                          match rs with [] => [] | (c, b) :: t => TCmp c :: toks b ++ go t end) rest)
  | EListComp elt x it => [TAtom (EListComp (parse_disj (toks elt)) x (parse_disj (toks it)))]
  | EGen _ elt x it => [TAtom (EGen true (parse_disj (toks elt)) x (parse_disj (toks it)))]
  | EFloorDiv l r => [TAtom (parse_disj (toks l ++ TDiv :: toks r))]
  | EJuxt n a => match a with
                 | EConst (CStr s) => [TAtom (EConst (CStr (juxt_text n s)))]   (* adjacent string literals are one literal *)
                 | _ => [TAtom (EJuxt n (parse_disj (toks a)))]
                 end
  end.
Definition norm (e : expr) : expr := parse_disj (toks e).

(** all flags set: the canonical fully parenthesised tree *)
Fixpoint allpar (e : expr) : expr :=
  match e with
  | EName _ | EConst _ | EType _ => e
  | ETuple es => ETuple (map allpar es)
  | EList es => EList (map allpar es)
  | ESet es => ESet (map allpar es)
  | EMeth r m args => EMeth r m (map allpar args)
  | ECall f args => ECall f (map allpar args)
  | EBool _ o l r => EBool true o (allpar l) (allpar r)
  | ENot _ a => ENot true (allpar a)
  | ECmp _ l rest => ECmp true (allpar l) (map (fun cb => (fst cb, allpar (snd cb))) rest)
  | EListComp elt x it => EListComp (allpar elt) x (allpar it)
  | EGen _ elt x it => EGen true (allpar elt) x (allpar it)
  | EFloorDiv l r => EFloorDiv (allpar l) (allpar r)
  | EJuxt n a => EJuxt n (allpar a)
  end.

(** [closed e]: [e] prints as one atom (no operator of its own is exposed to the context) *)
Definition closed (e : expr) : bool :=
  match e with
  | EBool p _ _ _ | ENot p _ | ECmp p _ _ => p
  | _ => true
  end.

(** [paren_safe e]: every operator node is either inside its own parentheses or sits in a delimited position (call
    argument, display element, comprehension part, the whole expression) with closed operands.  On such trees the
    printed text parses back to the same tree ([Proofs/MiniPyFacts.norm_paren_safe]). *)
Fixpoint paren_safe_at (top : bool) (e : expr) : bool :=
  let all := fix all (es : list expr) : bool := match es with [] => true | a :: t => paren_safe_at true a && all t end in
  match e with
  | EName _ | EConst _ | EType _ => true
  | ETuple es | EList es | ESet es => all es
  | EMeth _ _ args | ECall _ args => all args
  | EBool p _ l r => (p || top) && closed l && closed r && paren_safe_at false l && paren_safe_at false r
  | ENot p a => (p || top) && closed a && paren_safe_at false a
  | ECmp p l rest => (p || top) && closed l && paren_safe_at false l && match rest with [] => false | _ :: _ => true end &&
                     (fix go (rs : list (cmpop * expr)) : bool :=
                        match rs with [] => true | (_, b) :: t => closed b && paren_safe_at false b && go t end) rest
  | EListComp elt _ it | EGen _ elt _ it => paren_safe_at true elt && paren_safe_at true it
  | EFloorDiv l r => closed l && closed r && paren_safe_at false l && paren_safe_at false r
  | EJuxt _ _ => false          (* implicit concatenation: the printed text does not parse back to this tree *)
  end.
Definition paren_safe (e : expr) : bool := paren_safe_at true e.

(** every flag set (what the generators print) *)
Fixpoint is_allpar (e : expr) : bool :=
  let all := fix all (es : list expr) : bool := match es with [] => true | a :: t => is_allpar a && all t end in
  match e with
  | EName _ | EConst _ | EType _ => true
  | ETuple es | EList es | ESet es => all es
  | EMeth _ _ args | ECall _ args => all args
  | EBool p _ l r => p && is_allpar l && is_allpar r
  | ENot p a => p && is_allpar a
  | ECmp p l rest => p && is_allpar l &&
                     (fix go (rs : list (cmpop * expr)) : bool :=
                        match rs with [] => true | (_, b) :: t => is_allpar b && go t end) rest
  | EListComp elt _ it => is_allpar elt && is_allpar it
  | EGen p elt _ it => p && is_allpar elt && is_allpar it
  | EFloorDiv l r => is_allpar l && is_allpar r
  | EJuxt _ a => is_allpar a
  end.

(** * Well-formedness: [pp e] is Python source *)
Definition safe_char (c : N) : bool := (32 <=? c)%N && (c <=? 126)%N && negb (c =? 34)%N && negb (c =? 92)%N.
Definition nameable (t : ty) : bool := match t with TNoneT | TUser _ => false | _ => true end.
(** the printed text starts with the keyword `not` (illegal right after a comparison operator) *)
Fixpoint starts_with_not (e : expr) : bool :=
  match e with
  | ENot p _ => negb p
  | EBool p _ l _ => negb p && starts_with_not l
  | ECmp p l _ => negb p && starts_with_not l
  | _ => false
  end.
Definition is_gen (e : expr) : bool := match e with EGen _ _ _ _ => true | _ => false end.
Definition gen_par (e : expr) : bool := match e with EGen p _ _ _ => p | _ => true end.

Fixpoint wf (e : expr) : bool :=
  let all := fix all (es : list expr) : bool := match es with [] => true | a :: t => wf a && gen_par a && all t end in
  (* call arguments: an unparenthesised generator only as the sole argument *)
  let args_ok := fun (args : list expr) =>
    match args with
    | [a] => wf a
    | _ => all args
    end in
  match e with
  | EName _ => true
  | EConst (CStr s) => forallb safe_char s
  | EConst _ => true
  | EType t => nameable t
  | ETuple es | EList es => all es
  | ESet es => match es with [] => false | _ => all es end
  | EMeth _ _ args | ECall _ args => args_ok args
  | EBool _ _ l r => wf l && gen_par l && wf r && gen_par r
  | ENot _ a => wf a && gen_par a
  | ECmp _ l rest => wf l && gen_par l && match rest with [] => false | _ => true end &&
                     (fix go (rs : list (cmpop * expr)) : bool :=
                        match rs with [] => true | (_, b) :: t => wf b && gen_par b && negb (starts_with_not b) && go t end) rest
  | EListComp elt _ it | EGen _ elt _ it => wf elt && gen_par elt && wf it && gen_par it
  | EFloorDiv l r => wf l && gen_par l && wf r && gen_par r && negb (starts_with_not r)
  | EJuxt _ (EConst (CStr s)) => forallb safe_char s && match s with [] => false | _ => true end
                                   (* "s""s": implicit string concatenation; `""""` would open a triple-quoted string *)
  | EJuxt _ _ => false
  end.

(** * Names: the identifiers a scope analysis of [pp e] reports as loads (free names and builtins), as printed *)
Fixpoint remove_str (s : str) (l : list str) : list str :=
  match l with [] => [] | a :: t => if str_eqb s a then remove_str s t else a :: remove_str s t end.
Fixpoint names (e : expr) : list str :=
  let nms := fix nms (es : list expr) : list str := match es with [] => [] | a :: t => names a ++ nms t end in
  match e with
  | EName x => [pp_name x]
  | EConst CNaN => [lit "NAN"]
  | EConst _ => []
  | EType t => [pp_ty t]
  | ETuple es | EList es | ESet es => nms es
  | EMeth r _ args => pp_name r :: nms args
  | ECall f args => pp_builtin f :: nms args
  | EBool _ _ l r => names l ++ names r
  | ENot _ a => names a
  | ECmp _ l rest => names l ++ (fix go (rs : list (cmpop * expr)) : list str :=
                                   match rs with [] => [] | (_, b) :: t => names b ++ go t end) rest
  | EListComp elt x it | EGen _ elt x it => names it ++ remove_str (pp_name x) (names elt)
  | EFloorDiv l r => names l ++ names r
  | EJuxt n a => match a with
               | EName x => [pp (EJuxt n a)]                (* `yy`: a name that was never in the program *)
               | _ => names a
               end
  end.
Definition builtin_names : list str :=
  map pp_builtin [BIsinstance; BIssubclass; BHasattr; BCallable; BAny; BAll; BSum; BMin; BMax; BSet; BLen; BBool].

Fixpoint size (e : expr) : nat :=
  let sz := fix sz (es : list expr) : nat := match es with [] => O | a :: t => size a + sz t end in
  S match e with
    | EName _ | EConst _ | EType _ => O
    | ETuple es | EList es | ESet es => sz es
    | EMeth _ _ args | ECall _ args => sz args
    | EBool _ _ l r => size l + size r
    | ENot _ a => size a
    | ECmp _ l rest => size l + (fix go (rs : list (cmpop * expr)) : nat :=
                                   match rs with [] => O | (_, b) :: t => size b + go t end) rest
    | EListComp elt _ it | EGen _ elt _ it => size elt + size it
    | EFloorDiv l r => size l + size r
    | EJuxt _ a => size a
    end.
