(** Table values extracted from diff.py and the transformer pipelines (tools/fragments_diff.py). *)
From CM Require Export Base.Str.

(** diff.py: the five functions have the modelled shape (Model/Diff.v). *)
Inductive diff_py_form := DiffPyAsWritten.

(** libcst_transformer.LibcstTransformerPipeline.apply + update_code: what the reported diff is computed from.
    Both variants write [tree.code] encoded as UTF-8 when not dry-run. *)
Inductive diff_from :=
| FromTrees       (* create_diff_from_tree(source_tree, tree): old side = libcst's re-rendering of the parsed file *)
| FromFileText.   (* old side = the decoded text of the file itself *)

(** regex_transformer / xml_transformer [apply]: create_diff(original_lines, new_lines) where original_lines is
    the decoded file text split with splitlines(keepends=True), and "".join(new_lines) is what is written. *)
Inductive lines_pipeline_form := DiffOfLinesWritesJoined.
