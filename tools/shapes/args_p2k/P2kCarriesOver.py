def positional_to_keyword(args, pos_to_keyword):
    new_args = []
    seen_star = False
    for i, arg in enumerate(args):
        if arg.star:
            seen_star = True
        if (
            not seen_star
            and arg.keyword is None
            and i < len(pos_to_keyword)
            and pos_to_keyword[i] is not None
        ):
            new_args.append(arg.with_changes(keyword=cst.Name(pos_to_keyword[i])))
        else:
            new_args.append(arg)
    return new_args
