(** C17 — exactly the requested codemods run, once each, in the requested order.

    Full-strength statement.  For every registry [reg] (an ordered dict: ids pairwise different, no line feed in an id),
    every include list, exclude list and eligibility mode, the sequence returned by
    [CodemodRegistry.match_codemods] (model: [match_codemods_model], whose source-dependent choices are the table values
    [include_matcher], [include_dedup], [exclude_matcher], [default_excluded_codemods] of Generated/Tables.v) is THE sequence
    allowed by [SelectSpec] (Spec/SelectSpec.v):
      include list non-empty: per item, in the order given, the registry-ordered codemods it selects (exact id, or glob
        match of the whole id when the item contains `*`), concatenated, first occurrence of each codemod kept;
        items selecting nothing contribute nothing; eligibility and the exclude list play no role;
      include list empty: the registry, in order, restricted to codemods that are eligible
        ([bool(sast_only) != (origin == "pixee")]) and not selected by an item of the exclusion list in force
        (the list given, DEFAULT_EXCLUDED_CODEMODS when none is given).
    [SelectSpec] is functional ([C17_spec_deterministic]), so "is allowed by" means "equals the reference selection":
    no extra codemod, none missing, no repeat, order fixed.

    What is proved: exactly that, for the repaired table values (FullGlob, dedup = true, FullGlob, non-empty defaults);
    for the pinned values the statements turn into the refutations [a,a*] (duplicate) and [*set-lit] (prefix match).
    Interpretation recorded here: "excluded by default" applies when no exclude list is given (an explicit
    --codemod-exclude REPLACES the default list: [codemod_exclude or DEFAULT_EXCLUDED_CODEMODS]).
    Not modelled: the regex engine itself ([re.escape]/[fullmatch] are taken to implement literal/`.*` matching, checked by
    the correspondence run); argparse (CsvListAction, the mutually exclusive group) is an oracle tested by the harness. *)
From CM Require Import Model.Select Spec.SelectSpec Proofs.SelectFacts Generated.Tables.

Definition mkv (im : matcher_kind) (dd : bool) (em : matcher_kind) : select_variant :=
  {| v_include_matcher := im; v_include_dedup := dd; v_exclude_matcher := em |}.

(** witnesses *)
Definition s_a : str := [97]%N.                         (* "a" *)
Definition s_a_star : str := [97; 42]%N.                (* "a*" *)
Definition s_usl : str := [117;115;101;45;115;101;116;45;108;105;116;101;114;97;108]%N.   (* "use-set-literal" *)
Definition s_star_set_lit : str := [42;115;101;116;45;108;105;116]%N.                    (* "*set-lit" *)
Definition s_star_set : str := [42;45;115;101;116]%N.                                    (* "*-set" *)
Definition reg_a : list codemod := [(s_a, pixee)].
Definition reg_usl : list codemod := [(s_usl, pixee)].

Lemma wf_reg_a : wf_reg reg_a.
Proof. split; [repeat constructor; simpl; tauto|]. repeat constructor. simpl. intros [H|[]]; discriminate. Qed.
Lemma wf_reg_usl : wf_reg reg_usl.
Proof.
  split; [repeat constructor; simpl; tauto|]. repeat constructor. unfold cid, s_usl. simpl.
  intros H. repeat (destruct H as [H|H]; [discriminate|]). exact H.
Qed.

(** ** --codemod-include *)
Definition C17_include_statement (im : matcher_kind) (dd : bool) : Prop :=
  match im, dd with
  | FullGlob, true =>
      forall em defaults reg incl excl sast, wf_reg reg -> incl <> [] ->
        IncludeSpec reg incl (match_codemods_model (mkv im dd em) defaults reg incl excl sast)
  | _, _ =>
      exists reg incl, wf_reg reg /\ incl <> [] /\
        forall em defaults excl sast, ~ IncludeSpec reg incl (match_codemods_model (mkv im dd em) defaults reg incl excl sast)
  end.

Lemma not_IncludeSpec reg n incl out : out <> select_ref [] reg (n :: incl) [] false -> ~ IncludeSpec reg (n :: incl) out.
Proof.
  intros Hne H. apply Hne. apply (proj1 (SelectSpec_is_ref [] reg (n :: incl) [] false out)). exact H.
Qed.

Lemma C17_include_all im dd : C17_include_statement im dd.
Proof.
  destruct im, dd; simpl.
  - (* PrefixRegex, dedup: "*set-lit" selects use-set-literal *)
    exists reg_usl, [s_star_set_lit]. split; [exact wf_reg_usl|]. split; [discriminate|].
    intros em defaults excl sast. apply not_IncludeSpec.
    unfold match_codemods_model. destruct (match excl with [] => defaults | _ :: _ => excl end); vm_compute; discriminate.
  - exists reg_usl, [s_star_set_lit]. split; [exact wf_reg_usl|]. split; [discriminate|].
    intros em defaults excl sast. apply not_IncludeSpec.
    unfold match_codemods_model. destruct (match excl with [] => defaults | _ :: _ => excl end); vm_compute; discriminate.
  - intros em defaults reg [|n incl] excl sast Hwf Hne; [congruence|].
    rewrite model_include_ref by (auto; reflexivity).
    exact (select_ref_sound defaults reg (n :: incl) excl sast).
  - (* FullGlob, no dedup: "a,a*" runs a twice *)
    exists reg_a, [s_a; s_a_star]. split; [exact wf_reg_a|]. split; [discriminate|].
    intros em defaults excl sast. apply not_IncludeSpec.
    unfold match_codemods_model. destruct (match excl with [] => defaults | _ :: _ => excl end); vm_compute; discriminate.
Qed.

Theorem C17_include_exact : C17_include_statement include_matcher include_dedup.
Proof. exact (C17_include_all include_matcher include_dedup). Qed.
Print Assumptions C17_include_exact.

(** ** each codemod at most once *)
Definition C17_nodup_statement (dd : bool) : Prop :=
  match dd with
  | true => forall im em defaults reg incl excl sast, NoDup (ids reg) ->
      NoDup (ids (match_codemods_model (mkv im dd em) defaults reg incl excl sast))
  | false => exists reg incl, wf_reg reg /\
      forall im em defaults excl sast, ~ NoDup (ids (match_codemods_model (mkv im dd em) defaults reg incl excl sast))
  end.

Lemma C17_nodup_all dd : C17_nodup_statement dd.
Proof.
  destruct dd; simpl.
  - intros. now apply model_nodup.
  - exists reg_a, [s_a; s_a_star]. split; [exact wf_reg_a|].
    intros im em defaults excl sast H.
    assert (E : ids (match_codemods_model (mkv im false em) defaults reg_a [s_a; s_a_star] excl sast) = [s_a; s_a]).
    { unfold match_codemods_model. destruct (match excl with [] => defaults | _ :: _ => excl end); destruct im; reflexivity. }
    rewrite E in H. inversion H as [|? ? Hn _]; subst. apply Hn. now left.
Qed.

Theorem C17_nodup : C17_nodup_statement include_dedup.
Proof. exact (C17_nodup_all include_dedup). Qed.
Print Assumptions C17_nodup.

(** ** --codemod-exclude / default *)
Definition C17_exclude_statement (em : matcher_kind) (defaults : list str) : Prop :=
  match em, defaults with
  | FullGlob, _ :: _ =>
      forall im dd reg excl sast, wf_reg reg ->
        ExcludeSpec defaults reg excl sast (match_codemods_model (mkv im dd em) defaults reg [] excl sast)
  | FullGlob, [] =>   (* `codemod_exclude or []` is falsy: the default run would fall into the include branch and select nothing *)
      exists reg sast, wf_reg reg /\
        forall im dd, ~ ExcludeSpec defaults reg [] sast (match_codemods_model (mkv im dd em) defaults reg [] [] sast)
  | PrefixRegex, _ =>
      exists reg excl sast, wf_reg reg /\ excl <> [] /\
        forall im dd, ~ ExcludeSpec defaults reg excl sast (match_codemods_model (mkv im dd em) defaults reg [] excl sast)
  end.

Lemma not_ExcludeSpec defaults reg excl sast out :
  out <> select_ref defaults reg [] excl sast -> ~ ExcludeSpec defaults reg excl sast out.
Proof.
  intros Hne H. apply Hne. apply (proj1 (SelectSpec_is_ref defaults reg [] excl sast out)). exact H.
Qed.

Lemma C17_exclude_all em defaults : C17_exclude_statement em defaults.
Proof.
  destruct em; simpl.
  - (* PrefixRegex: excluding "*-set" also drops use-set-literal *)
    exists reg_usl, [s_star_set], false. split; [exact wf_reg_usl|]. split; [discriminate|].
    intros im dd. apply not_ExcludeSpec. vm_compute. discriminate.
  - destruct defaults as [|d defaults].
    + exists reg_a, false. split; [exact wf_reg_a|]. intros im dd. apply not_ExcludeSpec. vm_compute. discriminate.
    + intros im dd reg excl sast Hwf. rewrite model_exclude_ref by (auto; reflexivity).
      exact (select_ref_sound (d :: defaults) reg [] excl sast).
Qed.

Theorem C17_exclude_exact : C17_exclude_statement exclude_matcher default_excluded_codemods.
Proof. exact (C17_exclude_all exclude_matcher default_excluded_codemods). Qed.
Print Assumptions C17_exclude_exact.

(** ** the spec leaves no freedom: exactly one sequence is allowed, the reference selection *)
Theorem C17_spec_deterministic : forall defaults reg incl excl sast o1 o2,
  SelectSpec defaults reg incl excl sast o1 -> SelectSpec defaults reg incl excl sast o2 -> o1 = o2.
Proof. exact SelectSpec_functional. Qed.
Print Assumptions C17_spec_deterministic.

Theorem C17_spec_reference : forall defaults reg incl excl sast o,
  SelectSpec defaults reg incl excl sast o <-> o = select_ref defaults reg incl excl sast.
Proof. exact SelectSpec_is_ref. Qed.
Print Assumptions C17_spec_reference.

(** ** what the spec means, item by item (these hold of every sequence the spec allows, hence of the model's
    output whenever the positive branch of [C17_include_exact] / [C17_exclude_exact] is the active one) *)

(** no extra codemod (each one is registered and selected by a listed item), none missing *)
Theorem C17_include_members : forall reg incl out, IncludeSpec reg incl out ->
  (forall c, In c out -> In c reg /\ exists name, In name incl /\ Wanted name c) /\
  (forall c name, In c reg -> In name incl -> Wanted name c -> In (cid c) (ids out)).
Proof. exact IncludeSpec_members. Qed.
Print Assumptions C17_include_members.

(** order given: what the earlier items select comes first and is not disturbed by later items;
    registry order within one item *)
Theorem C17_order : forall reg,
  (forall l1 l2 out, IncludeSpec reg (l1 ++ l2) out ->
     exists o1 o2, IncludeSpec reg l1 o1 /\ out = o1 ++ o2 /\
       (forall c, In c o2 -> ~ In (cid c) (ids o1) /\ In c reg /\ exists name, In name l2 /\ Wanted name c)) /\
  (forall name out, NoDup (ids reg) -> IncludeSpec reg [name] out -> Kept (Wanted name) reg out).
Proof. intros reg. split; [apply IncludeSpec_app | apply IncludeSpec_single]. Qed.
Print Assumptions C17_order.

(** unknown ids (and patterns matching nothing) are ignored *)
Theorem C17_unknown_ignored : forall reg l1 name l2 out, (forall c, In c reg -> ~ Wanted name c) ->
  (IncludeSpec reg (l1 ++ name :: l2) out <-> IncludeSpec reg (l1 ++ l2) out).
Proof. exact IncludeSpec_unknown. Qed.
Print Assumptions C17_unknown_ignored.

(** exclude/default: membership = registered, eligible, not excluded; the eligibility test of the code is the xor table *)
Theorem C17_eligibility :
  (forall defaults reg excl sast out, ExcludeSpec defaults reg excl sast out ->
     forall c, In c out <-> In c reg /\ ~ Excluded (effective_exclude defaults excl) c /\ Eligible sast c) /\
  (forall sast c, eligible sast c = xorb sast (str_eqb (corigin c) pixee)) /\
  (forall sast c, eligible sast c = true <-> Eligible sast c).
Proof.
  split; [|split].
  - intros defaults reg excl sast out H c. unfold ExcludeSpec in H. rewrite (Kept_In _ _ _ H). tauto.
  - exact eligible_xor.
  - intros sast c. rewrite eligible_ref. apply eligible_b_spec.
Qed.
Print Assumptions C17_eligibility.

(** which runs are "tool" runs: [sast_only = argv.sonar_issues_json or argv.sarif] is "Sonar issue files or SARIF files supplied" *)
Definition C17_sast_mode_statement (sources : list str) : Prop :=
  if only_tool_files sources then forall args, sast_only_of sources args = tool_files_supplied args
  else exists args, sast_only_of sources args <> tool_files_supplied args.
Theorem C17_sast_mode : C17_sast_mode_statement sast_only_sources.
Proof. exact (sast_mode_all sast_only_sources). Qed.
Print Assumptions C17_sast_mode.

(** the matchers mean what their names say (ids without line feed) *)
Theorem C17_matchers : forall p s, ~ In 10%N s ->
  (glob_full p s = true <-> Matches p s) /\
  (glob_prefix p s = true <-> exists a b, s = a ++ b /\ Matches p a).
Proof. intros p s H. split; [now apply glob_full_spec | now apply glob_prefix_spec]. Qed.
Print Assumptions C17_matchers.

(** ** non-vacuity: a registry meeting [wf_reg] and an include list with an exact id, an overlapping pattern,
    an unknown id and a repeat, on which model and reference are computed *)
Definition ex_reg : list codemod :=
  [([97]%N, pixee); ([97;98]%N, pixee); ([98]%N, pixee); ([115;58;120]%N, [115;111;110;97;114]%N)].
Example C17_example_wf : wf_reg ex_reg.
Proof.
  split; [repeat constructor; simpl; intuition discriminate|].
  repeat constructor; unfold cid; simpl; intuition discriminate.
Qed.
Example C17_example_include :
  ids (match_codemods_model (mkv FullGlob true FullGlob) default_excluded_codemods ex_reg
         [[98]%N; [97;42]%N; [122;122]%N; [97]%N; [42;98]%N] [] false)
  = [[98]%N; [97]%N; [97;98]%N].
Proof. vm_compute. reflexivity. Qed.
Example C17_example_exclude :
  ids (match_codemods_model (mkv FullGlob true FullGlob) default_excluded_codemods ex_reg [] [[97;42]%N] false) = [[98]%N]
  /\ ids (match_codemods_model (mkv FullGlob true FullGlob) default_excluded_codemods ex_reg [] [] true) = [[115;58;120]%N].
Proof. vm_compute. split; reflexivity. Qed.
