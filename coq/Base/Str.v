(** Strings are lists of Unicode code points (Python [str]); bytes are the same with values < 256. *)
From Coq Require Export List NArith ZArith Bool Lia.
Export ListNotations.

Definition str := list N.

Section ListEqb.
  Context {A : Type} (eqb : A -> A -> bool).
  Fixpoint list_eqb (a b : list A) : bool :=
    match a, b with
    | [], [] => true
    | x :: a', y :: b' => eqb x y && list_eqb a' b'
    | _, _ => false
    end.
  Hypothesis eqb_spec : forall x y, reflect (x = y) (eqb x y).
  Lemma list_eqb_spec : forall a b, reflect (a = b) (list_eqb a b).
  Proof.
    induction a as [|x a IH]; intros [|y b]; simpl; try (constructor; congruence).
    destruct (eqb_spec x y) as [->|Hne]; simpl.
    - destruct (IH b) as [->|Hne]; constructor; congruence.
    - constructor; congruence.
  Qed.
End ListEqb.

Definition str_eqb : str -> str -> bool := list_eqb N.eqb.
Lemma str_eqb_spec a b : reflect (a = b) (str_eqb a b).
Proof. apply list_eqb_spec. intros x y. apply N.eqb_spec. Qed.
Lemma str_eqb_refl a : str_eqb a a = true.
Proof. destruct (str_eqb_spec a a); congruence. Qed.
Lemma str_eqb_eq a b : str_eqb a b = true <-> a = b.
Proof. destruct (str_eqb_spec a b); split; congruence. Qed.
Lemma str_eqb_neq a b : str_eqb a b = false <-> a <> b.
Proof. destruct (str_eqb_spec a b); split; congruence. Qed.

Definition mem_str (s : str) (l : list str) : bool := existsb (str_eqb s) l.
Lemma mem_str_In s l : mem_str s l = true <-> In s l.
Proof.
  unfold mem_str. rewrite existsb_exists. split.
  - intros [x [Hin Heq]]. apply str_eqb_eq in Heq. subst. exact Hin.
  - intros Hin. exists s. split; [exact Hin | apply str_eqb_refl].
Qed.

(** Errors are values. *)
Inductive out (A : Type) := Ok (a : A) | KeyErr.
Arguments Ok {A} a.
Arguments KeyErr {A}.
