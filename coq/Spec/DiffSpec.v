(** What C03 demands of a diff, independently of how diff.py/difflib build it. *)
From CM Require Export Model.Diff.
Local Open Scope N_scope.

(** "up to the presence of a final newline": a text with its last line terminated.
    [norm_nl "" = ""], [norm_nl "a" = "a\n"], [norm_nl "a\n" = "a\n"], [norm_nl "a\n\n" = "a\n\n"]. *)
Definition norm_nl (t : str) : str :=
  match t with [] => [] | _ => if ends_nl t then t else t ++ [10] end.
(** [x ≈nl y]: equal once an unterminated last line is terminated (an equivalence: kernel of [norm_nl]). *)
Definition eq_nl (x y : str) : Prop := norm_nl x = norm_nl y.
Definition eq_nl_opt (x y : option str) : Prop :=
  match x, y with Some a, Some b => eq_nl a b | None, None => True | _, _ => False end.
Notation "x ≈nl y" := (eq_nl_opt x y) (at level 70).

Definition nl_free (l : str) : bool := forallb (fun c => negb (c =? 10)) l.
(** a line of a text split at "\n": non-empty, no "\n" except as its last character *)
Definition line_ok (l : str) : bool := negb (is_nil l) && nl_free (chomp l).
(** [a] is what splitting [concat a] at "\n" alone gives: every line but the last ends with "\n".
    For [a = t.splitlines(keepends=True)] this says: [t] has no line boundary other than "\n" (and "\r\n"). *)
Definition lf_clean (a : list str) : bool := forallb line_ok a && forallb ends_nl (removelast a).

(** finding class kf_exotic_linebreak: the text has a [str.splitlines] boundary that is not "\n"/"\r\n" *)
Fixpoint has_exotic (t : str) : bool :=
  match t with
  | [] => false
  | c :: t' =>
      if c =? 13 then match t' with d :: _ => negb (d =? 10) || has_exotic t' | [] => true end
      else if c =? 10 then has_exotic t'
      else is_break c || has_exotic t'
  end.

(** 1-based positions (in b) of the lines a script adds and (in a) of the lines it removes *)
Definition seq_from (start : Z) (n : nat) : list Z := map (fun i => (start + Z.of_nat i)%Z) (seq 1 n).
Fixpoint seg_positions (pa pb : Z) (g : group) : list Z :=
  match g with
  | [] => []
  | SEq ls :: r => seg_positions (pa + Z.of_nat (length ls)) (pb + Z.of_nat (length ls)) r
  | SRep a b :: r =>
      seq_from pa (length a) ++ seq_from pb (length b)
      ++ seg_positions (pa + Z.of_nat (length a)) (pb + Z.of_nat (length b)) r
  end.
Fixpoint hunk_positions (pa pb : Z) (gs : list (group * list str)) : list Z :=
  match gs with
  | [] => []
  | (g, gap) :: t =>
      seg_positions pa pb g
      ++ hunk_positions (pa + Z.of_nat (length (grp_a g)) + Z.of_nat (length gap))
                        (pb + Z.of_nat (length (grp_b g)) + Z.of_nat (length gap)) t
  end.
Definition changed_positions (s : script) : list Z :=
  hunk_positions (Z.of_nat (length (gap0 s))) (Z.of_nat (length (gap0 s))) (hunks s).
