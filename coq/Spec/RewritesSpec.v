(** What C08 demands of a rewrite kernel, and where the theorems hold.

    Observation of a run = the [result] of the evaluator (value, or exception type).  A kernel [rw] preserves behaviour
    on [e] in [rho] when [eval rho (norm (rw e)) = eval rho (norm e)].  The theorems (Properties/C08.v) hold under an
    explicit decidable guard per kernel; the complement of each guard is split into the finding classes below, which
    the harness uses to classify every difference it observes between the original and the rewritten program.

    Guards look at every node the transformer's [leave_*] method sees -- i.e. the node rebuilt from its already
    rewritten children -- together with the environment in force there (comprehension variables bound to each element
    of the iterable in turn): [visit]. *)
From CM Require Export Model.PySem Model.Rewrites.

Inductive kernel := KCombineSW | KCombineInst | KInvert | KGenerator | KSetLit | KHasattr
                  | KEmptySeq | KEmptySeqTest (* the expression is the test of an `if` *) | KIdentity
                  | KStrConcat (* not a refactoring: no C08 law, only model = codemod and C01/C02/C07 facts *).

Definition under_binder {A} (rho : env) (x : N) (it : expr) (k : env -> list A) : list A :=
  match eval rho it with
  | Val vi => match to_seq vi with inr vals => flat_map (fun v => k (bind x v rho)) vals | inl _ => [] end
  | Raise _ => []
  end.

(** every node as the bottom-up transformer [bu f] sees it, with the environment it is evaluated in *)
Fixpoint visit (f : expr -> expr) (rho : env) (e : expr) : list (env * expr) :=
  let vs := fix vs (es : list expr) : list (env * expr) := match es with [] => [] | a :: t => visit f rho a ++ vs t end in
  (rho, rebuild (bu f) e) ::
  match e with
  | EName _ | EConst _ | EType _ => []
  | ETuple es | EList es | ESet es => vs es
  | EMeth _ _ args | ECall _ args => vs args
  | EBool _ _ l r | EFloorDiv l r => visit f rho l ++ visit f rho r
  | ENot _ a | EJuxt _ a => visit f rho a
  | ECmp _ l rest => visit f rho l ++
                     (fix go (rs : list (cmpop * expr)) : list (env * expr) :=
                        match rs with [] => [] | (_, b) :: t => visit f rho b ++ go t end) rest
  | EListComp elt x it | EGen _ elt x it =>
      visit f rho it ++ under_binder rho x it (fun rho' => visit f rho' elt)
  end.
Definition bguard (f : expr -> expr) (ok : env -> expr -> bool) (rho : env) (e : expr) : bool :=
  forallb (fun rn => ok (fst rn) (snd rn)) (visit f rho e).

(** finding classes *)
Definition kf_combine_regroup : N := 1.          (* `c1 or c2 and z` folded as `(c1|c2) and z` *)
Definition kf_combine_tuple_name : N := 2.       (* argument is a name bound to a tuple: nested tuple => TypeError *)
Definition kf_combine_eager_args : N := 3.       (* the later call's argument is now evaluated even when the first call is true *)
Definition kf_combine_lost_parens : N := 4.      (* the folded BooleanOperation loses the parentheses of the node it replaces *)
Definition kf_invert_default_branch : N := 5.    (* operator outside the table: comparator printed twice *)
Definition kf_invert_chain : N := 6.             (* not a == b == c  =>  a != b != c *)
Definition kf_invert_partial_order : N := 7.     (* < <= > >= on sets / NaN *)
Definition kf_invert_is_literal : N := 8.        (* not x is True => not x,  not x is False => x,  x not a bool *)
Definition kf_invert_lost_parens : N := 9.       (* the new Comparison / `not` loses the parentheses of the node it replaces *)
Definition kf_generator_shortcircuit : N := 10.  (* any/all stop at the deciding element: later elements no longer raise *)
Definition kf_generator_dropped_args : N := 11.  (* sum([..], start) / max([..], x): every argument but the first is dropped *)
Definition kf_hasattr_instance_call : N := 12.   (* __call__ set on the instance only: hasattr True, callable False *)
Definition kf_hasattr_arity : N := 13.           (* hasattr with other than two arguments *)

(** * combine-startswith-endswith / combine-isinstance-issubclass *)
Definition is_some {A} (o : option A) : bool := match o with Some _ => true | None => false end.
(** evaluates to a value, with no effect: a constant, a type name, a bound name *)
Definition simple (rho : env) (e : expr) : bool :=
  match e with
  | EConst _ | EType _ => true
  | EName x => is_some (lookup rho x)
  | _ => false
  end.
Definition tuple_valued (rho : env) (e : expr) : bool :=
  match eval rho e with Val (VTuple _) => true | _ => false end.
(** "the arguments are literals or tuples of literals (or names bound to non-tuples)" *)
Definition good_arg (k : combine_kind) (rho : env) (a : expr) : bool :=
  match a with
  | ETuple es => forallb (simple rho) es
  | _ => simple rho a && match k with KInstSub => true | KStartsEnds => negb (tuple_valued rho a) end
  end.
Definition total_arg (rho : env) (a : expr) : bool := forallb (fun el => is_val (eval rho el)) (arg_elements a).

(** the fold that fires at [EBool _ BOr l r] for the combinable function [c], if any:
    (inner operator, first argument, later argument) *)
Definition firing (cfg : combine_cfg) (c : cfunc) (l r : expr) : option (bop * expr * expr) :=
  match match_call c l with
  | Some (il, al) =>
      match match_call c r with
      | Some (ir, ar) => if atom_eqb il ir then Some (BOr, al, ar) else None
      | None =>
          match r with
          | EBool _ o rl _ =>
              match match_call c rl with
              | Some (irl, arl) =>
                  if atom_eqb il irl && (negb (cc_inner_or cfg) || bop_eqb o BOr) then Some (o, al, arl) else None
              | None => None
              end
          | _ => None
          end
      end
  | None =>
      match l, match_call c r with
      | EBool _ o _ lr, Some (ir, ar) =>
          match match_call c lr with
          | Some (ilr, alr) =>
              if atom_eqb ilr ir && (negb (cc_inner_or cfg) || bop_eqb o BOr) then Some (o, alr, ar) else None
          | None => None
          end
      | _, _ => None
      end
  end.
Definition combine_node_ok (cfg : combine_cfg) (k : combine_kind) (rho : env) (n : expr) : bool :=
  match n with
  | EBool _ BOr l r =>
      forallb (fun c => match firing cfg c l r with
                        | Some (o, a1, a2) => bop_eqb o BOr && good_arg k rho a1 && good_arg k rho a2
                        | None => true
                        end) (combinable_funcs k)
  | _ => true
  end.
Definition combine_guard (cfg : combine_cfg) (k : combine_kind) : env -> expr -> bool :=
  bguard (combine_step cfg k) (combine_node_ok cfg k).
Definition combine_node_classes (cfg : combine_cfg) (k : combine_kind) (rho : env) (n : expr) : list N :=
  match n with
  | EBool _ BOr l r =>
      flat_map (fun c => match firing cfg c l r with
                         | Some (o, a1, a2) =>
                             (if bop_eqb o BOr then [] else [kf_combine_regroup]) ++
                             (match k with
                              | KStartsEnds => if (negb (is_tuple a1) && tuple_valued rho a1) || (negb (is_tuple a2) && tuple_valued rho a2)
                                               then [kf_combine_tuple_name] else []
                              | KInstSub => []
                              end) ++
                             (if total_arg rho a2 then [] else [kf_combine_eager_args])
                         | None => []
                         end) (combinable_funcs k)
  | _ => []
  end.

(** * invert-boolean-check *)
Definition negates (a b : cmpop) : bool :=
  match a, b with
  | Eq, NotEq | NotEq, Eq | Lt, GtE | GtE, Lt | Gt, LtE | LtE, Gt | Is, IsNot | IsNot, Is | In, NotIn | NotIn, In => true
  | _, _ => false
  end.
Definition table_ok (t : list (cmpop * cmpop)) : bool := forallb (fun ab => negates (fst ab) (snd ab)) t.
Definition is_ordering (o : cmpop) : bool := match o with Lt | LtE | Gt | GtE => true | _ => false end.
Definition is_set (v : value) : bool := match v with VSet _ => true | _ => false end.
(** both operands are numbers (int / bool) or both are strings, whenever both evaluate: the builtin total orders.
    Sets and NaN are partial orders; instances of user classes may define only some of the comparison methods
    (`not a < b` works with `__lt__` alone, `a >= b` needs `__ge__` or a reflected `__le__`): the model's objects define
    none, so nothing is claimed for them. *)
Definition is_num (v : value) : bool := match num_of v with Some _ => true | None => false end.
Definition is_strv (v : value) : bool := match v with VStr _ => true | _ => false end.
Definition totally_ordered_operands (rho : env) (l c : expr) : bool :=
  match eval rho l, eval rho c with
  | Val v, Val w => (is_num v && is_num w) || (is_strv v && is_strv w)
  | _, _ => true
  end.
Definition bool_or_raises (rho : env) (l : expr) : bool :=
  match eval rho l with Val (VBool _) => true | Val _ => false | Raise _ => true end.
Inductive invert_action :=
| IA_none                          (* not a `not <comparison>` node, or the node is left alone *)
| IA_raises                        (* comparator.value raises: the file is left unchanged *)
| IA_is_literal (l : expr)         (* not l is True / not l is False *)
| IA_general (l : expr) (rest : list (cmpop * expr)).
Definition invert_action_of (cfg : invert_cfg) (n : expr) : invert_action :=
  match n with
  | ENot _ (ECmp _ l rest) =>
      let general :=
        if negb (iv_chains cfg) && negb (Nat.eqb (List.length rest) 1) then IA_none
        else match invert_targets cfg rest with Some _ => IA_general l rest | None => IA_none end in
      match rest with
      | [(Is, c)] => if is_juxt c then general
                     else if has_value_attr c
                     then match c with EConst (CBool _) => IA_is_literal l | _ => general end
                     else IA_raises
      | _ => general
      end
  | _ => IA_none
  end.
Definition invert_node_ok (cfg : invert_cfg) (rho : env) (n : expr) : bool :=
  match invert_action_of cfg n with
  | IA_none | IA_raises => true
  | IA_is_literal l => bool_or_raises rho l && negb (is_gen l)
  | IA_general l rest =>
      match rest with
      | [(o, c)] => match assoc_op o (iv_table cfg) with
                    | Some o' => negb (is_juxt c) && negates o o' && (negb (is_ordering o) || totally_ordered_operands rho l c)
                    | None => false
                    end
      | _ => false
      end
  end.
Definition invert_guard (cfg : invert_cfg) : env -> expr -> bool := bguard (invert_step cfg) (invert_node_ok cfg).
Definition invert_node_classes (cfg : invert_cfg) (rho : env) (n : expr) : list N :=
  match invert_action_of cfg n with
  | IA_none | IA_raises => []
  | IA_is_literal l => if bool_or_raises rho l then [] else [kf_invert_is_literal]
  | IA_general l rest =>
      (if existsb (fun oc => is_juxt (snd oc) || negb (is_some (assoc_op (fst oc) (iv_table cfg)))) rest then [kf_invert_default_branch] else []) ++
      (if Nat.eqb (List.length rest) 1 then [] else [kf_invert_chain]) ++
      (match rest with
       | [(o, c)] => if is_ordering o && negb (totally_ordered_operands rho l c) then [kf_invert_partial_order] else []
       | _ => []
       end)
  end.

(** * use-generator: the calls [rw_generator] rewrites, found the way [rw_generator] traverses: arguments of calls are
    entered only when [ug_nested], the comprehension of a rewritten call only when [ug_updated_parts] *)
Fixpoint gen_sites (cfg : generator_cfg) (rho : env) (e : expr) : list (env * builtin * expr * N * expr * list expr) :=
  let gs := fix gs (es : list expr) := match es with [] => [] | a :: t => gen_sites cfg rho a ++ gs t end in
  match e with
  | EName _ | EConst _ | EType _ => []
  | EMeth _ _ args => if ug_nested cfg then gs args else []
  | ETuple es | EList es | ESet es => gs es
  | ECall f args =>
      if gen_hit cfg f args then
        match args with
        | EListComp elt x it :: rest =>
            (rho, f, elt, x, it, rest) ::
            (if ug_updated_parts cfg then gen_sites cfg rho it ++ under_binder rho x it (fun rho' => gen_sites cfg rho' elt) else [])
        | _ => []
        end
      else if ug_nested cfg then gs args else []
  | EBool _ _ l r | EFloorDiv l r => gen_sites cfg rho l ++ gen_sites cfg rho r
  | ENot _ a | EJuxt _ a => gen_sites cfg rho a
  | ECmp _ l rest => gen_sites cfg rho l ++
                     (fix go (rs : list (cmpop * expr)) := match rs with [] => [] | (_, b) :: t => gen_sites cfg rho b ++ go t end) rest
  | EListComp elt x it | EGen _ elt x it =>
      gen_sites cfg rho it ++ under_binder rho x it (fun rho' => gen_sites cfg rho' elt)
  end.
Definition lazy_func (f : builtin) : bool := match f with BAny | BAll => true | _ => false end.
(** the list form evaluates every element without raising *)
Definition elements_total (rho : env) (elt : expr) (x : N) (it : expr) : bool :=
  match eval rho it with
  | Val vi => match to_seq vi with
              | inr vals => forallb (fun v => is_val (eval (bind x v rho) elt)) vals
              | inl _ => true
              end
  | Raise _ => true
  end.
Definition generator_site_ok (s : env * builtin * expr * N * expr * list expr) : bool :=
  let '(rho, f, elt, x, it, rest) := s in
  match rest with [] => true | _ => false end && (negb (lazy_func f) || elements_total rho elt x it).
Definition generator_guard (cfg : generator_cfg) (rho : env) (e : expr) : bool :=
  forallb generator_site_ok (gen_sites cfg rho e).
(** weaker guard of the refinement theorem (the original evaluates to a value): only "no argument is dropped" *)
Definition generator_keeps_args (cfg : generator_cfg) (rho : env) (e : expr) : bool :=
  forallb (fun s => match snd s with [] => true | _ => false end) (gen_sites cfg rho e).
Definition generator_site_classes (s : env * builtin * expr * N * expr * list expr) : list N :=
  let '(rho, f, elt, x, it, rest) := s in
  (match rest with [] => [] | _ => [kf_generator_dropped_args] end) ++
  (if lazy_func f && negb (elements_total rho elt x it) then [kf_generator_shortcircuit] else []).

(** * fix-hasattr-call *)
Definition inst_only_call (v : value) : bool :=
  match v with VObj _ cls inst => mem_str call_attr inst && negb (mem_str call_attr cls) | _ => false end.
Definition hasattr_node_ok (cfg : hasattr_cfg) (rho : env) (n : expr) : bool :=
  match n with
  | ECall BHasattr (a :: rest) =>
      if hasattr_fires cfg a rest then
        match rest with
        | [_] => negb (is_gen a) &&       (* generator objects are outside the value domain of the model *)
                 match eval rho a with Val v => negb (inst_only_call v) | Raise _ => true end
        | _ => false
        end
      else true
  | _ => true
  end.
Definition hasattr_guard (cfg : hasattr_cfg) : env -> expr -> bool := bguard (hasattr_step cfg) (hasattr_node_ok cfg).
Definition hasattr_node_classes (cfg : hasattr_cfg) (rho : env) (n : expr) : list N :=
  match n with
  | ECall BHasattr (a :: rest) =>
      if hasattr_fires cfg a rest then
        match rest with
        | [_] => match eval rho a with Val v => if inst_only_call v then [kf_hasattr_instance_call] else [] | Raise _ => [] end
        | _ => [kf_hasattr_arity]
        end
      else []
  | _ => []
  end.

(** * lost parentheses (combine folds, invert): the printed replacement does not parse back to the tree that was built *)
Definition parens_ok (e' : expr) : bool := paren_safe e'.

(** * top-down transformers ([td f]): the nodes where the node function answers, with the environment in force there *)
Fixpoint tvisit (f : expr -> option expr) (rho : env) (e : expr) : list (env * expr) :=
  let vs := fix vs (es : list expr) : list (env * expr) := match es with [] => [] | a :: t => tvisit f rho a ++ vs t end in
  match f e with
  | Some _ => [(rho, e)]
  | None =>
      match e with
      | EName _ | EConst _ | EType _ => []
      | ETuple es | EList es | ESet es => vs es
      | EMeth _ _ args | ECall _ args => vs args
      | EBool _ _ l r | EFloorDiv l r => tvisit f rho l ++ tvisit f rho r
      | ENot _ a | EJuxt _ a => tvisit f rho a
      | ECmp _ l rest => tvisit f rho l ++
                         (fix go (rs : list (cmpop * expr)) : list (env * expr) :=
                            match rs with [] => [] | (_, b) :: t => tvisit f rho b ++ go t end) rest
      | EListComp elt x it | EGen _ elt x it =>
          tvisit f rho it ++ under_binder rho x it (fun rho' => tvisit f rho' elt)
      end
  end.
Definition tguard (f : expr -> option expr) (ok : env -> expr -> bool) (rho : env) (e : expr) : bool :=
  forallb (fun rn => ok (fst rn) (snd rn)) (tvisit f rho e).

Definition kf_empty_seq_other_type : N := 14.    (* x == [] -> not x, x not a list (x == () -> not x, x not a tuple) *)
Definition kf_empty_seq_lost_parens : N := 15.   (* pinned: the new `not x` dropped the comparison's parentheses *)
Definition kf_identity_differs : N := 16.        (* x is <literal> -> x == <literal>: identity and equality disagree *)

(** * fix-empty-sequence-comparison: what an observer of the rewritten position sees: the value, or, for the test of an `if`,
    only its truth value *)
Definition test_obs (r : result) : result := match r with Val v => Val (VBool (truthy v)) | Raise x => Raise x end.
(** the compared value is of the literal's own type (a list for `[]`, a tuple for `()`), or its evaluation raises *)
Definition same_kind (rho : env) (lt x : expr) : bool :=
  match eval rho x with
  | Val (VList _) => match lt with EList _ => true | _ => false end
  | Val (VTuple _) => match lt with ETuple _ => true | _ => false end
  | Val _ => false
  | Raise OutOfModel => false        (* the model declines: nothing is claimed *)
  | Raise _ => true
  end.
Definition empty_seq_action_ok (rho : env) (a : es_action) : bool :=
  match a with
  | ES_not _ lt x | ES_bool lt x | ES_bare lt x => same_kind rho lt x
  | ES_none | ES_raises => true
  end.
Definition empty_seq_node_ok (rho : env) (n : expr) : bool := empty_seq_action_ok rho (empty_seq_action false n).
Definition empty_seq_guard (cfg : empty_seq_cfg) (in_test : bool) (rho : env) (e : expr) : bool :=
  match e with
  | ECmp _ _ _ => empty_seq_action_ok rho (empty_seq_action in_test e)
  | _ => tguard (empty_seq_f cfg) empty_seq_node_ok rho e
  end.
Definition empty_seq_classes (cfg : empty_seq_cfg) (in_test : bool) (rho : env) (e : expr) : list N :=
  let sites := match e with
               | ECmp _ _ _ => [(rho, empty_seq_action in_test e)]
               | _ => map (fun rn => (fst rn, empty_seq_action false (snd rn))) (tvisit (empty_seq_f cfg) rho e)
               end in
  if existsb (fun ra => negb (empty_seq_action_ok (fst ra) (snd ra))) sites then [kf_empty_seq_other_type] else [].

(** * literal-or-new-object-identity: at every rewritten comparison `is` and `==` (`is not` and `!=`) give the same answer *)
Definition cres_eqb (a b : cres) : bool :=
  match a, b with CB x, CB y => Bool.eqb x y | CX x, CX y => exn_eqb x y | _, _ => false end.
Definition identity_node_ok (rho : env) (n : expr) : bool :=
  match n, identity_f n with
  | ECmp _ l [(o, c)], Some (ECmp _ _ [(o', _)]) =>
      match eval rho l, eval rho c with
      | Val v, Val w => cres_eqb (cmp_op o v w) (cmp_op o' v w)
      | Raise OutOfModel, _ | _, Raise OutOfModel => false      (* the model declines: nothing is claimed *)
      | _, _ => true
      end
  | _, _ => true
  end.
Definition identity_guard : env -> expr -> bool := tguard identity_f identity_node_ok.
Definition identity_classes (rho : env) (e : expr) : list N :=
  if forallb (fun rn => identity_node_ok (fst rn) (snd rn)) (tvisit identity_f rho e) then [] else [kf_identity_differs].
