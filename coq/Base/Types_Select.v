(** Types of the table values that tools/fragments_select.py extracts from registry.py (C17). *)
From CM Require Export Base.Str Base.TableTypes.

(** How [match_codemods] turns a [*] pattern into a test on a codemod id. *)
Inductive matcher_kind :=
| PrefixRegex   (* re.compile(name.replace("*", ".*")).match(id): anchored at the start only, metacharacters live *)
| FullGlob.     (* _wildcard_pattern(name).fullmatch(id): literal parts escaped, whole id must match *)

