import difflib

import libcst as cst


def create_diff(original_lines: list[str], new_lines: list[str]) -> str:
    diff_lines = list(difflib.unified_diff(original_lines, new_lines))
    return difflines_to_str(diff_lines)


def create_diff_from_tree(original_tree: cst.Module, new_tree: cst.Module) -> str:
    """
    Create a diff between the original and output trees.
    """
    return create_diff(
        original_tree.code.splitlines(keepends=True),
        new_tree.code.splitlines(keepends=True),
    )


def create_diff_and_linenums(
    original_lines: list[str], new_lines: list[str]
) -> tuple[str, list[int]]:
    diff_lines = list(difflib.unified_diff(original_lines, new_lines))
    return difflines_to_str(diff_lines), calc_line_num_changes(diff_lines)


def calc_line_num_changes(diff_lines: list[str]) -> list[int]:
    """
    Calculates the line numbers changed from a list of diff lines
    Returns a list with unique elements.
    """
    if not diff_lines:
        return []

    changed_line_nums: list[int] = []
    current_line_number = 0
    original_line_number = 0

    for line in diff_lines:
        if line.startswith("@@"):
            # Extract the starting line number for the updated file from the diff metadata.
            # The format is @@ -x,y +a,b @@, where a is the starting line number in the updated file.
            start_line_original, start_line_updated = line.split(" ")[1:3]
            original_line_number = int(start_line_original.split(",")[0][1:]) - 1
            current_line_number = int(start_line_updated.split(",")[0][1:]) - 1

        elif line.startswith("+"):
            # Increment line number for each line in the updated file
            current_line_number += 1
            if not line.startswith("+++"):  # Ignore the diff metadata lines
                changed_line_nums.append(current_line_number)

        elif line.startswith("-"):
            # Increment line number for each line in the original file
            original_line_number += 1
            if not line.startswith("---"):  # Ignore the diff metadata lines
                changed_line_nums.append(original_line_number)

        else:
            # Increment line numbers for unchanged/context lines
            original_line_number += 1
            current_line_number += 1

    return list(set(changed_line_nums))


def difflines_to_str(diff_lines: list[str]) -> str:
    if not diff_lines:
        return ""
    # All but the last diff line should end with a newline
    # The last diff line should be preserved as-is (with or without a newline)
    diff_lines = [
        line if line.endswith("\n") else line + "\n" for line in diff_lines[:-1]
    ] + [diff_lines[-1]]
    return "".join(diff_lines)
