(** C16 — hardening codemods make only their documented edit.

    Full statement: for all hardening codemods K and programs P (positional/keyword/star arguments in any order and
    layout, nested calls, aliases, several calls per file): the multiset difference between the identifiers,
    attribute names, keywords and constants of P and of run_K(P) is contained in K's documented delta, and
    argument order is kept.

    Proved here, for EVERY argument list (any arity, keyword order, `*a` / `**k`, duplicate keywords) and every
    expression of Model/Args.v, about the argument-list algebra the codemods share (the model mirrors
    libcst_transformer.py and the on_result_found bodies as written):
      C16_replace_args_frame, C16_replace_args_is_spec, C16_replace_args_frame_any,
      C16_documented_lists_frame (instance at Tables.newargs_expr),
      C16_add_arg_frame_partial, C16_call_target_frame_partial, C16_swap_callee_frame_partial, C16_process_sandbox_frame_partial, C16_https_frame,
      C16_multiset_delta, C16_multiset_delta_tree_partial (whole expression trees, any number of selected calls),
      C16_nested_guarded (no selected call below a selected call => as-written = rebuilt-from-updated_node),
      C16_pyyaml_edit (table-indexed: the documented edit for the repaired update_call, the refutation for the pinned one),
      C16_pyyaml_frame_partial, C16_limit_readline_frame_partial,
      C07_replace_args_idempotent, C07_cookie_idempotent.
    Deviations of the faithful model (each confirmed on the real implementation by harness/c16.py):
      C16_nested_refuted / C07_nested_refuted (kf_nested_selected_calls), C16_pyyaml_drops_args,
      C16_pyyaml_overwrites_second (kf_pyyaml_extra_args_dropped / kf_pyyaml_second_arg_overwritten; repair in
      proposed_fixes/pyyaml-loader-argument.diff = variant PyyamlByParameter), C16_ssl_two_positional (kf_ssl_protocol_twice),
      C16_limit_readline_overwrites (unreachable end to end: the detector only reports `readline()`).
    jwt-decode-verify's `options={...}` dict (Model/JwtOpts.v, shape-tied to jwt_decode_verify.py by the fragment
    args_jwt_opts): C16_jwt_opts_frame, C16_jwt_spread_preserved, C16_jwt_opts_multiset, C16_jwt_options_arg_frame.
    Whole trees: C16_edit_is_documented_partial (for the codemods whose edit is a NewArg list with distinct names,
    the cookie mixin, add_arg_to_call and the repaired harden-pyyaml: rebuilding from updated_node IS the documented edit
    [rw_spec], which is written without reference to the code), C16_multiset_delta_tree_partial (nothing appears beyond
    the documented delta), C16_nothing_disappears_tree_partial (nothing disappears except old values the documented edit
    overwrites).

    Naming (BUILDING.md): every theorem named `_partial` proves LESS than the property's sentence. What is missing:
      * all of them speak about the model of call expressions only: name resolution, imports/dependencies, the detector
        and everything outside call expressions are not modelled (tested end to end by harness/c16.py, not proved);
      * C16_add_arg_frame_partial, C16_call_target_frame_partial, C16_swap_callee_frame_partial,
        C16_process_sandbox_frame_partial, C16_pyyaml_frame_partial, C16_ssl_frame_partial,
        C16_limit_readline_frame_partial are DEFINITIONAL: they unfold the model's reading of a one- or two-line
        on_result_found body (proved by reflexivity).  They say what the model does, not that the code does it; their
        only tie to the code is the shape fragment of that body plus the differential correspondence;
      * the tree theorems cover the argument-editing kinds only (arg_kind / lower_kind / documented_kind) and the
        rebuild-from-updated_node reading [rw_upd]; the code as written [rw] equals it exactly when no selected call
        lies below a selected call (C16_nested_guarded), otherwise see C16_nested_refuted;
      * the lower bound excludes limit-readline (replaces the whole list by design) and the pinned harden-pyyaml.
    The theorems without the suffix (replace_args frame/multiset, jwt options dict, idempotence, the guarded and refuted
    statements) are full-strength statements about the kernel functions they name. 
    Added later (positional_to_keyword, used by replace-flask-send-file): C16_p2k_frame (table-indexed on the shape of
    utils.positional_to_keyword: raises on a starred argument / carries it and the rest over), C16_p2k_carries_after_star,
    C16_p2k_as_written_agrees, C16_p2k_example; the documented edit is the carry-over reading, a raise leaves the file
    untouched (allowed by the property). *)
From CM Require Import Model.Args Spec.ArgsSpec Proofs.ArgsFacts Generated.Tables.
From CM Require Import Model.JwtOpts Spec.JwtOptsSpec Proofs.JwtOptsFacts.
From Coq Require Import Lia.
From Coq Require Strings.String.
Import String.StringSyntax.

(** * replace_args *)
Theorem C16_replace_args_frame : forall args info, NoDup (names info) ->
  let r := replace_args args info in
  (* length arithmetic *)
  length r = length args + length (missing args info) /\
  (* position by position: the first occurrence of a listed keyword gets the documented value and keeps its `=`
     token; every other argument (positional, *a, **k, unlisted keyword, later duplicates) is returned as it was *)
  (forall i a, nth_error args i = Some a -> nth_error r i = Some (spec_at (firstn i args) a info)) /\
  (* add_if_missing entries not already present are appended in list order, exactly once *)
  skipn (length args) r = map fresh (missing args info).
Proof. exact replace_args_frame. Qed.
Print Assumptions C16_replace_args_frame.

(** the executable reading of the frame that the harness evaluates on the implementation's outputs is the model *)
Theorem C16_replace_args_is_spec : forall args info, NoDup (names info) ->
  replace_args args info = spec_replace args info.
Proof. exact replace_args_is_spec. Qed.
Print Assumptions C16_replace_args_is_spec.

(** no hypothesis on the NewArg list at all: unlisted arguments keep position and content *)
Theorem C16_replace_args_frame_any : forall args info,
  length args <= length (replace_args args info) /\
  forall i a, nth_error args i = Some a -> unlisted a info = true -> nth_error (replace_args args info) i = Some a.
Proof. intros. split; [apply replace_args_length_ge|]. intros. now apply replace_args_unlisted. Qed.
Print Assumptions C16_replace_args_frame_any.

(** the NewArg lists extracted from the source on this run have distinct names, so the frame holds of each of them *)
Theorem C16_documented_lists_frame : forall codemod info, In (codemod, info) newargs_expr -> forall args,
  let r := replace_args args info in
  length r = length args + length (missing args info) /\
  (forall i a, nth_error args i = Some a -> nth_error r i = Some (spec_at (firstn i args) a info)) /\
  skipn (length args) r = map fresh (missing args info).
Proof.
  intros codemod info Hin args. apply replace_args_frame. apply nodupb_NoDup.
  assert (H : forallb (fun row => nodupb (names (snd row))) newargs_expr = true) by (vm_compute; reflexivity).
  rewrite forallb_forall in H. exact (H _ Hin).
Qed.
Print Assumptions C16_documented_lists_frame.

Example C16_replace_args_example :
  let info := [mkNew (S_ "resolve_entities") (EName (S_ "False")) true; mkNew (S_ "no_network") (EName (S_ "True")) false;
               mkNew (S_ "dtd_validation") (EName (S_ "False")) false] in
  let args := [mkArg None 1 0 1 (EName (S_ "a")); mkArg (Some (S_ "no_network")) 0 7 1 (EName (S_ "False"));
               mkArg None 2 0 0 (EName (S_ "k"))] in
  NoDup (names info) /\
  replace_args args info =
    [mkArg None 1 0 1 (EName (S_ "a")); mkArg (Some (S_ "no_network")) 0 7 0 (EName (S_ "True"));
     mkArg None 2 0 0 (EName (S_ "k")); mkArg (Some (S_ "resolve_entities")) 0 0 0 (EName (S_ "False"))].
Proof. split; [apply nodupb_NoDup|]; vm_compute; reflexivity. Qed.

(** * add_arg_to_call, update_call_target, callee swap, process sandbox, https *)
Theorem C16_add_arg_frame_partial : forall m f args name v,
  add_arg_to_call (ECall m f args) name v = ECall m f (args ++ [mkArg (Some name) 0 0 0 v]) /\
  firstn (length args) (args_of (add_arg_to_call (ECall m f args) name v)) = args /\
  length (args_of (add_arg_to_call (ECall m f args) name v)) = S (length args).
Proof.
  intros. split; [reflexivity|]. simpl. unfold add_arg. split.
  - rewrite firstn_app, firstn_all, Nat.sub_diag. simpl. apply app_nil_r.
  - rewrite app_length. simpl. apply Nat.add_1_r.
Qed.
Print Assumptions C16_add_arg_frame_partial.

(** callee replaced by <target>.<same name>, arguments preserved (those of the node that is passed) *)
Theorem C16_call_target_frame_partial : forall node target nm, call_name node = Some nm ->
  update_call_target node target None [] = ECall false (EAttr target nm) (args_of node) /\
  (forall repl, repl <> [] -> forall nf, args_of (update_call_target node target nf repl) = repl).
Proof.
  intros node target nm H. split.
  - unfold update_call_target. rewrite H. reflexivity.
  - intros repl Hr nf. unfold update_call_target. destruct repl; [contradiction|reflexivity].
Qed.
Print Assumptions C16_call_target_frame_partial.
Example C16_call_target_example :
  call_name (ECall true (EAttr (EName (S_ "random")) (S_ "choice")) [mkArg None 1 0 0 (EName (S_ "xs"))]) = Some (S_ "choice").
Proof. reflexivity. Qed.

(** url-sandbox / use-defusedxml / harden-pickle-load and secure-random act on updated_node: nothing below is lost *)
Theorem C16_swap_callee_frame_partial : forall target name o m f args,
  on_result_found (HSwapCallee target name) o (ECall m f args) = ECall m (EAttr target name) args /\
  on_result_found (HTarget target) o (ECall m (EAttr f name) args) = ECall false (EAttr target name) args.
Proof. intros. split; reflexivity. Qed.
Print Assumptions C16_swap_callee_frame_partial.

(** sandbox-process-creation: safe_command.run(<callee>, <all arguments in order>); token-wise exactly two additions *)
Theorem C16_process_sandbox_frame_partial : forall m f args u,
  let o := ECall m f args in
  on_result_found HSandbox o u =
    ECall false (EAttr (EName (S_ "safe_command")) (S_ "run")) (mkArg None 0 0 0 f :: args) /\
  toks (on_result_found HSandbox o u) = [TId (S_ "safe_command"); TAttr (S_ "run")] ++ toks o.
Proof. intros. split; reflexivity. Qed.
Print Assumptions C16_process_sandbox_frame_partial.

Theorem C16_https_frame : forall args,
  length (https_updated_args args) = length args /\
  (forall i a, i <> 9 -> nth_error args i = Some a -> nth_error (https_updated_args args) i = Some a) /\
  (forall a, nth_error args 9 = Some a ->
     nth_error (https_updated_args args) 9 = Some a \/
     nth_error (https_updated_args args) 9 = Some (set_kw a (S_ "_proxy_config"))).
Proof. exact https_frame. Qed.
Print Assumptions C16_https_frame.

(** * token multisets *)
Theorem C16_multiset_delta : forall args info t,
  (* nothing appears that the NewArg list does not document (each entry at most once) *)
  cnt (toks_args (replace_args args info)) t <= cnt (toks_args args) t + cnt (delta_info info) t /\
  (* nothing disappears except old values of listed keywords *)
  cnt (toks_args args) t <= cnt (toks_args (replace_args args info)) t + cnt (listed_values args info) t.
Proof. intros. split; [apply replace_args_count_le|apply replace_args_count_ge]. Qed.
Print Assumptions C16_multiset_delta.

(** whole expression trees, any number of (possibly nested) selected calls, for the argument-editing codemods,
    when every call is rebuilt from updated_node; by C16_nested_guarded this is the code as written whenever no
    selected call lies below a selected call *)
Theorem C16_multiset_delta_tree_partial : forall k e t, arg_kind k = true ->
  cnt (toks (rw_upd k e)) t <= cnt (toks e) t + nmarked e * cnt (delta_kind k) t.
Proof. exact rw_upd_count_le. Qed.
Print Assumptions C16_multiset_delta_tree_partial.

Theorem C16_nested_guarded : forall k e, nonnested e = true -> rw k e = rw_upd k e.
Proof. exact rw_nonnested. Qed.
Print Assumptions C16_nested_guarded.

Corollary C16_multiset_delta_tree_as_written_partial : forall k e t, arg_kind k = true -> nonnested e = true ->
  cnt (toks (rw k e)) t <= cnt (toks e) t + nmarked e * cnt (delta_kind k) t.
Proof. intros k e t Hk Hn. rewrite (rw_nonnested k e Hn). now apply rw_upd_count_le. Qed.
Print Assumptions C16_multiset_delta_tree_as_written_partial.

Definition w_verify' : hkind := HReplace [mkNew (S_ "verify") (EName (S_ "True")) false].
Definition w_inner' : expr :=
  ECall true (EAttr (EName (S_ "requests")) (S_ "get"))
    [mkArg None 0 0 1 (EConst (S_ """u""")); mkArg (Some (S_ "verify")) 0 0 0 (EName (S_ "False"))].

(** nothing disappears: over whole trees, the tokens of the input that are missing from the output are among the old
    values (as they stand after the inner edits) of the arguments that the documented edit of a selected call overwrites *)
Theorem C16_nothing_disappears_tree_partial : forall k e t, lower_kind k = true ->
  cnt (toks e) t <= cnt (toks (rw_upd k e)) t + cnt (lost_tree k e) t.
Proof. exact rw_upd_count_ge. Qed.
Print Assumptions C16_nothing_disappears_tree_partial.
Corollary C16_nothing_disappears_tree_as_written_partial : forall k e t, lower_kind k = true -> nonnested e = true ->
  cnt (toks e) t <= cnt (toks (rw k e)) t + cnt (lost_tree k e) t.
Proof. intros k e t Hk Hn. rewrite (rw_nonnested k e Hn). now apply rw_upd_count_ge. Qed.
Print Assumptions C16_nothing_disappears_tree_as_written_partial.
(** an unselected tree loses nothing at all *)
Example C16_nothing_disappears_example :
  lower_kind w_verify' = true /\ lost_tree w_verify' w_inner' = [TKw (S_ "verify"); TId (S_ "False")] /\
  lost_tree w_verify' (EAttr (ECall false (EName (S_ "f")) [mkArg None 1 0 0 (EName (S_ "xs"))]) (S_ "y")) = [].
Proof. repeat split. Qed.

(** the model of the documented kinds is the documented edit, call by call and over whole trees *)
Theorem C16_edit_is_documented_partial : forall k, documented_kind k = true ->
  (forall u, on_result_found_upd k u = spec_call k u) /\
  (forall e, rw_upd k e = rw_spec k e) /\
  (forall e, nonnested e = true -> rw k e = rw_spec k e).
Proof.
  intros k Hk. split; [apply call_edit_documented; exact Hk|]. split; [intros e; apply rw_upd_is_spec; exact Hk|].
  intros e Hn. rewrite (rw_nonnested k e Hn). apply rw_upd_is_spec. exact Hk.
Qed.
Print Assumptions C16_edit_is_documented_partial.
(** every NewArg list extracted from the source on this run is a documented kind *)
Example C16_edit_is_documented_tables :
  forallb (fun row => documented_kind (HReplace (snd row))) newargs_expr = true /\ documented_kind HCookie = true.
Proof. split; vm_compute; reflexivity. Qed.

(** * witnesses *)
Definition w_verify : hkind := HReplace [mkNew (S_ "verify") (EName (S_ "True")) false].
Definition w_get : expr := EAttr (EName (S_ "requests")) (S_ "get").
Definition w_inner : expr :=
  ECall true w_get [mkArg None 0 0 1 (EConst (S_ """u""")); mkArg (Some (S_ "verify")) 0 0 0 (EName (S_ "False"))].
Definition w_outer : expr :=
  ECall true w_get [mkArg None 0 0 1 (EAttr w_inner (S_ "text")); mkArg (Some (S_ "verify")) 0 0 0 (EName (S_ "False"))].

Example C16_nested_guarded_example : nonnested (EAttr w_inner (S_ "text")) = true /\ nmarked w_inner = 1.
Proof. split; vm_compute; reflexivity. Qed.

(** requests.get(requests.get("u", verify=False).text, verify=False): both calls are selected and reported, the
    inner one is rewritten, and the outer rewrite puts the ORIGINAL inner call back (class kf_nested_selected_calls) *)
Theorem C16_nested_refuted :
  nmarked w_outer = 2 /\ rw w_verify w_inner <> w_inner /\
  rw w_verify w_outer =
    ECall true w_get [mkArg None 0 0 1 (EAttr w_inner (S_ "text")); mkArg (Some (S_ "verify")) 0 0 0 (EName (S_ "True"))] /\
  rw w_verify w_outer <> rw_upd w_verify w_outer.
Proof. repeat split; vm_compute; try reflexivity; discriminate. Qed.
Print Assumptions C16_nested_refuted.

(** ... so a second run over the first run's output changes the file again *)
Theorem C07_nested_refuted :
  redetect_verify w_outer = w_outer /\
  let first := rw w_verify w_outer in
  erase (rw w_verify (redetect_verify first)) <> erase first.
Proof. split; vm_compute; [reflexivity|discriminate]. Qed.
Print Assumptions C07_nested_refuted.

(** * idempotence on one call (C07 kernel) *)
Theorem C07_replace_args_idempotent : forall args info, NoDup (names info) ->
  replace_args (replace_args args info) info = replace_args args info.
Proof. exact replace_args_idempotent. Qed.
Print Assumptions C07_replace_args_idempotent.

Theorem C07_cookie_idempotent : forall m f args,
  let once := on_result_found_upd HCookie (ECall m f args) in
  on_result_found_upd HCookie once = once.
Proof. exact cookie_idempotent. Qed.
Print Assumptions C07_cookie_idempotent.

(** * harden-pyyaml: update_call as on the pinned tree indexes arguments by position (variant PyyamlByIndex) *)
Theorem C16_pyyaml_frame_partial : forall safe a0 a1,
  pyyaml_args PyyamlByIndex [] safe = [mkArg (Some (S_ "Loader")) 0 0 0 safe] /\
  pyyaml_args PyyamlByIndex [a0] safe = [a0; mkArg (Some (S_ "Loader")) 0 0 0 safe] /\
  pyyaml_args PyyamlByIndex [a0; a1] safe = [a0; set_value a1 safe].
Proof. intros. repeat split. Qed.
Print Assumptions C16_pyyaml_frame_partial.

(** whatever the call, exactly two arguments come back: a third one is dropped *)
Theorem C16_pyyaml_drops_args :
  (forall safe args, args <> [] -> length (pyyaml_args PyyamlByIndex args safe) = 2) /\
  exists args a safe,
    nth_error args 2 = Some a /\ ~ In a (pyyaml_args PyyamlByIndex args safe) /\
    (* the tokens of the call are NOT contained in those of the result plus the old value of the second argument *)
    sub_multiset (toks_args args) (toks_args (pyyaml_args PyyamlByIndex args safe) ++ toks_args (firstn 1 (skipn 1 args))) = false.
Proof.
  split.
  - intros safe [|a0 [|a1 r]] H; [contradiction|reflexivity|reflexivity].
  - exists [mkArg None 0 0 1 (EName (S_ "data")); mkArg None 0 0 1 (EAttr (EName (S_ "yaml")) (S_ "Loader"));
            mkArg None 0 0 0 (EName (S_ "extra"))], (mkArg None 0 0 0 (EName (S_ "extra"))),
           (EAttr (EName (S_ "yaml")) (S_ "SafeLoader")).
    split; [reflexivity|]. split; [|vm_compute; reflexivity].
    simpl. intros [H|[H|[]]]; discriminate H.
Qed.
Print Assumptions C16_pyyaml_drops_args.

(** yaml.load(Loader=yaml.Loader, stream=data): the second argument is overwritten whatever its keyword *)
Theorem C16_pyyaml_overwrites_second : exists args safe,
  pyyaml_args PyyamlByIndex args safe =
    [mkArg (Some (S_ "Loader")) 0 0 1 (EAttr (EName (S_ "yaml")) (S_ "Loader")); mkArg (Some (S_ "stream")) 0 0 0 safe] /\
  nth_error args 1 = Some (mkArg (Some (S_ "stream")) 0 0 0 (EName (S_ "data"))).
Proof.
  exists [mkArg (Some (S_ "Loader")) 0 0 1 (EAttr (EName (S_ "yaml")) (S_ "Loader")); mkArg (Some (S_ "stream")) 0 0 0 (EName (S_ "data"))],
         (EAttr (EName (S_ "yaml")) (S_ "SafeLoader")).
  split; reflexivity.
Qed.
Print Assumptions C16_pyyaml_overwrites_second.


(** the statement about the update_call that the source has NOW (Tables.pyyaml_shape) *)
Definition C16_pyyaml_statement (v : pyyaml_variant) : Prop :=
  match v with
  | PyyamlByParameter =>
      (* exactly one argument changes, and only its value: the one written Loader=..., else the second of two plain
         positionals; otherwise Loader=<safe> is appended; every other argument is kept, in place *)
      forall args safe,
        (exists i a, nth_error args i = Some a /\
           pyyaml_args v args safe = firstn i args ++ set_value a safe :: skipn (S i) args /\
           (kw_is (S_ "Loader") a = true \/
            (i = 1 /\ is_plain_positional a = true /\ has_kw (S_ "Loader") args = false))) \/
        (pyyaml_args v args safe = args ++ [mkArg (Some (S_ "Loader")) 0 0 0 safe] /\ has_kw (S_ "Loader") args = false)
  | PyyamlByIndex =>
      (exists args a safe, nth_error args 2 = Some a /\ ~ In a (pyyaml_args v args safe)) /\
      (exists args safe a1, nth_error args 1 = Some a1 /\ kw a1 = Some (S_ "stream") /\
                            nth_error (pyyaml_args v args safe) 1 = Some (set_value a1 safe))
  end.
Lemma C16_pyyaml_all v : C16_pyyaml_statement v.
Proof.
  destruct v; unfold C16_pyyaml_statement.
  - split.
    + destruct C16_pyyaml_drops_args as [_ [args [a [safe [H1 [H2 _]]]]]]. exists args, a, safe. split; assumption.
    + destruct C16_pyyaml_overwrites_second as [args [safe [H1 H2]]].
      exists args, safe, (mkArg (Some (S_ "stream")) 0 0 0 (EName (S_ "data"))). rewrite H1. repeat split. exact H2.
  - intros args safe. exact (set_param_cases (S_ "Loader") 1 safe args).
Qed.
Theorem C16_pyyaml_edit : C16_pyyaml_statement pyyaml_shape.
Proof. exact (C16_pyyaml_all pyyaml_shape). Qed.
Print Assumptions C16_pyyaml_edit.
Example C16_pyyaml_edit_example :
  pyyaml_args PyyamlByParameter
    [mkArg (Some (S_ "Loader")) 0 3 1 (EAttr (EName (S_ "yaml")) (S_ "Loader")); mkArg (Some (S_ "stream")) 0 0 0 (EName (S_ "data"))]
    (EAttr (EName (S_ "yaml")) (S_ "SafeLoader")) =
    [mkArg (Some (S_ "Loader")) 0 3 1 (EAttr (EName (S_ "yaml")) (S_ "SafeLoader")); mkArg (Some (S_ "stream")) 0 0 0 (EName (S_ "data"))].
Proof. reflexivity. Qed.

(** * upgrade-sslcontext-tls: with two arguments the positional protocol stays and protocol= is appended as well *)
Theorem C16_ssl_two_positional : exists o safe,
  args_of (on_result_found (HSslTls safe) o o) =
    [mkArg None 0 0 1 (EAttr (EName (S_ "ssl")) (S_ "PROTOCOL_SSLv3")); mkArg None 2 0 0 (EName (S_ "opts"));
     mkArg (Some (S_ "protocol")) 0 0 0 safe].
Proof.
  exists (ECall true (EAttr (EName (S_ "ssl")) (S_ "SSLContext"))
            [mkArg None 0 0 1 (EAttr (EName (S_ "ssl")) (S_ "PROTOCOL_SSLv3")); mkArg None 2 0 0 (EName (S_ "opts"))]),
         (EAttr (EName (S_ "ssl")) (S_ "PROTOCOL_TLS_CLIENT")).
  reflexivity.
Qed.
Print Assumptions C16_ssl_two_positional.
(** the shapes on which it is right: no argument, one positional, or protocol= present *)
Theorem C16_ssl_frame_partial : forall safe m f v s l sp' l',
  on_result_found_upd (HSslTls safe) (ECall m f []) = ECall m f [mkArg (Some (S_ "protocol")) 0 0 0 safe] /\
  on_result_found_upd (HSslTls safe) (ECall m f [mkArg None s sp' l v]) = ECall m f [mkArg None 0 0 0 safe] /\
  on_result_found_upd (HSslTls safe) (ECall m f [mkArg (Some (S_ "protocol")) 0 sp' l' v]) =
    ECall m f [mkArg (Some (S_ "protocol")) 0 sp' 0 safe].
Proof. intros. repeat split. Qed.
Print Assumptions C16_ssl_frame_partial.

(** * limit-readline: update_arg_target replaces the whole list *)
Theorem C16_limit_readline_frame_partial : forall lim o m f,
  on_result_found (HLimitReadline lim) o (ECall m f []) = ECall m f [mkArg None 0 0 0 lim].
Proof. reflexivity. Qed.
Print Assumptions C16_limit_readline_frame_partial.
Theorem C16_limit_readline_overwrites : forall lim o m f a args,
  args_of (on_result_found (HLimitReadline lim) o (ECall m f (a :: args))) = [mkArg None 0 0 0 lim].
Proof. reflexivity. Qed.
Print Assumptions C16_limit_readline_overwrites.

(** * jwt-decode-verify: the options dict display *)
(** _replace_opts_dict raises (file left untouched, listed as failed) exactly when the dict has a `**spread` entry;
    otherwise the result is the documented edit entry by entry: same length and order, string keys mentioning
    "verify" get the value True, every other entry is returned as it was. *)
Theorem C16_jwt_opts_frame : forall els,
  replace_opts_dict els = (if existsb is_spread els then None else Some (spec_opts els)) /\
  forall r, replace_opts_dict els = Some r ->
    length r = length els /\
    (forall i d, nth_error els i = Some d -> nth_error r i = Some (spec_elem d)) /\
    (forall i d, nth_error els i = Some d -> is_verify d = false -> nth_error r i = Some d).
Proof. intros els. split; [apply replace_opts_dict_spec|apply replace_opts_dict_frame]. Qed.
Print Assumptions C16_jwt_opts_frame.

(** what the property demands of any rewrite of the dict: a `**spread` entry stays where it is *)
Theorem C16_jwt_spread_preserved : forall els i l e,
  nth_error els i = Some (DSpread l e) -> nth_error (spec_opts els) i = Some (DSpread l e).
Proof. intros els i l e H. unfold spec_opts. rewrite nth_error_map, H. reflexivity. Qed.
Print Assumptions C16_jwt_spread_preserved.

Theorem C16_jwt_opts_multiset : forall els r t, replace_opts_dict els = Some r ->
  cnt (toks_dict r) t + cnt (verify_values els) t = cnt (toks_dict els) t + n_verify els * cnt [TId (S_ "True")] t.
Proof.
  intros els r t H. rewrite replace_opts_dict_spec in H. destruct (existsb is_spread els); [discriminate|].
  inversion H; subst. apply spec_opts_count.
Qed.
Print Assumptions C16_jwt_opts_multiset.

(** replace_options_arg: every other argument of the call is returned as it was, in place; `options={...}` keeps its `=` tag *)
Theorem C16_jwt_options_arg_frame : forall args r, replace_options_arg args = Some r ->
  length r = length args /\
  (forall i a, nth_error args i = Some (JOther a) -> nth_error r i = Some (JOther a)) /\
  (forall i sp lay els, nth_error args i = Some (JOptions sp lay els) ->
     existsb is_spread els = false /\ nth_error r i = Some (JOptions sp 0 (spec_opts els))).
Proof. exact replace_options_arg_frame. Qed.
Print Assumptions C16_jwt_options_arg_frame.

Example C16_jwt_opts_example :
  let leeway := DKey true (S_ """leeway""") 1 (EConst (S_ "10")) in
  let vexp := DKey true (S_ """verify_exp""") 1 (EName (S_ "False")) in
  replace_opts_dict [leeway; vexp; DKey false (S_ "verify_k") 0 (EName (S_ "False"))]
    = Some [leeway; DKey true (S_ """verify_exp""") 0 (EName (S_ "True")); DKey false (S_ "verify_k") 0 (EName (S_ "False"))] /\
  replace_opts_dict [DSpread 1 (EName (S_ "BASE")); vexp] = None.
Proof. split; vm_compute; reflexivity. Qed.

(** * replace-flask-send-file: utils.positional_to_keyword (table-indexed on its shape, Tables.p2k_shape) *)
(** Whatever the variant, a result only differs from the input in keywords: stars, values, layout tags and the order of
    ALL arguments are kept, and keyword arguments are returned as they were.  As written (P2kRaisesOnStar) the function
    raises on a starred argument (the file is reported as failed and left untouched — allowed); a variant that handles
    stars (P2kCarriesOver) must be total. *)
Definition C16_p2k_statement (v : p2k_variant) : Prop :=
  (forall args m seen r, positional_to_keyword v seen args m = Some r ->
     map strip_kw r = map strip_kw args /\
     (forall i a, nth_error args i = Some a -> kw a <> None -> nth_error r i = Some a)) /\
  match v with
  | P2kCarriesOver => forall args m, exists r, positional_to_keyword v false args m = Some r
  | P2kRaisesOnStar => exists args m, positional_to_keyword v false args m = None
  end.
Lemma C16_p2k_all v : C16_p2k_statement v.
Proof.
  split.
  - intros args m seen r H. split; [exact (p2k_only_keywords v args m seen r H)|exact (p2k_keeps_keyword_args v args m seen r H)].
  - destruct v.
    + exists [mkArg None 2 0 0 (EName (S_ "kw"))], [Some (S_ "mimetype")]. reflexivity.
    + intros args m. apply p2k_carries_total.
Qed.
Theorem C16_p2k_frame : C16_p2k_statement p2k_shape.
Proof. exact (C16_p2k_all p2k_shape). Qed.
Print Assumptions C16_p2k_frame.
(** the documented reading: once a starred argument is met, it and everything after it is carried over untouched *)
Theorem C16_p2k_carries_after_star : forall args m, positional_to_keyword P2kCarriesOver true args m = Some args.
Proof. exact p2k_carries_after_star. Qed.
Print Assumptions C16_p2k_carries_after_star.
(** as written and without starred arguments, a result is the documented one *)
Theorem C16_p2k_as_written_agrees : forall args m r, positional_to_keyword P2kRaisesOnStar false args m = Some r ->
  forallb (fun a => N.eqb (star a) 0) args = true -> positional_to_keyword P2kCarriesOver false args m = Some r.
Proof. intros args m r H Hs. exact (p2k_raises_agrees args m false r H eq_refl Hs). Qed.
Print Assumptions C16_p2k_as_written_agrees.
Example C16_p2k_example :
  let m := [Some (S_ "mimetype"); Some (S_ "as_attachment")] in
  let t := mkArg None 0 0 1 (EConst (S_ "'text/plain'")) in
  let k := mkArg None 2 0 0 (EName (S_ "kw")) in
  positional_to_keyword P2kCarriesOver false [t; k] m = Some [set_kw t (S_ "mimetype"); k] /\
  positional_to_keyword P2kRaisesOnStar false [t; k] m = None /\
  positional_to_keyword P2kRaisesOnStar false [t] m = Some [set_kw t (S_ "mimetype")].
Proof. repeat split. Qed.
