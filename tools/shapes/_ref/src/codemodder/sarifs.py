import json
from abc import ABCMeta, abstractmethod
from collections import defaultdict
from importlib.metadata import entry_points
from pathlib import Path
from typing import DefaultDict

from codemodder.logging import logger


class AbstractSarifToolDetector(metaclass=ABCMeta):
    @classmethod
    @abstractmethod
    def detect(cls, run_data: dict) -> bool:
        pass


class DuplicateToolError(ValueError): ...


def detect_sarif_tools(filenames: list[Path]) -> DefaultDict[str, list[str]]:
    results: DefaultDict[str, list[str]] = defaultdict(list)

    logger.debug("loading registered SARIF tool detectors")
    detectors = {
        ent.name: ent.load() for ent in entry_points().select(group="sarif_detectors")
    }
    for fname in filenames:
        data = json.loads(fname.read_text(encoding="utf-8-sig"))
        for name, det in detectors.items():
            # TODO: handle malformed sarif?
            for run in data["runs"]:
                try:
                    if det.detect(run):
                        logger.debug("detected %s sarif: %s", name, fname)
                        # According to the Codemodder spec, it is invalid to have multiple SARIF results for the same tool
                        # https://github.com/pixee/codemodder-specs/pull/36
                        if name in results:
                            raise DuplicateToolError(
                                f"duplicate tool sarif detected: {name}"
                            )
                        results[name].append(str(fname))
                except DuplicateToolError as err:
                    raise err
                except (KeyError, AttributeError, ValueError):
                    continue

    return results
