(** JwtOpts.v — jwt-decode-verify's rewriting of the `options={...}` dict display (C16).

    Mirrors core_codemods/jwt_decode_verify.py as written:
      is_verify_keyword(element)  = matches(element.key, SimpleString()) and "verify" in element.key.value
                                    (a `**spread` entry is a cst.StarredDictElement: it has no .key -> AttributeError,
                                     the transformer raises, the file is left untouched and listed as failed)
      _replace_opts_dict(dict)    = every verify entry rebuilt as DictElement(key=parse(key text), value=True), others kept
      replace_options_arg(args)   = every argument `options=<dict display>` rebuilt as Arg(options, Dict(new elements), equal kept)
    Definitions only. *)
From CM Require Export Model.Args.
From Coq Require Strings.String.
Import String.StringSyntax.

(** One entry of a dict display.  [DKey simple key lay v]: `key: v` where [key] is the source text of the key expression
    and [simple] says whether it is a plain string literal (cst.SimpleString); [DSpread lay e]: `**e`.
    [lay]: opaque tag of the entry's comma / colon whitespace, 0 for a freshly built cst.DictElement. *)
Inductive delem :=
| DKey (simple : bool) (key : str) (lay : N) (v : expr)
| DSpread (lay : N) (e : expr).

Fixpoint is_prefix (p s : str) : bool :=
  match p, s with
  | [], _ => true
  | x :: p', y :: s' => N.eqb x y && is_prefix p' s'
  | _ :: _, [] => false
  end.
(** Python's `p in s` on strings *)
Fixpoint contains (p s : str) : bool :=
  is_prefix p s || match s with [] => false | _ :: r => contains p r end.

(** None = AttributeError *)
Definition is_verify_keyword (d : delem) : option bool :=
  match d with
  | DKey simple k _ _ => Some (simple && contains (S_ "verify") k)
  | DSpread _ _ => None
  end.

Definition rebuilt (d : delem) : delem :=
  match d with
  | DKey _ k _ _ => DKey true k 0 (EName (S_ "True"))
  | DSpread _ _ => d
  end.

(** _replace_opts_dict; None = the exception propagates (LibcstTransformerPipeline.apply: "Failed to transform file") *)
Fixpoint replace_opts_dict (els : list delem) : option (list delem) :=
  match els with
  | [] => Some []
  | d :: r =>
      match is_verify_keyword d with
      | None => None
      | Some b =>
          match replace_opts_dict r with
          | None => None
          | Some r' => Some ((if b then rebuilt d else d) :: r')
          end
      end
  end.

(** the arguments of the call as replace_options_arg sees them *)
Inductive jwt_arg :=
| JOther (a : arg)                                 (* anything that is not `options=<dict display>` *)
| JOptions (sp lay : N) (els : list delem).        (* options={...} with its `=` tag and comma tag *)

Fixpoint replace_options_arg (args : list jwt_arg) : option (list jwt_arg) :=
  match args with
  | [] => Some []
  | JOther a :: r => match replace_options_arg r with Some r' => Some (JOther a :: r') | None => None end
  | JOptions sp _ els :: r =>
      match replace_opts_dict els, replace_options_arg r with
      | Some els', Some r' => Some (JOptions sp 0 els' :: r')
      | _, _ => None
      end
  end.

(** tokens of a dict display: string keys are constants, values and spreads contribute theirs *)
Definition toks_delem (d : delem) : list tok :=
  match d with
  | DKey _ k _ v => TConst k :: toks v
  | DSpread _ e => toks e
  end.
Definition toks_dict (els : list delem) : list tok := flat_map toks_delem els.
