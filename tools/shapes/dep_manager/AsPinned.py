class DependencyManager:
    def __init__(self, dependencies_store: PackageStore, parent_directory: Path):
        self.dependencies_store = dependencies_store
        self.parent_directory = parent_directory
    def write(
        self, dependencies: list[Dependency], dry_run: bool = False
    ) -> Optional[ChangeSet]:
        """
        Write `dependencies` to the appropriate location in the project.
        """
        match self.dependencies_store.type:
            case FileType.REQ_TXT:
                return RequirementsTxtWriter(
                    self.dependencies_store, self.parent_directory
                ).write(dependencies, dry_run)
            case FileType.TOML:
                return PyprojectWriter(
                    self.dependencies_store, self.parent_directory
                ).write(dependencies, dry_run)
            case FileType.SETUP_PY:
                return SetupPyWriter(
                    self.dependencies_store, self.parent_directory
                ).write(dependencies, dry_run)
            case FileType.SETUP_CFG:
                return SetupCfgWriter(
                    self.dependencies_store, self.parent_directory
                ).write(dependencies, dry_run)
        return None
