import libcst as cst
from libcst import UnaryOperation

from codemodder.codemods.libcst_transformer import (
    LibcstResultTransformer,
    LibcstTransformerPipeline,
)
from codemodder.codemods.utils_mixin import NameResolutionMixin
from core_codemods.api import Metadata, Reference, ReviewGuidance
from core_codemods.api.core_codemod import CoreCodemod


class NumpyNanEqualityTransformer(LibcstResultTransformer, NameResolutionMixin):
    change_description = "Replaces == check with numpy.isnan()."

    np_nan = "numpy.nan"

    def _build_nan_comparison(
        self, nan_node, node, preprend_not, lpar, rpar
    ) -> cst.BaseExpression:
        if maybe_numpy_alias := self.find_alias_for_import_in_node("numpy", nan_node):
            call = cst.parse_expression(f"{maybe_numpy_alias}.isnan()")
        else:
            self.add_needed_import("numpy")
            self.remove_unused_import(nan_node)
            call = cst.parse_expression("numpy.isnan()")
        call = call.with_changes(args=[cst.Arg(value=node)])
        if preprend_not:
            return UnaryOperation(
                operator=cst.Not(), expression=call, lpar=lpar, rpar=rpar
            )
        return call.with_changes(lpar=lpar, rpar=rpar)

    def _is_np_nan_eq(self, left: cst.BaseExpression, target: cst.ComparisonTarget):
        if isinstance(target.operator, cst.Equal | cst.NotEqual):
            right = target.comparator
            left_name = self.find_base_name(left)
            right_name = self.find_base_name(right)
            if self.np_nan == left_name:
                return left, right
            if self.np_nan == right_name:
                return right, left
        return None

    def leave_Comparison(
        self, original_node: cst.Comparison, updated_node: cst.Comparison
    ) -> cst.BaseExpression:
        if self.node_is_selected(original_node):
            match original_node:
                case cst.Comparison(comparisons=[cst.ComparisonTarget() as target]):
                    maybe_nan_eq = self._is_np_nan_eq(original_node.left, target)
                    if maybe_nan_eq:
                        nan_node, node = maybe_nan_eq
                        self.report_change(original_node)
                        return self._build_nan_comparison(
                            nan_node,
                            node,
                            isinstance(target.operator, cst.NotEqual),
                            lpar=original_node.lpar,
                            rpar=original_node.rpar,
                        )
        return updated_node


NumpyNanEquality = CoreCodemod(
    metadata=Metadata(
        name="numpy-nan-equality",
        summary="Replace == comparison with numpy.isnan()",
        review_guidance=ReviewGuidance.MERGE_WITHOUT_REVIEW,
        references=[
            Reference(
                url="https://numpy.org/doc/stable/reference/constants.html#numpy.nan"
            ),
        ],
    ),
    transformer=LibcstTransformerPipeline(NumpyNanEqualityTransformer),
    detector=None,
)
