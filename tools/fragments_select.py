# Fragments of src/codemodder/registry.py (+ the sast_only argument in codemodder.run) for Model/Select.v (C17).
# exec'd inside tools/translate.py: shape/literal/custom/Unrecognised/norm_dump/find_def/find_assign/SHAPES are in scope.
TABLE_IMPORTS.append("From CM Require Import Base.Types_Select.")

literal("select_default_excluded", "src/codemodder/registry.py", ["C17"],
        "default_excluded_codemods", "list str",
        ["pixee:python/order-imports", "pixee:python/unused-imports", "pixee:python/fix-empty-sequence-comparison"],
        "DEFAULT_EXCLUDED_CODEMODS", coq_str_list,
        doc="DEFAULT_EXCLUDED_CODEMODS")


def _sel_is_strlist(v):
    return isinstance(v, list) and all(isinstance(x, str) for x in v)


def _sel_parts(fn):
    """match_codemods = signature + prologue (two `x = x or ...`) + `if` (exclude branch) + the rest (include branch)."""
    import copy
    body = [s for s in fn.body if not _is_docstring(s)]
    if len(body) < 4 or not isinstance(body[2], ast.If):
        raise Unrecognised("match_codemods is not `prologue; if <exclude branch>; <include branch>`")
    sig = copy.deepcopy(fn)
    sig.body = [ast.Pass()]
    sig.decorator_list = []
    mod = lambda stmts: ast.Module(body=copy.deepcopy(stmts), type_ignores=[])
    return {"signature": norm_dump(sig), "prologue": norm_dump(mod(body[:2])),
            "exclude": norm_dump(mod([body[2]])), "include": norm_dump(mod(body[3:]))}


def _sel_uses(fn_part_dump, name):
    return f"id='{name}'" in fn_part_dump


_SEL_CACHE = {}


def _sel_analyse(tree, repo):
    key = str(repo)
    if key in _SEL_CACHE:
        return _SEL_CACHE[key]
    fn = find_def(tree, "CodemodRegistry.match_codemods")
    if fn is None:
        raise Unrecognised("CodemodRegistry.match_codemods not found")
    got = _sel_parts(fn)
    wp = find_def(tree, "_wildcard_pattern")
    got_wp = norm_dump(wp) if wp is not None else None
    known = []
    known_wp = None
    for f in sorted((SHAPES / "select_match_codemods").glob("*.py")):
        t = ast.parse(f.read_text())
        tags = ast.literal_eval(find_assign(t, "TAGS"))
        known.append((f.stem, tags, _sel_parts(find_def(t, "match_codemods"))))
        w = find_def(t, "_wildcard_pattern")
        if w is not None:
            known_wp = norm_dump(w)
    ref = known[0][2]
    if got["signature"] != ref["signature"]:
        raise Unrecognised("signature of match_codemods differs from (self, codemod_include=None, codemod_exclude=None, sast_only=False)")
    if got["prologue"] != ref["prologue"]:
        raise Unrecognised("prologue of match_codemods is not `codemod_include = codemod_include or []; codemod_exclude = codemod_exclude or DEFAULT_EXCLUDED_CODEMODS`")
    res = {}
    for part, keys in (("exclude", ["exclude_matcher"]), ("include", ["include_matcher", "include_dedup"])):
        hit = [tags for (_, tags, parts) in known if parts[part] == got[part]]
        err = None
        if not hit:
            err = f"{part} branch of match_codemods matches no known shape"
        elif _sel_uses(got[part], "_wildcard_pattern") and got_wp != known_wp:
            err = "_wildcard_pattern is used but its definition is not the known `.*`.join(re.escape(part) ...)"
        for k in keys:
            res[k] = ("err", err) if err else ("ok", hit[0][k])
    _SEL_CACHE[key] = res
    return res


def _sel_component(k):
    def fn(tree, repo):
        st, v = _sel_analyse(tree, repo)[k]
        if st == "err":
            raise Unrecognised(v)
        return v
    return fn


_SEL_DEFS = "CodemodRegistry.match_codemods + _wildcard_pattern"
custom("select_include_matcher", "src/codemodder/registry.py", ["C17"], "include_matcher", "matcher_kind", "FullGlob",
       _sel_component("include_matcher"), doc=_SEL_DEFS + ": how a `*` item of --codemod-include is matched")
custom("select_include_dedup", "src/codemodder/registry.py", ["C17"], "include_dedup", "bool", True,
       _sel_component("include_dedup"), printer=lambda b: "true" if b else "false",
       doc=_SEL_DEFS + ": include branch keeps the first occurrence only (dict.setdefault) / appends every match")
custom("select_exclude_matcher", "src/codemodder/registry.py", ["C17"], "exclude_matcher", "matcher_kind", "FullGlob",
       _sel_component("exclude_matcher"), doc=_SEL_DEFS + ": how a `*` item of --codemod-exclude is matched")

shape("select_context", "src/codemodder/registry.py", ["C17"], "registry_is_ordered_dict", "bool", "true",
      ["CodemodRegistry.__init__", "CodemodRegistry.ids", "CodemodRegistry.codemods", "CodemodRegistry.add_codemod_collection"],
      doc="CodemodRegistry: codemods/ids are the values/keys of the dict _codemods_by_id; a second registration of an id raises")



def _sel_sast_sources(tree, repo):
    """codemodder.run: `codemod_registry.match_codemods(argv.codemod_include, argv.codemod_exclude, sast_only=<argv.a or argv.b ...>)`"""
    run = find_def(tree, "run")
    if run is None:
        raise Unrecognised("codemodder.run not found")
    calls = [n for n in ast.walk(run) if isinstance(n, ast.Call) and isinstance(n.func, ast.Attribute) and n.func.attr == "match_codemods"]
    if len(calls) != 1:
        raise Unrecognised(f"expected exactly one call of match_codemods in run, found {len(calls)}")
    c = calls[0]

    def argv_attr(e):
        if isinstance(e, ast.Attribute) and isinstance(e.value, ast.Name) and e.value.id == "argv":
            return e.attr
        raise Unrecognised("argument of match_codemods is not argv.<name>: " + ast.dump(e))
    if [argv_attr(a) for a in c.args] != ["codemod_include", "codemod_exclude"]:
        raise Unrecognised("positional arguments of match_codemods are not (argv.codemod_include, argv.codemod_exclude)")
    if len(c.keywords) != 1 or c.keywords[0].arg != "sast_only":
        raise Unrecognised("match_codemods is not called with exactly the keyword sast_only")
    v = c.keywords[0].value
    if isinstance(v, ast.BoolOp) and isinstance(v.op, ast.Or):
        return [argv_attr(x) for x in v.values]
    return [argv_attr(v)]


custom("select_sast_only", "src/codemodder/codemodder.py", ["C17"], "sast_only_sources", "list str",
       ["sonar_issues_json", "sarif"], _sel_sast_sources, printer=coq_str_list,
       doc="run: sast_only=argv.<a> or argv.<b> ... passed to match_codemods")

shape("select_registry_iteration", "src/codemodder/registry.py", ["C17"], "select_registry_iteration", "iter_form", "Deterministic",
      ["load_registered_codemods"],
      doc="load_registered_codemods: collections iterated over a set (hash order) or in entry-point order")
