(** What C19 demands of the regex pipelines, stated on observables only, independently of the loops:
    given the original lines, which line numbers are TARGETED and the per-line substitution,
    - the updated text is the original with each targeted line replaced by its substitution,
    - an EDIT is a 1-based position where original and updated line differ,
    - there is one change per edit, in order, carrying the findings whose range contains that line number,
    - a targeted line the pattern did not change is reported unfixed with the findings of that line. *)
From CM Require Export Model.RegexPipe.

Fixpoint number_from {A} (k : N) (l : list A) : list (N * A) :=
  match l with [] => [] | x :: r => (k, x) :: number_from (k + 1) r end.

(** 1-based positions at which two line lists differ *)
Definition edited_lines (orig upd : list str) : list N :=
  map fst (List.filter (fun p => negb (str_eqb (fst (snd p)) (snd (snd p)))) (number_from 1 (List.combine orig upd))).

Section Spec.
  Variable sub : str -> str.
  Variable fc_results : list result.
  Variable targeted : N -> bool.       (* 1-based line number -> is this line a target *)

  Definition spec_updated (lines : list str) : list str :=
    map (fun p => if targeted (fst p) then sub (snd p) else snd p) (number_from 1 lines).
  Definition spec_changes (lines : list str) : list change :=
    map (fun n => {| c_line := n; c_findings := findings_for_location fc_results n |})
        (edited_lines lines (spec_updated lines)).
  Definition spec_unfixed (lines : list str) : list unfixed :=
    flat_map (fun p => if targeted (fst p) && str_eqb (snd p) (sub (snd p))
                       then map (fun f => (f, fst p)) (findings_for_location fc_results (fst p)) else [])
             (number_from 1 lines).
  (** file content after the call *)
  Definition spec_file (dry_run : bool) (lines : list str) : str :=
    if dry_run then concat lines else concat (spec_updated lines).
End Spec.

Definition all_lines (n : N) : bool := true.
Definition sast_targets (results : list result) (n : N) : bool := mem_N n (start_lines results).

(** ** the property's own words for the SAST class: "edit only ... lines that carry a finding".
    This is an upper bound on the edits, not a prescription of which carrying lines must be edited.  A line CARRIES a
    finding when a location of a result handed to the pipeline contains it (start.line <= n <= end.line) or starts on it.
    The code targets the START lines only ([sast_targets]), a subset of the carrying lines; for a finding that spans
    several lines the later lines carry it too but are left alone, which the text allows (edits are still only on
    carrying lines).  [admissible] is the text's reading: same number of lines, every line either identical or a
    candidate line replaced by its substitution. *)
Definition carries (results : list result) (n : N) : bool :=
  existsb (fun r => existsb (fun l => loc_contains n l || (fst l =? n)%N) (r_locs r)) results.

Fixpoint admissible_from (sub : str -> str) (cand : N -> bool) (k : N) (lines upd : list str) : bool :=
  match lines, upd with
  | [], [] => true
  | l :: ls, u :: us => (str_eqb u l || (cand k && str_eqb u (sub l))) && admissible_from sub cand (k + 1) ls us
  | _, _ => false
  end.
Definition admissible (sub : str -> str) (cand : N -> bool) (lines upd : list str) : bool :=
  admissible_from sub cand 1 lines upd.
