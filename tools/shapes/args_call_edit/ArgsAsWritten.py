class LibcstResultTransformer:
    def add_arg_to_call(self, node: cst.Call, name: str, value):
        """
        Add a new arg to the end of the args list.
        """
        new_args = list(node.args) + [
            cst.Arg(
                keyword=cst.Name(value=name),
                value=cst.parse_expression(str(value)),
                equal=cst.AssignEqual(
                    whitespace_before=cst.SimpleWhitespace(""),
                    whitespace_after=cst.SimpleWhitespace(""),
                ),
            )
        ]
        return node.with_changes(args=new_args)

    def update_call_target(
        self,
        original_node,
        new_target,
        new_func: str | None = None,
        replacement_args=None,
    ):
        # TODO: is an assertion the best way to handle this?
        # Or should we just return the original node if it's not a Call?
        assert isinstance(original_node, cst.Call)

        func_name = new_func if new_func else get_call_name(original_node)
        return cst.Call(
            func=cst.Attribute(
                value=cst.parse_expression(new_target),
                attr=cst.Name(value=func_name),
            ),
            args=replacement_args if replacement_args else original_node.args,
        )

    def update_arg_target(self, updated_node, new_args: list):
        return updated_node.with_changes(
            args=[new if isinstance(new, cst.Arg) else cst.Arg(new) for new in new_args]
        )

