"""C12, readers half: generated Sonar / SARIF (Semgrep, CodeQL) / DefectDojo documents through the real readers
vs the Coq reader models (model_ok) and the reference extraction (spec_ok)."""
from __future__ import annotations

import json
from pathlib import Path

from harness import core
from harness.core import cZ, clist, cpair, cstr

IMPORTS = "From CM Require Import Harness.RunBase Harness.C12_readers_run Model.Readers Model.Sarif.\n"

RULES = ["python:S5659", "python:S2068", "pythonsecurity:S3649", "python:S1"]
FILES = ["proj:src/a.py", "proj:b.py", "c.py", "org:proj:d/e.py"]
STATUSES = ["OPEN", "open", "TO_REVIEW", "To_Review", "RESOLVED", "CLOSED", "REVIEWED", "CONFIRMED"]


def cjson(v) -> str:
    if v is None:
        return "JNull"
    if isinstance(v, bool):
        return f"(JBool {core.cbool(v)})"
    if isinstance(v, int):
        return f"(JNum {cZ(v)})"
    if isinstance(v, str):
        return f"(JStr {cstr(v)})"
    if isinstance(v, list):
        return "(JArr " + clist([cjson(x) for x in v], "json") + ")"
    if isinstance(v, dict):
        return "(JObj " + clist([cpair(cstr(k), cjson(x)) for k, x in v.items()], "str * json") + ")"
    raise TypeError(v)


def cfinding(f) -> str:
    rule, fid, file, sl, sc, el, ec = f
    return ("{| f_rule := %s; f_id := %s; f_file := %s; f_sl := %s; f_sc := %s; f_el := %s; f_ec := %s |}"
            % (cstr(rule), cjson(fid), cstr(file), cjson(sl), cjson(sc), cjson(el), cjson(ec)))


def observe(rs):
    out = []
    for rule, d in rs.items():
        for file, lst in d.items():
            for r in lst:
                for loc in r.locations:
                    if loc.file == file:
                        out.append((r.rule_id, r.finding_id, str(file), loc.start.line, loc.start.column, loc.end.line, loc.end.column))
                        break
    return out


def observe_exact(rs):
    """One observation per (result, location filed under this key) — a result with two locations in one file is filed twice."""
    out = []
    for rule, d in rs.items():
        for file, lst in d.items():
            seen = {}
            for r in lst:
                locs = [l for l in r.locations if l.file == file]
                i = seen.get(id(r), 0)
                seen[id(r)] = i + 1
                loc = locs[i] if i < len(locs) else locs[-1]
                out.append((r.rule_id, r.finding_id, str(file), loc.start.line, loc.start.column, loc.end.line, loc.end.column))
    return out


# ---------------------------------------------------------------------------------------------- Sonar
def gen_sonar_entry(rng, i, hotspot):
    e = {}
    rule = rng.choice(RULES)
    if hotspot:
        e["ruleKey"] = rule
        if rng.random() < 0.15:
            e["rule"] = rng.choice([None, ""])
    else:
        e["rule"] = rule
    e["status"] = rng.choice(STATUSES)
    if rng.random() < 0.85:
        e["key"] = f"K{i}"
    if rng.random() < 0.7:
        e["message"] = f"msg {i}"
    e["component"] = rng.choice(FILES)
    r = rng.random()
    if r < 0.8:
        sl = rng.randint(1, 30)
        e["textRange"] = {"startLine": sl, "endLine": sl + rng.choice([0, 0, 1]), "startOffset": rng.randint(0, 40), "endOffset": rng.randint(0, 80)}
        if rng.random() < 0.1:
            del e["textRange"]["endOffset"]
    elif r < 0.9:
        e["textRange"] = rng.choice([None, {}])
    if rng.random() < 0.3:
        good = {"component": e["component"], "textRange": {"startLine": 1, "endLine": 1, "startOffset": 0, "endOffset": 1}}
        # code flows are built (and can raise) for every open entry although they are not findings; mostly well-formed,
        # sometimes each of the shapes SonarLocation.from_json_location / the comprehensions trip over
        e["flows"] = rng.choice([
            [{"locations": [good]}], [{"locations": [good]}], [{"locations": [good, dict(good)]}, {"locations": []}], [], [{}],
            [{"locations": [{"component": e["component"], "msg": "x"}]}],                 # no textRange
            [{"locations": [{"textRange": good["textRange"]}]}],                          # no component
            [{"locations": [dict(good, textRange={})]}], [{"locations": [dict(good, textRange=None)]}],
            [{"locations": None}], [{"locations": {}}], [{"locations": {"a": 1}}], [{"locations": ""}], [{"locations": [7]}],
            None, {}, {"a": 1}, "", "x", 3, ["x"], [None],
        ])
    if rng.random() < 0.12:
        e["message"] = rng.choice([5, 0, None, "", [], ["m"], {}, {"m": 1}, True, False])
    return e


def gen_sonar_doc(rng, malformed=False):
    doc = {}
    shape = rng.choice(["both", "both", "issues", "hotspots", "empty_issues_hotspots", "null_issues", "neither"])
    ni, nh = rng.randint(1, 4), rng.randint(1, 4)
    if shape in ("both", "issues"):
        doc["issues"] = [gen_sonar_entry(rng, i, False) for i in range(ni)]
    if shape in ("both", "hotspots"):
        doc["hotspots"] = [gen_sonar_entry(rng, 100 + i, True) for i in range(nh)]
    if shape == "empty_issues_hotspots":
        doc["issues"] = []
        doc["hotspots"] = [gen_sonar_entry(rng, 100 + i, True) for i in range(nh)]
    if shape == "null_issues":
        doc["issues"] = None
        doc["hotspots"] = [gen_sonar_entry(rng, 100 + i, True) for i in range(nh)]
    doc["total"] = ni
    if malformed:
        kind = rng.choice(["no_status", "rule_no_colon", "status_int", "issues_dict", "entry_str", "component_missing"])
        tgt = (doc.get("issues") or doc.get("hotspots") or [None])
        if kind == "issues_dict":
            doc["issues"] = {"a": 1}
        elif tgt and isinstance(tgt[0], dict):
            e = tgt[rng.randrange(len(tgt))]
            if kind == "no_status":
                e.pop("status", None)
            elif kind == "rule_no_colon":
                e["rule"] = "S1234"
                e.pop("ruleKey", None)
            elif kind == "status_int":
                e["status"] = 3
            elif kind == "component_missing":
                e.pop("component", None)
                e["textRange"] = {"startLine": 1, "endLine": 1, "startOffset": 0, "endOffset": 1}
            elif kind == "entry_str":
                tgt[0] = "x"
        return shape + "+" + kind, doc
    return shape, doc


# ---------------------------------------------------------------------------------------------- SARIF
def gen_sarif_loc(rng, codeql):
    region = {"startLine": rng.randint(1, 40), "startColumn": rng.randint(1, 30), "endLine": rng.randint(1, 40), "endColumn": rng.randint(1, 60)}
    if codeql:
        for k in ("startColumn", "endLine", "endColumn"):
            if rng.random() < 0.25:
                del region[k]
    if rng.random() < 0.3:
        region["snippet"] = {"text": "x = 1"}
    pl = {"artifactLocation": {"uri": rng.choice(["src/a.py", "b.py", "d/e.py"])}, "region": region}
    if codeql and rng.random() < 0.15:
        del pl["region"]
    return {"physicalLocation": pl}


def gen_sarif_run(rng, tool):
    name = {"semgrep": rng.choice(["Semgrep OSS", "semgrep"]), "codeql": "CodeQL", "other": rng.choice(["Snyk", "bandit"])}[tool]
    rules = ["python.lang.security.audit.rule-a", "rule-b", "py/path-injection", "x.y.z"]
    run = {"tool": {"driver": {"name": name}, "extensions": [{"rules": [{"id": "ext/r0"}, {"id": "ext/r1"}]}]}, "results": []}
    for i in range(rng.randint(0, 4)):
        res = {"message": {"text": "m"}, "locations": [gen_sarif_loc(rng, tool == "codeql") for _ in range(rng.choice([1, 1, 1, 2, 0]))]}
        if rng.random() < 0.8:
            res["ruleId"] = rng.choice(rules)
        else:
            res["rule"] = {"index": rng.randint(0, 1), "toolComponent": {"index": 0}}
        run["results"].append(res)
    return run


def gen_sarif_doc(rng, tool, malformed=False):
    kinds = rng.choice([[tool], [tool, tool], [tool, "other"], ["other", tool], ["other"], []])
    doc = {"version": "2.1.0", "runs": [gen_sarif_run(rng, k) for k in kinds]}
    label = "+".join(kinds) or "no_runs"
    if malformed and doc["runs"]:
        run = doc["runs"][0]
        kind = rng.choice(["no_results", "no_rule", "no_region_semgrep", "loc_no_uri"])
        if kind == "no_results":
            del run["results"]
        elif run["results"]:
            r = run["results"][0]
            if kind == "no_rule":
                r.pop("ruleId", None)
                r.pop("rule", None)
            elif r["locations"]:
                if kind == "no_region_semgrep":
                    r["locations"][0]["physicalLocation"].pop("region", None)
                else:
                    r["locations"][0]["physicalLocation"]["artifactLocation"].pop("uri", None)
        label += "+" + kind
    return label, doc


def gen_dd_doc(rng, malformed=False):
    n = rng.randint(0, 5)
    doc = {"count": n, "results": [{"id": rng.randint(1, 999), "title": rng.choice(["python.django.security.audit.secure-cookies.django-secure-set-cookie", "rule-x"]),
                                    "file_path": rng.choice(["a.py", "src/b.py"]), "line": rng.randint(1, 50), "description": "d"} for _ in range(n)]}
    label = f"n{n}"
    if malformed and doc["results"]:
        k = rng.choice(["id", "title", "file_path", "line"])
        del doc["results"][0][k]
        label += "+no_" + k
    return label, doc


def run_reader(ctx, kind, doc, idx):
    p = ctx.scratch / f"{kind}_{idx}.json"       # unique path: the readers are @cache'd on the file name
    p.write_text(json.dumps(doc))
    try:
        if kind == "sonar":
            from core_codemods.sonar.results import SonarResultSet
            return observe_exact(SonarResultSet.from_json(p))
        if kind == "semgrep":
            from codemodder.semgrep import SemgrepResultSet
            return observe_exact(SemgrepResultSet.from_sarif(p))
        if kind == "codeql":
            from codemodder.codeql import CodeQLResultSet
            return observe_exact(CodeQLResultSet.from_sarif(p))
        if kind == "dd":
            from core_codemods.defectdojo.results import DefectDojoResultSet
            return observe_exact(DefectDojoResultSet.from_json(p))
    except Exception:
        return None


CORPUS_SONAR = [
    # witness of C12_sonar (pinned expression): a document with both issues and hotspots
    ("corpus:issues_and_hotspots", {"issues": [{"rule": "python:S1", "status": "OPEN", "key": "A", "component": "p:a.py",
                                               "textRange": {"startLine": 1, "endLine": 1, "startOffset": 0, "endOffset": 2}}],
                                    "hotspots": [{"ruleKey": "python:S2", "status": "TO_REVIEW", "key": "B", "component": "p:a.py",
                                                  "textRange": {"startLine": 2, "endLine": 2, "startOffset": 0, "endOffset": 2}}]}),
]


def run(ctx: core.Ctx):
    run_tools(ctx)
    rng = ctx.rng
    n = 120 if ctx.quick() else 1200
    if getattr(ctx, "deep", False):
        n *= 3
    plans = {"sonar": ("sonar_model_ok", "sonar_spec_ok"), "semgrep": ("semgrep_model_ok", "semgrep_spec_ok"),
             "codeql": ("codeql_model_ok", "codeql_spec_ok"), "dd": ("dd_model_ok", "dd_spec_ok")}
    for kind, (mok, sok) in plans.items():
        docs = []
        if kind == "sonar":
            docs += CORPUS_SONAR
        for i in range(n if kind == "sonar" else n // 2):
            malformed = rng.random() < 0.2
            if kind == "sonar":
                docs.append(gen_sonar_doc(rng, malformed))
            elif kind == "dd":
                docs.append(gen_dd_doc(rng, malformed))
            else:
                docs.append(gen_sarif_doc(rng, kind, malformed))
        cases, meta = [], []
        for i, (label, doc) in enumerate(docs):
            obs = run_reader(ctx, kind, doc, i)
            ctx.count(f"reader:{kind}:{label.split('+')[0] if kind != 'sonar' else label}")
            ctx.count(f"reader:{kind}:outcome:" + ("exception" if obs is None else "ok"))
            cases.append(cpair(cjson(doc), core.copt(None if obs is None else clist([cfinding(f) for f in obs], "finding"), "list finding")))
            meta.append((label, doc, obs))
            ctx.case({"reader": kind, "doc": doc, "observed": obs}, nontrivial_key=(kind, json.dumps(doc, sort_keys=True)) if obs else None,
                     sample=bool(obs) and len(obs) >= 2 and kind == "sonar")
        extra = ["sonar_not_like_pinned", "sonar_not_like_perfile"] if kind == "sonar" else []
        bad = core.eval_bad_indices(ctx, f"c12_{kind}", IMPORTS, "reader_case", cases, [mok, sok] + extra, chunk=150)
        for i in bad[mok]:
            label, doc, obs = meta[i]
            ctx.mismatch(f"{kind} reader vs Model ({mok})", f"reader output differs from the model on a {label} document",
                         {"reader": kind, "doc": doc, "observed": obs})
        for i in bad[sok]:
            label, doc, obs = meta[i]
            # a failure is classified by what was OBSERVED, not by the shape of the input: the known classes are exactly
            # "the output is what the pinned select expression gives" / "... what the per-file try/except gives"
            cls = f"kf_{kind}_reader"
            if kind == "sonar":
                like_perfile = i in bad["sonar_not_like_perfile"]     # checker false = the observation IS like that form
                like_pinned = i in bad["sonar_not_like_pinned"]
                if like_perfile:
                    cls = "kf_sonar_malformed_entry_drops_file"
                elif like_pinned:
                    cls = "kf_sonar_hotspots_ignored"
            ctx.violation(cls, f"{kind} reader does not file the reference extraction of a {label} document: observed {obs}",
                          {"reader": kind, "doc": doc, "observed": obs,
                           "expected": "every individually readable open issue and hotspot with a textRange / every location of every "
                                       "result of every run (a reader may raise only on a document with an unreadable element)"})


# ---------------------------------------------------------------------------------------------- detect_sarif_tools
def gen_tool_run(rng, kind):
    """kind: semgrep | codeql | other | no_name | no_driver | no_tool | name_int"""
    if kind == "no_tool":
        return {"results": []}
    if kind == "no_driver":
        return {"tool": {"extensions": []}, "results": []}
    if kind == "no_name":
        return {"tool": {"driver": {"version": "1"}}, "results": []}
    if kind == "name_int":
        return {"tool": {"driver": {"name": 7}}, "results": []}
    name = {"semgrep": rng.choice(["Semgrep OSS", "semgrep", "SEMGREP pro"]), "codeql": rng.choice(["CodeQL", "GitHub CodeQL"]),
            "other": rng.choice(["Snyk", "bandit", "codeql-lowercase"])}[kind]
    return {"tool": {"driver": {"name": name}}, "results": []}


def run_detect(ctx, docs, idx):
    from codemodder.sarifs import DuplicateToolError, detect_sarif_tools
    paths = []
    for j, d in enumerate(docs):
        p = ctx.scratch / f"tools_{idx}_{j}.sarif"
        p.write_text(json.dumps(d))
        paths.append(p)
    try:
        m = detect_sarif_tools(paths)
        pairs = []
        for tool_name, files in m.items():
            code = {"semgrep": 0, "codeql": 1}.get(tool_name)
            if code is None:
                continue
            for f in files:
                pairs.append((code, paths.index(type(paths[0])(f))))
        return 0, pairs
    except DuplicateToolError:
        return 1, []
    except Exception:
        return 2, []


def detector_order():
    """the order in which detect_sarif_tools iterates the detectors: that of the `sarif_detectors` entry points"""
    from importlib.metadata import entry_points
    names = [ent.name for ent in entry_points().select(group="sarif_detectors")]
    seen, out = set(), []
    for nm in names:                      # the code builds a dict name -> detector: first position of each name
        if nm not in seen and nm in ("semgrep", "codeql"):
            seen.add(nm)
            out.append({"semgrep": 0, "codeql": 1}[nm])
    return out


def run_tools(ctx):
    rng = ctx.rng
    n = 80 if ctx.quick() else 800
    cases, meta = [], []
    fixed = [[{"runs": [gen_tool_run(rng, "no_name"), gen_tool_run(rng, "semgrep")]}],         # non-inspectable run first
             [{"runs": [gen_tool_run(rng, "semgrep"), gen_tool_run(rng, "no_name")]}],
             [{"runs": [gen_tool_run(rng, "other"), gen_tool_run(rng, "codeql")]}],
             [{"runs": [gen_tool_run(rng, "no_driver"), gen_tool_run(rng, "codeql")]}, {"runs": [gen_tool_run(rng, "semgrep")]}],
             [{"runs": [gen_tool_run(rng, "semgrep")]}, {"runs": [gen_tool_run(rng, "semgrep")]}],   # duplicate tool
             [{"runs": []}], [{"version": "2.1.0"}]]
    for i in range(n + len(fixed)):
        if i < len(fixed):
            docs = fixed[i]
        else:
            docs = []
            for _ in range(rng.choice([1, 1, 2, 3])):
                kinds = [rng.choice(["semgrep", "codeql", "other", "other", "no_name", "no_driver", "no_tool", "name_int"]) for _ in range(rng.randint(0, 4))]
                docs.append({"version": "2.1.0", "runs": [gen_tool_run(rng, k) for k in kinds]})
        kind, pairs = run_detect(ctx, docs, i)
        order = detector_order()
        ctx.count(f"detect_sarif_tools:outcome:{['ok', 'duplicate', 'crash'][kind]}")
        cases.append(cpair(clist([core.cN(t) for t in order], "N"),
                           clist([cpair(core.cN(j), cjson(d)) for j, d in enumerate(docs)], "N * json"), core.cN(kind),
                           clist([cpair(core.cN(a), core.cN(b)) for a, b in pairs], "N * N")))
        meta.append((docs, kind, pairs))
        ctx.case({"detect_sarif_tools": docs, "outcome": kind, "attribution": pairs}, nontrivial_key=("tools", json.dumps(docs, sort_keys=True)) if pairs else None,
                 sample=bool(pairs) and len(docs) > 1)
    bad = core.eval_bad_indices(ctx, "c12_tools", IMPORTS, "tools_case", cases, ["tools_model_ok", "tools_spec_ok"], chunk=150)
    for i in bad["tools_model_ok"]:
        docs, kind, pairs = meta[i]
        ctx.mismatch("detect_sarif_tools vs Model.SarifTools", f"attribution differs from the model: outcome {kind}, {pairs}", {"sarif_docs": docs, "observed": [kind, pairs]})
    for i in bad["tools_spec_ok"]:
        docs, kind, pairs = meta[i]
        ctx.violation("kf_sarif_attribution", f"a SARIF file holding a recognisable run is not attributed to its tool (or one without is): {pairs}",
                      {"sarif_docs": docs, "observed": [kind, pairs],
                       "expected": "file attributed to tool T iff one of its runs is recognised by T's detector; other runs are skipped one by one"})


def replay(ctx, body):
    if "sarif_docs" in body:
        print("observed now:", run_detect(ctx, body["sarif_docs"], 0), "| recorded:", body.get("observed"))
        print("expected    :", body.get("expected"))
        return 0
    obs = run_reader(ctx, body["reader"], body["doc"], 0)
    print("observed now:", obs)
    print("recorded    :", body.get("observed"))
    print("expected    :", body.get("expected"))
    return 0
