# Fragments of the dependency-manifest machinery (property C14; model coq/Model/Manifest.v).
# exec'd inside tools/translate.py: shape / literal / custom / TABLE_IMPORTS / Unrecognised / find_def are in scope.
TABLE_IMPORTS.append("From CM Require Import Base.Types_Manifest.")

_MF = "src/codemodder/"

shape("pkgstore_has_requirement", _MF + "project_analysis/file_parsers/package_store.py", ["C14"],
      "requirement_name_cmp", "name_cmp", "Canonical",
      ["PackageStore.__init__", "PackageStore.has_requirement", "parse_requirement"],
      doc="PackageStore.has_requirement: raw names (pinned) or PEP 503 canonical names (fix 1f40f34)")

shape("req_writer", _MF + "dependency_management/requirements_txt_writer.py", ["C14"],
      "req_writer_guard", "dry_guard", "DryGuarded",
      ["original_lines_strategy", "RequirementsTxtWriter.add_to_file", "RequirementsTxtWriter._parse_file"],
      doc="RequirementsTxtWriter.add_to_file/_parse_file (readlines, original_lines[-1], append, writelines) and its dry_run guard")

shape("cfg_writer", _MF + "dependency_management/setupcfg_writer.py", ["C14"],
      "cfg_writer_guard", "dry_guard", "DryGuarded",
      ["find_leading_whitespace", "added_line_nums_strategy", "SetupCfgWriter.add_to_file", "SetupCfgWriter.build_new_lines"],
      doc="SetupCfgWriter.build_new_lines/add_to_file (strip, index of first equal stripped line, newline/comma branch) and its dry_run guard")

shape("cfg_last_line", _MF + "dependency_management/setupcfg_writer.py", ["C14"],
      "cfg_last_line_form", "cfg_last_line", "LastLineTerminated",
      ["SetupCfgWriter.add_to_file"],
      doc="SetupCfgWriter.add_to_file: is a last line without newline terminated before the new lines are built (repair) or left as read (pinned)")

shape("pyproject_writer", _MF + "dependency_management/pyproject_writer.py", ["C14"],
      "pyproject_writer_guard", "dry_guard", "DryGuarded",
      ["PyprojectWriter.add_to_file", "PyprojectWriter._parse_file"],
      doc="PyprojectWriter.add_to_file (tomlkit oracle) and its dry_run guard")

shape("setuppy_writer", _MF + "dependency_management/setup_py_writer.py", ["C14"],
      "setuppy_writer_guard", "dry_guard", "DryGuarded",
      ["SetupPyWriter.add_to_file", "SetupPyWriter._parse_file"],
      doc="SetupPyWriter.add_to_file (libcst oracle) and its dry_run guard")

shape("base_writer", _MF + "dependency_management/base_dependency_writer.py", ["C14"],
      "base_writer_shape", "shape_ok", "AsPinned",
      ["DependencyWriter.__init__", "DependencyWriter.write", "DependencyWriter.add"],
      doc="DependencyWriter.write / add (filter by has_requirement, add to the store's set)")

shape("dep_manager", _MF + "dependency_management/dependency_manager.py", ["C14"],
      "dep_manager_shape", "shape_ok", "AsPinned",
      ["DependencyManager.__init__", "DependencyManager.write"],
      doc="DependencyManager.write: dispatch on the store's file type")

shape("process_dependencies", _MF + "context.py", ["C14"],
      "dep_loop_form", "dep_loop", "FirstWinsBreak",
      ["CodemodExecutionContext.process_dependencies", "CodemodExecutionContext.add_description",
       "CodemodExecutionContext._writable_package_stores"],
      doc="process_dependencies: first store that yields a changeset wins (`break`); add_description notifications")

shape("repo_manager", _MF + "project_analysis/python_repo_manager.py", ["C14"],
      "repo_manager_shape", "shape_ok", "AsPinned",
      ["PythonRepoManager.dependencies_store", "PythonRepoManager.package_stores", "PythonRepoManager.parse_project",
       "PythonRepoManager._parse_all_stores"],
      doc="PythonRepoManager._parse_all_stores: stores discovered parser by parser in _potential_stores order")

shape("req_parser", _MF + "project_analysis/file_parsers/requirements_txt_file_parser.py", ["C14"],
      "req_parser_shape", "shape_ok", "AsPinned",
      ["RequirementsTxtParser._parse_file", "RequirementsTxtParser._clean_lines"],
      doc="RequirementsTxtParser._parse_file (chardet, splitlines) / _clean_lines")

shape("dep_notifications", _MF + "dependency.py", ["C14"],
      "dep_notifications_shape", "shape_ok", "AsPinned",
      ["build_dependency_notification", "build_failed_dependency_notification"],
      doc="build_dependency_notification / build_failed_dependency_notification")


_STORE_KINDS = {"PyprojectTomlParser": "Toml", "SetupPyParser": "SetupPy", "RequirementsTxtParser": "ReqTxt",
                "SetupCfgParser": "SetupCfg"}


def _store_order(tree, repo):
    """`self._potential_stores = [A, B, C, D]` in PythonRepoManager.__init__ and nothing else of substance there."""
    init = find_def(tree, "PythonRepoManager.__init__")
    if init is None:
        raise Unrecognised("PythonRepoManager.__init__ not found")
    found = None
    for s in init.body:
        if isinstance(s, ast.Assign) and len(s.targets) == 1 and isinstance(s.targets[0], ast.Attribute) \
                and isinstance(s.targets[0].value, ast.Name) and s.targets[0].value.id == "self":
            attr = s.targets[0].attr
            if attr == "parent_directory" and isinstance(s.value, ast.Name) and s.value.id == "parent_directory":
                continue
            if attr == "_potential_stores" and isinstance(s.value, ast.List) and found is None \
                    and all(isinstance(e, ast.Name) for e in s.value.elts):
                found = [e.id for e in s.value.elts]
                continue
        raise Unrecognised("unexpected statement in PythonRepoManager.__init__: " + ast.dump(s)[:120])
    if found is None:
        raise Unrecognised("no `self._potential_stores = [...]` in PythonRepoManager.__init__")
    unknown = [n for n in found if n not in _STORE_KINDS]
    if unknown:
        raise Unrecognised("unknown parser classes in _potential_stores: " + ", ".join(unknown))
    if len(set(found)) != len(found):
        raise Unrecognised("a parser occurs twice in _potential_stores")
    return [_STORE_KINDS[n] for n in found]


custom("store_order", _MF + "project_analysis/python_repo_manager.py", ["C14"],
       "potential_store_order", "list store_kind", ["Toml", "SetupPy", "ReqTxt", "SetupCfg"], _store_order,
       printer=lambda v: "[" + "; ".join(v) + "]" if v else "([] : list store_kind)",
       doc="PythonRepoManager._potential_stores (order in which manifests are offered the dependency)")
