from typing import Sequence, Set

import libcst as cst
from libcst.codemod.visitors import AddImportsVisitor, RemoveImportsVisitor
from libcst.metadata import PositionProvider

from codemodder.codemods.imported_call_modifier import ImportedCallModifier
from core_codemods.api import Metadata, Reference, ReviewGuidance, SimpleCodemod


class HTTPSConnectionModifier(ImportedCallModifier[Set[str]]):
    def updated_args(self, original_args):
        """
        Last argument _proxy_config does not match new method

        We convert it to keyword
        """
        new_args = list(original_args)
        if self.count_positional_args(new_args) == 10:
            new_args[9] = new_args[9].with_changes(
                keyword=cst.parse_expression("_proxy_config")
            )
        return new_args

    def update_attribute(self, true_name, original_node, updated_node, new_args):
        del true_name, original_node
        return updated_node.with_changes(
            args=new_args,
            func=updated_node.func.with_changes(
                attr=cst.Name(value="HTTPSConnectionPool")
            ),
        )

    def update_simple_name(self, true_name, original_node, updated_node, new_args):
        del true_name
        AddImportsVisitor.add_needed_import(self.context, "urllib3")
        RemoveImportsVisitor.remove_unused_import_by_node(self.context, original_node)
        return updated_node.with_changes(
            args=new_args,
            func=cst.parse_expression("urllib3.HTTPSConnectionPool"),
        )

    def count_positional_args(self, arglist: Sequence[cst.Arg]) -> int:
        for idx, arg in enumerate(arglist):
            if arg.keyword:
                return idx
        return len(arglist)


class HTTPSConnection(SimpleCodemod):
    metadata = Metadata(
        name="https-connection",
        summary="Enforce HTTPS Connection for `urllib3`",
        review_guidance=ReviewGuidance.MERGE_WITHOUT_REVIEW,
        references=[
            Reference(
                url="https://owasp.org/www-community/vulnerabilities/Insecure_Transport"
            ),
            Reference(
                url="https://urllib3.readthedocs.io/en/stable/reference/urllib3.connectionpool.html#urllib3.HTTPConnectionPool"
            ),
        ],
    )

    change_description = "Enforce HTTPS connection for `urllib3`"

    METADATA_DEPENDENCIES = (PositionProvider,)

    matching_functions: set[str] = {
        "urllib3.HTTPConnectionPool",
        "urllib3.connectionpool.HTTPConnectionPool",
    }

    def transform_module_impl(self, tree: cst.Module) -> cst.Module:
        visitor = HTTPSConnectionModifier(
            self.context,
            self.file_context,
            self.matching_functions,
            self.change_description,
        )
        result_tree = visitor.transform_module(tree)
        self.file_context.codemod_changes.extend(visitor.changes_in_file)
        return result_tree
