import libcst as cst

from codemodder.dependency import Security
from core_codemods.api import Metadata, Reference, ReviewGuidance, SimpleCodemod


class ProcessSandbox(SimpleCodemod):
    metadata = Metadata(
        name="sandbox-process-creation",
        summary="Sandbox Process Creation",
        review_guidance=ReviewGuidance.MERGE_AFTER_CURSORY_REVIEW,
        references=[
            Reference(
                url="https://github.com/pixee/python-security/blob/main/src/security/safe_command/api.py"
            ),
            Reference(
                url="https://cheatsheetseries.owasp.org/cheatsheets/OS_Command_Injection_Defense_Cheat_Sheet.html"
            ),
        ],
    )
    change_description = (
        "Replaces subprocess.{func} with more secure safe_command library functions."
    )

    adds_dependency = True
    detector_pattern = """
        rules:
            - pattern-either:
              - patterns:
                - pattern: subprocess.$FUNC(...)
                - pattern-not: subprocess.$FUNC("...", ...)
                - pattern-not: subprocess.$FUNC(["...", ...], ...)
                - metavariable-pattern:
                    metavariable: $FUNC
                    patterns:
                    - pattern-either:
                      - pattern: run
                      - pattern: call
                      - pattern: Popen
                - pattern-inside: |
                    import subprocess
                    ...
    """

    def on_result_found(self, original_node, updated_node):
        self.add_needed_import("security", "safe_command")
        self.add_dependency(Security)
        return self.update_call_target(
            updated_node,
            "safe_command",
            new_func="run",
            replacement_args=[cst.Arg(original_node.func), *original_node.args],
        )
